"""Value numbering over straight-line MIR: the values a function leaves in its return place / behind its `&mut` arguments, as
terms over its inputs (Herbrand interpretation: operators are uninterpreted except for constant folding of shift amounts and
commutativity). Used to compare the arithmetic core of the Murmur3 token hash with the reference algorithm term by term - an
equality of *expressions*, established without running anything.

term ::= ("in", name) | ("c", int mod 2^64) | (op, t1, t2) | ("shr", "u"|"s", t, amount) | ("call", name, t...) | ("fld", t, elem)
Supported bodies: one normal-flow path from entry to return (asserts, drops, false edges and unwind edges are skipped);
a SwitchInt makes the body unsupported (None)."""
M64 = (1 << 64) - 1
COMMUTATIVE = {"add", "mul", "xor", "or", "and"}
BIN = {"Add": "add", "AddUnchecked": "add", "AddWithOverflow": "add", "Sub": "sub", "SubUnchecked": "sub", "SubWithOverflow": "sub",
       "Mul": "mul", "MulUnchecked": "mul", "MulWithOverflow": "mul", "BitXor": "xor", "BitOr": "or", "BitAnd": "and",
       "Shl": "shl", "ShlUnchecked": "shl", "Shr": "shr", "ShrUnchecked": "shr", "Rem": "rem", "Div": "div"}
TRAIT_OPS = {
    "core::ops::arith::Mul::mul": "mul", "core::ops::arith::Add::add": "add", "core::ops::arith::Sub::sub": "sub",
    "core::ops::bit::BitXor::bitxor": "xor", "core::ops::bit::BitOr::bitor": "or", "core::ops::bit::BitAnd::bitand": "and",
    "core::ops::bit::Shl::shl": "shl", "core::ops::bit::Shr::shr": "shr",
}
TRAIT_ASSIGN_OPS = {
    "core::ops::arith::MulAssign::mul_assign": "mul", "core::ops::arith::AddAssign::add_assign": "add",
    "core::ops::arith::SubAssign::sub_assign": "sub", "core::ops::bit::BitXorAssign::bitxor_assign": "xor",
    "core::ops::bit::BitOrAssign::bitor_assign": "or", "core::ops::bit::BitAndAssign::bitand_assign": "and",
    "core::ops::bit::ShlAssign::shl_assign": "shl", "core::ops::bit::ShrAssign::shr_assign": "shr",
}


def c(v):
    return ("c", v & M64)


def mk(op, a, b, signed=None):
    if op in ("shl", "shr", "sub", "add") and a[0] == "c" and b[0] == "c" and op in ("sub", "add"):
        return c(a[1] - b[1]) if op == "sub" else c(a[1] + b[1])
    if op == "shr":
        return ("shr", "s" if signed else "u", a, b)
    if op in COMMUTATIVE and repr(b) < repr(a):
        a, b = b, a
    return (op, a, b)


class Unsupported(Exception):
    pass


class Evaluator:
    def __init__(self, facts, depth=4, follow_try=False):
        self.facts = facts
        self.depth = depth
        self.follow_try = follow_try     # `x?`: continue along the success edge, the payload is ("fld", ("fld", branch(x), Continue), 0)

    # ---- places ------------------------------------------------------------------------------
    @staticmethod
    def _key(place):
        return (place[0], tuple("*" if e == "*" else (e[2] or str(e[1])) if isinstance(e, list) and e[0] == "f" else str(e) for e in place[1]))

    def read(self, env, body, place):
        k = self._key(place)
        # references: `(*r).f` where r = &mut x  ->  x.f
        root, elems = k
        base = env.get((root, ()))
        if base is not None and base[0] == "ref" and elems and elems[0] == "*":
            return self.read_key(env, body, (base[1][0], base[1][1] + elems[1:]))
        return self.read_key(env, body, k)

    def read_key(self, env, body, k):
        if k in env:
            return env[k]
        root, elems = k
        # a prefix is known: project (Wrapping's `.0` is the value itself)
        for n in range(len(elems) - 1, -1, -1):
            p = (root, elems[:n])
            if p in env:
                t = env[p]
                if t[0] == "ref":
                    rest = elems[n:]
                    if rest and rest[0] == "*":
                        return self.read_key(env, body, (t[1][0], t[1][1] + rest[1:]))
                for e in elems[n:]:
                    if t[0] == "tuple" and e.isdigit() and int(e) + 1 < len(t):
                        t = t[1 + int(e)]
                        continue
                    if e == "0" and self._is_wrapping(body, p, env):
                        continue
                    if e == "*":
                        continue
                    t = ("fld", t, e)
                return t
        return ("in", "%s%s" % (body.local_name(root) or "_%d" % root, "".join("." + e for e in elems if e != "*")))

    @staticmethod
    def _is_wrapping(body, p, env):
        return True   # the only single-field wrapper met on these paths; a wrong guess shows up as a term mismatch

    def write(self, env, body, place, term):
        k = self._key(place)
        root, elems = k
        base = env.get((root, ()))
        if base is not None and base[0] == "ref" and elems and elems[0] == "*":
            k = (base[1][0], base[1][1] + elems[1:])
        # drop stale sub-paths
        for q in [q for q in env if q[0] == k[0] and q[1][:len(k[1])] == k[1] and q != k]:
            del env[q]
        if k[1] and k[1][-1] == "0":
            k = (k[0], k[1][:-1])       # writing the single field of a wrapper = writing the wrapper
        env[k] = term

    # ---- operands / rvalues --------------------------------------------------------------------
    def operand(self, env, body, op):
        if op[0] == "k":
            if op[1] == "int":
                return c(int(op[3]))
            if op[1] == "other" and len(op) > 4 and op[4]:
                cb = self.facts.body(op[4])
                if cb is not None:
                    t, _ = self.eval_body(cb, [], 0)
                    if t is not None:
                        return t
            return ("in", "const:" + str(op[3])[:40])
        return self.read(env, body, op[1])

    def rvalue(self, env, body, rv):
        k = rv[0]
        if k in ("use", "cfd"):
            return self.operand(env, body, rv[1]) if k == "use" else self.read(env, body, rv[1])
        if k == "ref" or k == "addr":
            key = self._key(rv[-1])
            base = env.get((key[0], ()))
            if base is not None and base[0] == "ref" and key[1] and key[1][0] == "*":
                return ("ref", (base[1][0], base[1][1] + key[1][1:]))
            return ("ref", key)
        if k == "cast":
            t = self.operand(env, body, rv[2])
            frm, to = body.ty(rv[3]), body.ty(rv[4])
            w = {"i64": 64, "u64": 64, "i32": 32, "u32": 32, "usize": 64, "isize": 64, "i8": 8, "u8": 8, "i16": 16, "u16": 16}
            if w.get(frm) == w.get(to) and w.get(frm):
                return t                     # same-width reinterpretation
            if t[0] == "c":
                return t
            return ("cast", frm, to, t)
        if k == "bin":
            if rv[1] in ("Lt", "Le", "Gt", "Ge", "Eq", "Ne"):      # only feeds overflow assertions on these paths
                return ("cmp", rv[1], self.operand(env, body, rv[2]), self.operand(env, body, rv[3]))
            op = BIN.get(rv[1])
            if op is None:
                raise Unsupported("binop " + rv[1])
            a, b = self.operand(env, body, rv[2]), self.operand(env, body, rv[3])
            t = mk(op, a, b, signed=body.ty(rv[4]).startswith("i"))
            if rv[1].endswith("WithOverflow"):
                return ("pair", t)
            return t
        if k == "agg":
            if rv[1][0] == "adt" and rv[1][1] == "core::num::wrapping::Wrapping":
                return self.operand(env, body, rv[2][0])
            if rv[1][0] == "tuple":
                return ("tuple",) + tuple(self.operand(env, body, o) for o in rv[2])
            if rv[1][0] == "closure":
                return ("closure", rv[1][1]) + tuple(self.operand(env, body, o) for o in rv[2])
            raise Unsupported("aggregate " + str(rv[1][:2]))
        if k == "un":
            return ("un", rv[1], self.operand(env, body, rv[2]))
        if k == "disc" and self.follow_try:
            return ("disc", self.read(env, body, rv[1]))
        raise Unsupported("rvalue " + k)

    # ---- bodies ------------------------------------------------------------------------------------
    def eval_body(self, body, args, depth):
        """(term of the return place, env) after running `body` on argument terms; None if unsupported"""
        env = {}
        for i, a in enumerate(args):
            env[(i + 1, ())] = a
        for i in range(len(args), body.argc):
            env[(i + 1, ())] = ("in", body.local_name(i + 1) or "_%d" % (i + 1))
        bb, steps = 0, 0
        try:
            while steps < 400:
                steps += 1
                for st in body.stmts(bb):
                    if st[0] == "A":
                        t = self.rvalue(env, body, st[2])
                        if t[0] == "pair":
                            self.write(env, body, [st[1][0], st[1][1] + [["f", 0, "", 0]]], t[1])
                        else:
                            self.write(env, body, st[1], t)
                t = body.term(bb)
                k = t[0]
                if k == "ret":
                    return env.get((0, ())), env
                if k == "goto":
                    bb = t[1]
                elif k in ("drop",):
                    bb = t[2]
                elif k == "assert":
                    bb = t[5]
                elif k in ("falseedge", "falseunwind"):
                    bb = t[1]
                elif k == "switch" and self.follow_try:
                    sc = self.operand(env, body, t[1])
                    tgt = [x[1] for x in t[2] if str(x[0]) == "0"]
                    if sc[0] == "disc" and sc[1][0] == "call" and sc[1][1] == "branch" and tgt:
                        bb = tgt[0]
                    else:
                        raise Unsupported("switch")
                elif k == "call":
                    self.call(env, body, t, depth)
                    if t[4] is None:
                        raise Unsupported("diverging call")
                    bb = t[4]
                else:
                    raise Unsupported("terminator " + k)
        except Unsupported:
            return None, env
        return None, env

    def call(self, env, body, t, depth):
        cal = t[1]
        decl = cal.get("def", "")
        args = [self.operand(env, body, a) for a in t[2]]
        if decl in TRAIT_OPS and len(args) == 2:
            self.write(env, body, t[3], mk(TRAIT_OPS[decl], args[0], args[1], signed=True))
            return
        if decl in TRAIT_ASSIGN_OPS and len(args) == 2 and args[0][0] == "ref":
            k = args[0][1]
            cur = self.read_key(env, body, k)
            new = mk(TRAIT_ASSIGN_OPS[decl], cur, args[1], signed=True)
            for q in [q for q in env if q[0] == k[0] and q[1][:len(k[1])] == k[1] and q != k]:
                del env[q]
            env[k] = new
            self.write(env, body, t[3], ("unit",))
            return
        tgt = cal.get("res") or decl
        if self.follow_try and decl in ("core::convert::From::from", "core::convert::Into::into") and len(args) == 1:
            # integer conversions keep their source and target types: `u128::from(x)` and `x as u128` are the same value
            import re as _re
            m = _re.search(r"From<(\w+)> for (\w+)>::from$", tgt or "")
            tys = (m.group(1), m.group(2)) if m else None
            if tys is None:
                ga = [x.strip() for x in (cal.get("args") or "").strip("[]").split(",")]
                if len(ga) == 2:
                    tys = (ga[1], ga[0]) if decl.endswith("From::from") else (ga[0], ga[1])
            ints = ("u8", "u16", "u32", "u64", "u128", "usize", "i8", "i16", "i32", "i64", "i128", "isize")
            if tys and tys[0] in ints and tys[1] in ints:
                self.write(env, body, t[3], ("cast", tys[0], tys[1], args[0]) if args[0][0] != "c" else args[0])
                return
        cb = self.facts.body(tgt) if tgt else None
        if cb is not None and depth < self.depth and not cb.is_coroutine:
            cargs = args
            if "{closure" in tgt.split("::")[-1] and len(args) == 2 and args[1][0] == "tuple":
                # Fn::call(&closure, (a, b)) -> closure(env, a, b); the environment is passed as an opaque input
                cargs = [("in", "closure-env")] + list(args[1][1:])
            if len(cargs) == cb.argc:
                # by-reference arguments: evaluate the callee on the referent's current value and write back
                passed = [self.read_key(env, body, a[1]) if a[0] == "ref" else a for a in cargs]
                ret, cenv = self.eval_body(cb, [("ref", ("arg%d" % i, ())) if a[0] == "ref" else a for i, a in enumerate(cargs)], depth + 1) \
                    if any(a[0] == "ref" for a in cargs) else self.eval_body(cb, passed, depth + 1)
                if ret is not None and not any(a[0] == "ref" for a in cargs):
                    self.write(env, body, t[3], ret)
                    return
        self.write(env, body, t[3], ("call", tgt.split("::")[-1] if tgt else "?") + tuple(args))


def fmt(t, depth=0):
    if t is None:
        return "<unsupported control flow>"
    k = t[0]
    if k == "c":
        v = t[1]
        return hex(v) if v > 255 else str(v)
    if k == "in":
        return t[1]
    if k == "shr":
        return "(%s >>%s %s)" % (fmt(t[2]), ">" if t[1] == "u" else "", fmt(t[3]))
    if k in ("add", "sub", "mul", "xor", "or", "and", "shl"):
        sym = {"add": "+", "sub": "-", "mul": "*", "xor": "^", "or": "|", "and": "&", "shl": "<<"}[k]
        return "(%s %s %s)" % (fmt(t[1]), sym, fmt(t[2]))
    return "%s(%s)" % (k, ", ".join(fmt(x) if isinstance(x, tuple) else str(x) for x in t[1:]))
