"""Check runner: runs a property's rule module, writes evidence, handles known findings."""
import hashlib, importlib, json, os, sys, time, traceback
from . import extract, mir
from .mir import AnchorLost

import builtins


def print(*a, **kw):  # noqa: A001 - tolerate a closed stdout (e.g. `| head`): the verdict is the exit code
    try:
        builtins.print(*a, **kw)
        sys.stdout.flush()
    except BrokenPipeError:
        try:
            sys.stdout = open(os.devnull, "w")
        except Exception:
            pass


VERIF = extract.VERIF
EVID = os.path.join(os.environ["VERIF_WORK"], "evidence") if os.environ.get("VERIF_WORK") else os.path.join(VERIF, "evidence")
KNOWN = os.path.join(VERIF, "known_findings.json")


class Rule:
    def __init__(self, ctx, rid, desc, floor=0):
        self.ctx = ctx
        self.id = rid
        self.desc = desc
        self.floor = floor
        self.instances = []   # dicts: key, ok, detail, site, nontrivial
        self.notes = []

    def instance(self, key, ok, detail="", site=None, nontrivial=True, data=None):
        self.instances.append({
            "key": "%s.%s:%s" % (self.ctx.pid, self.id, key),
            "ok": bool(ok),
            "detail": detail,
            "site": str(site) if site is not None else None,
            "nontrivial": nontrivial,
            "data": data,
        })
        return bool(ok)

    def fail(self, key, detail, site=None, data=None):
        return self.instance(key, False, detail, site, True, data)

    def ok(self, key, detail="", site=None, data=None, nontrivial=True):
        return self.instance(key, True, detail, site, nontrivial, data)

    def note(self, s):
        self.notes.append(s)

    def guard(self, fn, *a, **kw):
        """run fn; an AnchorLost inside becomes a fail-closed finding of this rule."""
        try:
            return fn(self, *a, **kw)
        except AnchorLost as ex:
            self.fail("anchor-lost", "anchor lost (re-confirm by reading): %s" % ex)
        except Exception as ex:  # rule crashed: fail closed, keep the trace
            self.fail("rule-error", "rule raised %s: %s\n%s" % (type(ex).__name__, ex, traceback.format_exc()[-1500:]))


class Ctx:
    def __init__(self, pid, tier):
        self.pid = pid
        self.tier = tier
        self.rules = []
        self._facts = {}
        self.extract_info = {}
        self.assumptions = []
        self.explanation = ""
        self.extra = {}
        self.alias = {}      # thorough tier: the rule module's "default" facts are replaced by another feature configuration
        self.pass_tag = ""

    def facts(self, config="default"):
        config = self.alias.get(config, config)
        if config not in self._facts:
            d, info = extract.facts_dir(config)
            self._facts[config] = mir.Facts(d, extract.CONFIGS[config][3])
            self.extract_info[config] = info
        return self._facts[config]

    def rule(self, rid, desc, floor=0):
        if self.pass_tag:
            desc = "%s [config %s]" % (desc, self.pass_tag)
        r = Rule(self, rid, desc, floor)
        self.rules.append(r)
        return r

    def run_rule(self, rid, desc, fn, floor=0, **kw):
        r = self.rule(rid, desc, floor)
        r.guard(fn, **kw)
        return r


def _inlined_log():
    try:
        from .inline import INLINED_LOG
        return INLINED_LOG
    except Exception:
        return set()


def load_known():
    if not os.path.exists(KNOWN):
        return {"findings": [], "fixed": []}
    with open(KNOWN) as fh:
        return json.load(fh)


def main(argv):
    pid = argv[0]
    tier = os.environ.get("VERIF_TIER", "quick")
    if "--tier" in argv:
        tier = argv[argv.index("--tier") + 1]
    seed = int(os.environ.get("VERIF_SEED", "0") or 0)
    t0 = time.time()
    os.makedirs(EVID, exist_ok=True)
    evpath = os.path.join(EVID, pid + ".json")
    try:
        mod = importlib.import_module("scyllalint.rules." + pid.lower())
    except ImportError as ex:
        print("no rule module for", pid, ex)
        return 2
    ctx = Ctx(pid, tier)
    try:
        try:
            mod.check(ctx)
        except extract.ToolFailure:
            raise
        except Exception as ex:   # a rule crashed on a shape it does not know: fail closed with a diagnosable finding
            ctx.rule("CRASH", "rule module raised an exception").fail(
                "rule-error", "rule raised %s: %s | %s" % (type(ex).__name__, ex, traceback.format_exc()[-1200:].replace("\n", " | ")))
        if tier == "thorough":
            # same rules over the MIR of the other feature configurations (different cfg => different code is compiled in)
            for cfg in getattr(mod, "THOROUGH_CONFIGS", ("full", "unstable")):
                ctx.alias = {"default": cfg}
                ctx.pass_tag = cfg
                mod.check(ctx)
            ctx.alias, ctx.pass_tag = {}, ""
    except extract.ToolFailure as ex:
        print("TOOL-FAILURE (tree does not compile or extraction failed): %s" % ex)
        return 2
    # floors: fail closed when fewer instances than confirmed by hand
    lost = any(i["key"].endswith((":anchor-lost", ":rule-error")) for r in ctx.rules for i in r.instances)
    for r in ctx.rules:
        n = len([i for i in r.instances if not i["key"].endswith((":anchor-lost", ":rule-error"))])
        if n == 0 and lost:
            continue  # already reported as a lost anchor
        # the floor guards against a rule that silently matches (almost) nothing; a refactoring that merges two sites into
        # one must not trip it, so it fires below half of the count confirmed on the reference tree (and always at zero)
        if n < r.floor and (n == 0 or n * 2 < r.floor):
            r.fail("floor", "only %d instances found, %d were confirmed by hand on the reference tree: an anchor moved or most sites disappeared; re-confirm by reading" % (n, r.floor))
    known = load_known()
    known_keys = {f["key"]: f for f in known.get("findings", []) if f.get("property") == pid}
    violations, knowns = [], []
    for r in ctx.rules:
        for i in r.instances:
            if not i["ok"]:
                if i["key"] in known_keys:
                    knowns.append((r, i))
                else:
                    violations.append((r, i))
    obligations = sum(len(r.instances) for r in ctx.rules)
    discharged = sum(1 for r in ctx.rules for i in r.instances if i["ok"])
    nontriv = len({i["key"] for r in ctx.rules for i in r.instances if i["nontrivial"]})
    samples = []
    for r in ctx.rules:
        for i in r.instances[:3]:
            samples.append({"rule": r.id, "key": i["key"], "ok": i["ok"], "site": i["site"], "detail": (i["detail"] or "")[:400]})
    analysed = {}
    for cfg, f in ctx._facts.items():
        analysed[cfg] = {c: {"bodies": rec["bodies"]} for c, rec in f.crates.items()}
        analysed[cfg]["_extract"] = ctx.extract_info.get(cfg)
    ev = {
        "property_id": pid,
        "tier": tier,
        "seed": seed,
        "level": "other",
        "coverage": {
            "explanation": ctx.explanation or (mod.__doc__ or "").strip(),
            "obligations": obligations,
            "discharged": discharged,
            "evaluations": obligations,
            "distinct_nontrivial": nontriv,
            "rule": "one obligation per rule instance found in the MIR of /repo's current tree (site x rule); an instance is "
                    "non-trivial when the rule had to establish a dataflow/dominance/call-graph fact for it; distinct by finding key "
                    "(rule + function + instance descriptor, no line numbers)",
            "samples": samples,
            "exhaustive": True,
            "rules": [{"id": r.id, "desc": r.desc, "floor": r.floor, "instances": len(r.instances),
                       "passed": sum(1 for i in r.instances if i["ok"]), "notes": r.notes[:20]} for r in ctx.rules],
            "analysed": analysed,
            "known_findings_matched": [i["key"] for _, i in knowns],
            "new_helper_functions_inlined": sorted("%s <- %s" % x for x in _inlined_log())[:40],
            **ctx.extra,
        },
        "assumptions": ctx.assumptions + [
            "rustc's MIR construction and type checker (nightly, mir_promoted stage, -Zmir-opt-level=0)",
            "only code compiled into the lib targets under the analysed feature configuration is seen (cfg(test) code excluded)",
        ],
        "wall_s": round(time.time() - t0, 2),
        "violations": len(violations),
    }
    with open(evpath, "w") as fh:
        json.dump(ev, fh, indent=1)
    print("%s tier=%s rules=%d obligations=%d discharged=%d known=%d violations=%d wall=%.1fs" % (
        pid, tier, len(ctx.rules), obligations, discharged, len(knowns), len(violations), time.time() - t0))
    for r in ctx.rules:
        print("  %s.%s %-70s %d/%d" % (pid, r.id, r.desc[:70], sum(1 for i in r.instances if i["ok"]), len(r.instances)))
    printed = set()
    for r, i in knowns:
        if i["key"] in printed:
            continue  # thorough tier: the same finding seen again under another feature configuration
        printed.add(i["key"])
        print("KNOWN-FINDING: property=%s %s — %s" % (pid, i["key"], known_keys[i["key"]].get("what", i["detail"][:200])))
    if violations:
        rdir = os.path.join(EVID, "replay")
        os.makedirs(rdir, exist_ok=True)
        for r, i in violations:
            h = hashlib.sha1(i["key"].encode()).hexdigest()[:10]
            rp = os.path.join(rdir, "%s-%s-%s.json" % (pid, r.id, h))
            with open(rp, "w") as fh:
                json.dump({"property": pid, "rule": r.id, "rule_desc": r.desc, **i}, fh, indent=1)
            print("FINDING %s at %s: %s" % (i["key"], i["site"], (i["detail"] or "").replace("\n", " | ")[:600]))
            print("VIOLATION property=%s replay=%s" % (pid, rp))
        return 1
    return 0
