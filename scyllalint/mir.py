"""E2 core: object model over mirfacts JSON, CFG, dominators, pretty printer."""
import json, os, re
from collections import defaultdict


class LazyBodies:
    """path -> Body, parsing a body's JSON line only when it is first needed."""

    def __init__(self):
        self.raw = {}      # path -> (line, types, files, crate)
        self.parsed = {}

    def add_raw(self, path, line, types_files, crate):
        self.raw[path] = (line, types_files, crate)

    def get(self, path, default=None):
        b = self.parsed.get(path)
        if b is not None:
            return b
        r = self.raw.get(path)
        if r is None:
            return default
        tf = r[1]
        b = Body(json.loads(r[0]), tf["types"], tf["files"], r[2])
        self.parsed[path] = b
        return b

    def __getitem__(self, path):
        b = self.get(path)
        if b is None:
            raise KeyError(path)
        return b

    def __contains__(self, path):
        return path in self.raw

    def __len__(self):
        return len(self.raw)

    def keys(self):
        return self.raw.keys()

    def values(self):
        return [self.get(p) for p in self.raw]

    def items(self):
        return [(p, self.get(p)) for p in self.raw]

    def mentioning(self, *needles):
        """bodies whose raw JSON contains any of the given substrings (cheap prefilter for whole-program scans)."""
        out = []
        for p, (line, _, _) in self.raw.items():
            if any(n in line for n in needles):
                out.append(self.get(p))
        return out


_PATH_RX = re.compile(r'"path":"((?:[^"\\]|\\.)*)"')


class Facts:
    def __init__(self, directory, crates):
        self.dir = directory
        self.bodies = LazyBodies()   # path -> Body
        self.adts = {}            # path -> adt record
        self.impls = []           # impl records (with 'crate')
        self.consts = {}          # path -> (ty, int)
        self.crates = {}          # name -> crate record
        for c in crates:
            p = os.path.join(directory, c + ".facts.jsonl")
            tf = {}
            other = []
            with open(p) as fh:
                for line in fh:
                    if line.startswith('{"k":"body"'):
                        m = _PATH_RX.search(line)
                        path = json.loads('"' + m.group(1) + '"')
                        self.bodies.add_raw(path, line, tf, c)
                    else:
                        other.append(json.loads(line))
            crate = [r for r in other if r["k"] == "crate"][0]
            tf["types"] = crate["types"]
            tf["files"] = crate["files"]
            self.crates[c] = {k: v for k, v in crate.items() if k not in ("types", "files")}
            files = crate["files"]
            for r in other:
                k = r["k"]
                if k == "adt":
                    self.adts.setdefault(r["path"], r)
                elif k == "impl":
                    r["crate"] = c
                    r["file"] = files[r["span"][0]]
                    self.impls.append(r)
                elif k == "const":
                    self.consts[r["path"]] = (r["ty"], int(r["value"]))
        self._callers = None

    # ---- lookups -------------------------------------------------------------------------
    def body(self, path):
        return self.bodies.get(path)

    def find(self, pattern, include_promoted=False):
        """bodies whose path matches the regex (search); promoted-constant bodies only on request."""
        rx = re.compile(pattern)
        return [self.bodies.get(p) for p in self.bodies.keys() if rx.search(p) and (include_promoted or "::promoted[" not in p)]

    def one(self, pattern):
        m = self.find(pattern)
        if len(m) != 1:
            raise AnchorLost("expected exactly one body matching %r, found %d: %s" % (pattern, len(m), [b.path for b in m][:6]))
        return m[0]

    def impls_of(self, trait_def):
        return [i for i in self.impls if i.get("trait_def") == trait_def]

    def adt(self, path):
        a = self.adts.get(path)
        if a is None:
            raise AnchorLost("ADT not found: " + path)
        return a

    def variant_by_discr(self, adt_path, value):
        a = self.adts.get(adt_path)
        if not a:
            return None
        for v in a["variants"]:
            if int(v["discr"]) == int(value):
                return v["name"]
        return None

    def variants(self, adt_path):
        return [v["name"] for v in self.adt(adt_path)["variants"]]

    # ---- call graph ----------------------------------------------------------------------
    def callers(self):
        """callee path -> list of (Body, bb) over all bodies (direct + resolved)."""
        if self._callers is None:
            m = defaultdict(list)
            for b in self.bodies.values():
                for bb, call in b.calls():
                    for n in call.names():
                        m[n].append((b, bb))
            self._callers = m
        return self._callers

    def callers_of(self, path):
        """[(Body, bb)] of call sites whose declared or resolved callee is `path` (only bodies mentioning it are parsed)."""
        key = json.dumps(path)
        out = []
        for b in self.bodies.mentioning(key):
            for bb, call in b.calls():
                if path in call.names():
                    out.append((b, bb))
        return out


class AnchorLost(Exception):
    pass


class Span:
    __slots__ = ("file", "line", "col", "macro")

    def __init__(self, raw, files):
        self.file = files[raw[0]]
        self.line = raw[1]
        self.col = raw[2]
        self.macro = raw[3] if len(raw) > 3 else None

    def __str__(self):
        s = "%s:%d" % (self.file, self.line)
        if self.macro:
            s += " (in %s!)" % self.macro
        return s


class Call:
    """A Call terminator."""
    __slots__ = ("callee", "args", "dest", "target", "unwind", "span", "bb")

    def __init__(self, t, files, bb):
        self.callee = t[1]
        self.args = t[2]
        self.dest = t[3]
        self.target = t[4]
        self.unwind = t[5]
        self.span = Span(t[6], files)
        self.bb = bb

    @property
    def direct(self):
        return "def" in self.callee

    @property
    def name(self):
        """best name: resolved impl method if known, else declared callee; None for indirect."""
        c = self.callee
        return c.get("res") or c.get("def")

    def names(self):
        c = self.callee
        out = []
        if "def" in c:
            out.append(c["def"])
        if "res" in c:
            out.append(c["res"])
        return out

    @property
    def decl(self):
        return self.callee.get("def")

    def is_(self, *suffixes):
        """does declared or resolved callee path end with / equal one of the given names"""
        for n in self.names():
            for s in suffixes:
                if n == s or n.endswith("::" + s) or n.endswith(s):
                    return True
        return False


class Body:
    def __init__(self, r, types, files, crate):
        self.raw = r
        self.crate = crate
        self.path = r["path"]
        self.kind = r["kind"]
        self.is_coroutine = r.get("coroutine", False)
        self.parent = r["parent"]
        self.owner = r["owner"]
        self.impl_self = r.get("impl_self")
        self.impl_trait = r.get("impl_trait")
        self.impl_trait_def = r.get("impl_trait_def")
        self.name = r.get("name")
        self.argc = r["argc"]
        self.types = types
        self.files = files
        self.span = Span(r["span"], files)
        self.locals = r["locals"]
        self.blocks = r["blocks"]
        self.upvars = r.get("upvars", [])
        self._succ = None
        self._pred = None
        self._dom = None
        self._pdom = None
        self._calls = None
        self._defs = None
        self._reach = {}

    # ---- basics --------------------------------------------------------------------------
    def local_ty(self, l):
        return self.types[self.locals[l][0]]

    def local_name(self, l):
        d = self.locals[l]
        return d[1] if len(d) > 1 else None

    def ty(self, ix):
        return self.types[ix]

    def term(self, bb):
        return self.blocks[bb]["t"]

    def stmts(self, bb):
        return self.blocks[bb]["s"]

    def is_cleanup(self, bb):
        return bool(self.blocks[bb].get("c"))

    def term_span(self, bb):
        t = self.term(bb)
        k = t[0]
        if k in ("call", "drop", "assert", "yield"):
            return Span(t[-1], self.files)
        if k == "switch":
            return Span(t[5], self.files)
        if k == "ret":
            return Span(t[1], self.files)
        if k == "tailcall":
            return Span(t[3], self.files)
        ss = self.stmts(bb)
        if ss:
            return Span(ss[-1][-1], self.files)
        return self.span

    def stmt_span(self, st):
        return Span(st[-1], self.files)

    def succ_of(self, bb):
        """normal-flow successors (no unwind edges, no coroutine-drop edges, no imaginary edges)."""
        t = self.term(bb)
        k = t[0]
        if k == "goto":
            return [t[1]]
        if k == "switch":
            out = []
            for _, tg in t[2]:
                if tg not in out:
                    out.append(tg)
            if t[3] not in out:
                out.append(t[3])
            return out
        if k == "drop":
            return [t[2]]
        if k == "call":
            return [t[4]] if t[4] is not None else []
        if k == "assert":
            return [t[5]]
        if k == "yield":
            return [t[2]]
        if k == "falseedge":
            return [t[1]]
        if k == "falseunwind":
            return [t[1]]
        return []

    @property
    def succ(self):
        if self._succ is None:
            self._succ = [self.succ_of(i) for i in range(len(self.blocks))]
        return self._succ

    @property
    def pred(self):
        if self._pred is None:
            p = [[] for _ in self.blocks]
            for i, ss in enumerate(self.succ):
                for s in ss:
                    p[s].append(i)
            self._pred = p
        return self._pred

    def reachable_from(self, start, removed_nodes=(), removed_edges=()):
        """set of blocks reachable from `start` (inclusive) after deleting nodes/edges."""
        removed_nodes = set(removed_nodes)
        removed_edges = set(removed_edges)
        starts = [start] if isinstance(start, int) else list(start)
        seen = set()
        stack = [s for s in starts if s not in removed_nodes]
        while stack:
            b = stack.pop()
            if b in seen:
                continue
            seen.add(b)
            for s in self.succ[b]:
                if s in removed_nodes or (b, s) in removed_edges or s in seen:
                    continue
                stack.append(s)
        return seen

    def reachable_after(self, start, removed_nodes=(), removed_edges=()):
        """blocks reachable from the successors of `start` (start itself only if on a cycle)."""
        removed_nodes = set(removed_nodes)
        removed_edges = set(removed_edges)
        nxt = [s for s in self.succ[start] if (start, s) not in removed_edges and s not in removed_nodes]
        return self.reachable_from(nxt, removed_nodes, removed_edges)

    @property
    def live_blocks(self):
        lv = getattr(self, "_live", None)
        if lv is None:
            lv = self._live = frozenset(self.reachable_from(0))
        return lv

    # ---- dominators ----------------------------------------------------------------------
    def _compute_dom(self, succ, pred, entry):
        # Cooper-Harvey-Kennedy iterative dominators
        seen = {entry}
        stack = [(entry, iter(succ[entry]))]
        post = []
        while stack:
            node, it = stack[-1]
            adv = False
            for s in it:
                if s not in seen:
                    seen.add(s)
                    stack.append((s, iter(succ[s])))
                    adv = True
                    break
            if not adv:
                post.append(node)
                stack.pop()
        rpo = post[::-1]
        idx = {b: i for i, b in enumerate(rpo)}
        idom = {entry: entry}

        def intersect(a, b):
            while a != b:
                while idx[a] > idx[b]:
                    a = idom[a]
                while idx[b] > idx[a]:
                    b = idom[b]
            return a
        changed = True
        while changed:
            changed = False
            for b in rpo:
                if b == entry:
                    continue
                ps = [p for p in pred[b] if p in idom]
                if not ps:
                    continue
                new = ps[0]
                for p in ps[1:]:
                    new = intersect(new, p)
                if idom.get(b) != new:
                    idom[b] = new
                    changed = True
        return idom

    @property
    def idom(self):
        if self._dom is None:
            self._dom = self._compute_dom(self.succ, self.pred, 0)
        return self._dom

    def dominates(self, a, b):
        """block a dominates block b (reflexive). Unreachable b -> False."""
        idom = self.idom
        if b not in idom:
            return False
        x = b
        while True:
            if x == a:
                return True
            nx = idom.get(x)
            if nx is None or nx == x:
                return False
            x = nx

    @property
    def exits(self):
        return [i for i in self.live_blocks if self.term(i)[0] == "ret"]

    def postdominates(self, a, b, exits=None):
        """every path from b to a return passes through a (a == b counts). Computed by cut."""
        if a == b:
            return True
        ex = set(self.exits if exits is None else exits)
        r = self.reachable_from(b, removed_nodes=[a])
        return not (r & ex)

    # ---- calls / defs --------------------------------------------------------------------
    def calls(self):
        if self._calls is None:
            out = []
            for i, blk in enumerate(self.blocks):
                t = blk["t"]
                if t[0] == "call" and not blk.get("c"):
                    out.append((i, Call(t, self.files, i)))
            self._calls = out
        return self._calls

    def calls_to(self, *suffixes, live_only=True):
        live = self.live_blocks if live_only else None
        return [c for bb, c in self.calls() if c.is_(*suffixes) and (live is None or bb in live)]

    @property
    def defs(self):
        """local -> list of ('stmt', bb, idx, rvalue) | ('call', bb, Call) | ('yield', bb) whole-local defs,
        plus partial writes recorded as ('part', bb, idx, place, rvalue)."""
        if self._defs is None:
            d = defaultdict(list)
            for i, blk in enumerate(self.blocks):
                if blk.get("c"):
                    continue
                for j, st in enumerate(blk["s"]):
                    if st[0] == "A":
                        pl = st[1]
                        if not pl[1]:
                            d[pl[0]].append(("stmt", i, j, st[2]))
                        elif pl[1][0] != "*":
                            d[pl[0]].append(("part", i, j, pl, st[2]))
                        else:   # a write through a dereference does not redefine the pointer local (but data flows into it)
                            d[pl[0]].append(("dpart", i, j, pl, st[2]))
                    elif st[0] == "D" and (not st[1][1] or st[1][1][0] != "*"):
                        d[st[1][0]].append(("part", i, j, st[1], ["setdisc", st[2]]))
                t = blk["t"]
                if t[0] == "call":
                    pl = t[3]
                    if not pl[1]:
                        d[pl[0]].append(("call", i, Call(t, self.files, i)))
                    elif pl[1][0] != "*":
                        d[pl[0]].append(("part", i, -1, pl, ["call"]))
                elif t[0] == "yield":
                    pl = t[3]
                    d[pl[0]].append(("yield", i))
            self._defs = d
        return self._defs

    def single_def(self, l):
        ds = [x for x in self.defs.get(l, []) if x[0] not in ("part", "dpart")]
        parts = [x for x in self.defs.get(l, []) if x[0] == "part"]
        if len(ds) == 1 and not parts:
            return ds[0]
        return None

    # ---- pretty printing -----------------------------------------------------------------
    def fmt_place(self, pl):
        s = "_%d" % pl[0]
        nm = self.local_name(pl[0])
        if nm:
            s += "{%s}" % nm
        for e in pl[1]:
            if e == "*":
                s = "(*%s)" % s
            elif isinstance(e, list):
                if e[0] == "f":
                    s += "." + (e[2] if e[2] else str(e[1]))
                elif e[0] == "d":
                    s = "(%s as %s)" % (s, e[1])
                elif e[0] == "i":
                    s += "[_%d]" % e[1]
                elif e[0] == "c":
                    s += "[%s%d]" % ("-" if e[3] else "", e[1])
                elif e[0] == "s":
                    s += "[%d..%s%d]" % (e[1], "-" if e[3] else "", e[2])
            else:
                s += "<%s>" % e
        return s

    def fmt_op(self, op):
        k = op[0]
        if k == "c":
            return "copy " + self.fmt_place(op[1])
        if k == "m":
            return "move " + self.fmt_place(op[1])
        if k == "k":
            if op[1] == "fn":
                return "fn " + op[2]
            if op[1] == "int":
                return "const %s_%s" % (op[3], self.ty(op[2]))
            if op[1] == "str":
                return "const %r" % op[3]
            return "const<%s>" % (op[3],)
        return str(op)

    def fmt_rv(self, rv):
        k = rv[0]
        if k == "use":
            return self.fmt_op(rv[1])
        if k == "ref":
            return "&%s%s" % ("mut " if rv[1] == "m" else "", self.fmt_place(rv[2]))
        if k == "addr":
            return "&raw " + self.fmt_place(rv[1])
        if k == "cast":
            return "%s as %s (%s)" % (self.fmt_op(rv[2]), self.ty(rv[4]), rv[1])
        if k == "bin":
            return "%s(%s, %s)" % (rv[1], self.fmt_op(rv[2]), self.fmt_op(rv[3]))
        if k == "un":
            return "%s(%s)" % (rv[1], self.fmt_op(rv[2]))
        if k == "disc":
            return "discriminant(%s)" % self.fmt_place(rv[1])
        if k == "agg":
            kk = rv[1]
            ops = ", ".join(self.fmt_op(o) for o in rv[2])
            if kk[0] == "adt":
                return "%s::%s {%s}" % (kk[1], kk[2], ops)
            if kk[0] in ("closure", "coroutine", "coroutine_closure"):
                return "%s %s [%s]" % (kk[0], kk[1], ops)
            return "%s(%s)" % (kk[0], ops)
        if k == "cfd":
            return "deref_copy " + self.fmt_place(rv[1])
        if k == "rep":
            return "[%s; %s]" % (self.fmt_op(rv[1]), rv[2])
        return str(rv)

    def fmt_term(self, t):
        k = t[0]
        if k == "call":
            c = t[1]
            if "def" in c:
                nm = c.get("res") or c["def"]
                extra = "" if "res" not in c else " [decl %s]" % c["def"]
            else:
                nm = "(indirect %s : %s)" % (self.fmt_op(c["ind"]), self.ty(c["ty"]))
                extra = ""
            return "%s = %s(%s)%s -> %s" % (self.fmt_place(t[3]), nm, ", ".join(self.fmt_op(a) for a in t[2]), extra, t[4])
        if k == "switch":
            return "switchInt(%s) -> [%s, otherwise: %s]" % (self.fmt_op(t[1]), ", ".join("%s: %s" % (v, b) for v, b in t[2]), t[3])
        if k == "assert":
            return "assert(%s == %s, %s(%s)) -> %s" % (self.fmt_op(t[1]), t[2], t[3], ", ".join(self.fmt_op(a) for a in t[4]), t[5])
        if k == "drop":
            return "drop(%s) -> %s" % (self.fmt_place(t[1]), t[2])
        if k == "yield":
            return "yield(%s) -> resume %s into %s" % (self.fmt_op(t[1]), t[2], self.fmt_place(t[3]))
        if k == "ret":
            return "return"
        return " ".join(str(x) for x in t)

    def dump(self, live_only=True):
        out = ["fn %s  [%s]  %s" % (self.path, self.kind + (" coroutine" if self.is_coroutine else ""), self.span)]
        live = self.live_blocks
        for i, (tyi, *nm) in enumerate(self.locals):
            out.append("  let _%d%s: %s" % (i, "{%s}" % nm[0] if nm else "", self.types[tyi]))
        for i, blk in enumerate(self.blocks):
            if blk.get("c") or (live_only and i not in live):
                continue
            out.append("bb%d:" % i)
            for st in blk["s"]:
                if st[0] == "A":
                    out.append("    %s = %s    // %s" % (self.fmt_place(st[1]), self.fmt_rv(st[2]), self.stmt_span(st)))
                elif st[0] == "D":
                    out.append("    discriminant(%s) = %s" % (self.fmt_place(st[1]), st[2]))
                else:
                    out.append("    " + str(st[:2]))
            out.append("    %s    // %s" % (self.fmt_term(blk["t"]), self.term_span(i)))
        return "\n".join(out)
