"""Workspace call graph over MIR facts: direct calls, closures linked to their creator, reified fn items,
unresolved trait-method calls expanded to every workspace impl of that method."""
from collections import defaultdict


# a crate's own code can only name impls defined in itself or upstream of it: an unresolved trait-method call in crate X is
# expanded to the impls of X and its workspace dependencies (impls of downstream crates are entry points of their own).
UPSTREAM = {
    "scylla_cql_core": {"scylla_cql_core"},
    "scylla_cql": {"scylla_cql", "scylla_cql_core"},
}


class CallGraph:
    def __init__(self, facts, crates=None):
        self.facts = facts
        self.crates = crates
        self.trait_impls = defaultdict(list)   # trait item def path -> [impl method def path]
        for im in facts.impls:
            for it in im["items"]:
                if len(it) > 2:
                    self.trait_impls[it[2]].append(it[1])
        self._edges = {}

    def callees(self, path):
        """set of workspace body paths that `path` may transfer control to"""
        if path in self._edges:
            return self._edges[path]
        b = self.facts.body(path)
        out = set()
        self._edges[path] = out
        if b is None:
            return out
        for bb in b.live_blocks:
            for st in b.stmts(bb):
                if st[0] != "A":
                    continue
                rv = st[2]
                if rv[0] == "agg" and rv[1][0] in ("closure", "coroutine", "coroutine_closure"):
                    if rv[1][1] in self.facts.bodies:
                        out.add(rv[1][1])
                self._fn_items(rv, out)
            t = b.term(bb)
            if t[0] in ("call", "tailcall"):
                c = t[1]
                for a in t[2]:
                    self._fn_item_op(a, out)
                if "def" in c:
                    tgt = c.get("res") or c["def"]
                    if tgt in self.facts.bodies:
                        out.add(tgt)
                    elif c["def"] in self.facts.bodies and "res" not in c:
                        out.add(c["def"])
                    if "res" not in c or c.get("rk") == "virtual":
                        # unresolved trait method: every workspace impl
                        allowed = UPSTREAM.get(b.crate)
                        for impl in self.trait_impls.get(c["def"], ()):
                            if impl in self.facts.bodies and (allowed is None or self.facts.bodies.raw[impl][2] in allowed):
                                out.add(impl)
        return out

    def _fn_item_op(self, op, out):
        if op and op[0] == "k" and op[1] == "fn" and op[2] in self.facts.bodies:
            out.add(op[2])

    def _fn_items(self, rv, out):
        def walk(x):
            if isinstance(x, list):
                if len(x) >= 3 and x[0] == "k" and x[1] == "fn":
                    if x[2] in self.facts.bodies:
                        out.add(x[2])
                    return
                for y in x:
                    walk(y)
        walk(rv)

    def reachable(self, roots):
        """dict path -> predecessor path (None for roots) for everything reachable from roots"""
        pred = {}
        work = []
        for r in roots:
            if r in self.facts.bodies and r not in pred:
                pred[r] = None
                work.append(r)
        while work:
            p = work.pop()
            for q in self.callees(p):
                if q not in pred:
                    pred[q] = p
                    work.append(q)
        return pred

    def path_to(self, pred, target):
        out = []
        x = target
        while x is not None and len(out) < 40:
            out.append(x)
            x = pred.get(x)
        return out[::-1]

    def sccs(self, nodes):
        """strongly connected components (size > 1 or self-loop) within `nodes` (Tarjan, iterative)"""
        nodes = set(nodes)
        index, low, onstack, stack, res = {}, {}, set(), [], []
        counter = [0]
        for root in nodes:
            if root in index:
                continue
            work = [(root, iter([q for q in self.callees(root) if q in nodes]))]
            index[root] = low[root] = counter[0]
            counter[0] += 1
            stack.append(root)
            onstack.add(root)
            while work:
                v, it = work[-1]
                adv = False
                for w in it:
                    if w not in index:
                        index[w] = low[w] = counter[0]
                        counter[0] += 1
                        stack.append(w)
                        onstack.add(w)
                        work.append((w, iter([q for q in self.callees(w) if q in nodes])))
                        adv = True
                        break
                    elif w in onstack:
                        low[v] = min(low[v], index[w])
                if adv:
                    continue
                work.pop()
                if work:
                    u = work[-1][0]
                    low[u] = min(low[u], low[v])
                if low[v] == index[v]:
                    comp = []
                    while True:
                        w = stack.pop()
                        onstack.discard(w)
                        comp.append(w)
                        if w == v:
                            break
                    if len(comp) > 1 or v in self.callees(v):
                        res.append(sorted(comp))
        return res
