"""C08 — decoding any bytes never crashes (no panic, abort, stack overflow, disproportionate allocation).

Decided statically over D = every workspace function reachable (call graph: direct calls, closures, fn items, trait methods
expanded to all workspace impls) from the decode entry points:
 R1 panic-site census: every Assert terminator (bounds, overflow, division) and every call of a panicking routine in D is in
    the reviewed table (with the guard that makes it unreachable) or discharged by a local rule; anything else is reported
    with a call path from an entry point.
 R2 stated beliefs are consistent: where `deserialize` panics ("type check should have prevented this"), the set of column
    shapes reaching the panic is disjoint from what the sibling `type_check` accepts (shape sets extracted as in C17).
 R3 allocation sizes: the size operand of every capacity-taking call in D is classified by origin (constant / derived from a
    length of data already in memory / <=16-bit wire field / 32-bit wire field / unknown); a 32-bit wire field must be
    clamped by or compared with the remaining input before it sizes an allocation.
 R4 recursion: every call-graph cycle inside D is in the reviewed table with the quantity that bounds its depth; a cycle
    bounded only by wire-controlled nesting is a violation.
Not decided: that well-formed bytes decode to exactly what was encoded (C01 covers the tables); work proportional to counts;
allocations inside lz4_flex / snap; termination of parser loops in general.
"""
import re
from ..mir import AnchorLost
from ..inline import is_new_function
from ..util import df_of, fn_short, backward_slice, in_set, operand_path
from ..callgraph import CallGraph
from ..shapes import Accept, DV, impl_method, shapeflow, param_of_type, CT

ENTRY_PATTERNS = [
    r"^scylla_cql::frame::read_response_frame",
    r"^scylla_cql::frame::parse_response_body_extensions$",
    r"^scylla_cql::frame::decompress$",
    r"^scylla_cql::frame::response::Response(V2)?::deserialize$",
    r"^scylla_cql::frame::response::result::.*deserialize_metadata$",
    r"DeserializedMetadataAndRawRows.*::rows_iter$",
    r"RawRowIterator.* as core::iter::traits::iterator::Iterator>::next$",
    r"TypedRowIterator.* as core::iter::traits::iterator::Iterator>::next$",
    r"RawRowLendingIterator.*::next$",
    r" as scylla_cql_core::deserialize::value::DeserializeValue<.*>>::(type_check|deserialize)$",
    r" as scylla_cql_core::deserialize::row::DeserializeRow<.*>>::(type_check|deserialize)$",
    r"RawTablet::from_custom_payload$",
    r"Connection::parse_response$",
]

PANICKY = re.compile(
    r"(Option::<T>::(unwrap|expect|unwrap_unchecked)$|Result::<T, E>::(unwrap|expect|unwrap_err|expect_err|unwrap_unchecked)$"
    r"|core::panicking::|std::rt::begin_panic|core::ops::index::Index(Mut)?::index(_mut)?$|ops::index::Index(Mut)?<.*>::index(_mut)?$"
    r"|<impl \[T\]>::(split_at|split_at_mut|copy_from_slice|clone_from_slice|copy_within|swap|chunks|chunks_exact|windows|rotate_left|rotate_right|split_first_chunk)$"
    r"|<impl str>::(split_at|split_at_mut)$"
    r"|bytes::buf::buf_impl::Buf::(get_|advance|copy_to_slice|copy_to_bytes|split_to)|bytes::bytes::Bytes::(slice|slice_ref|split_to|split_off|advance)$"
    r"|bytes::bytes_mut::BytesMut::(split_to|split_off|advance|set_len)"
    r"|alloc::vec::Vec::<T, A>::(remove|swap_remove|insert|drain|split_off|set_len)$|alloc::string::String::(remove|insert|insert_str|drain|split_off)$"
    r"|core::cell::RefCell::<T>::(borrow|borrow_mut)$|core::num::<impl \w+>::(pow|abs|div_euclid|rem_euclid|next_power_of_two)$"
    r"|as core::ops::arith::(Add|Sub|Mul|Div|Rem)<.*>>::(add|sub|mul|div|rem)$|core::time::Duration::(from_secs_f64|from_secs_f32)$"
    r"|core::str::<impl str>::from_utf8_unchecked|core::char::methods::<impl char>::from_u32_unchecked|core::hint::unreachable_unchecked)")

# (definition-site key, kind) -> (max count, why it cannot fire on wire input)
REVIEWED = {}

# cycles of the call graph inside D: frozenset of function keys -> what bounds the depth
REVIEWED_SCC = {}


GUARDS = {}


def add(key, kind, count, why, guard=None):
    """guard: optional structural re-check that the guard named in `why` still exists:
       ("calls", function key, callee substring)  - that function still calls such a callee
       ("cmp-dominates", comparison op)           - the site is dominated by a decided comparison of that kind"""
    REVIEWED[(key, kind)] = (count, why)
    if guard:
        GUARDS[(key, kind)] = guard


def guard_holds(facts, pred, guard, sites):
    if guard[0] == "calls":
        for p in pred:
            if fn_short(p) == guard[1]:
                b = facts.body(p)
                if any(bb in b.live_blocks and guard[2] in (c.name or c.decl or "") for bb, c in b.calls()):
                    return True
        return False
    if guard[0] == "cmp-dominates":
        for b, bb, sp in sites:
            df = df_of(b, facts)
            st = df.state_in.get(bb) or {}
            if not any(k[0] == "bin" and k[1] in guard[1] and v[0] == "in" and len(v[1]) == 1 for k, v in st.items()):
                return False
        return True
    return True


def site_key(b, span):
    if span.macro and span.macro not in ("desugar:QuestionMark", "desugar:ForLoop", "desugar:Await", "desugar:Async", "desugar:WhileLoop"):
        m = span.macro
        if m in ("unreachable", "panic", "assert", "assert_eq", "assert_ne", "debug_assert", "todo", "unimplemented", "matches", "vec", "format", "write",
                 "trace", "debug", "warn", "error", "info", "std::pin::pin", "pin", "desugar:TryBlock", "futures::select", "select", "tokio::select", "try_join"):
            return fn_short(b.path)
        return "macro:%s@%s" % (m, span.file.split("/")[-1])
    return fn_short(b.path)


def decode_set(facts):
    cg = CallGraph(facts)
    roots = []
    per = {}
    for pat in ENTRY_PATTERNS:
        rx = re.compile(pat)
        m = [p for p in facts.bodies.keys() if rx.search(p)]
        per[pat] = len(m)
        roots += m
    pred = cg.reachable(roots)
    return cg, roots, pred, per


def _base_fn(path):
    while path.split("::")[-1].startswith("{closure"):
        path = "::".join(path.split("::")[:-1])
    return path


def owner_body(facts, p, pred):
    """the body a site in `p` is accounted to: `p` itself, or - when p belongs to a function that does not exist on the
    reference tree (a helper extracted later) - the nearest function of the reference tree on the call path to it"""
    seen = 0
    q = p
    while q is not None and is_new_function(_base_fn(q)) and seen < 8:
        q = pred.get(q)
        seen += 1
    return facts.body(q) if q is not None and q in facts.bodies else facts.body(p)


def census(facts, pred):
    """{(key, kind): [(body, bb, span)]}"""
    out = {}
    for p in pred:
        b = facts.body(p)
        kb = owner_body(facts, p, pred)
        for bb in b.live_blocks:
            t = b.term(bb)
            if t[0] == "assert":
                if t[3] in ("ResumedAfterReturn", "ResumedAfterPanic", "ResumedAfterDrop"):
                    continue
                sp = b.term_span(bb)
                out.setdefault((site_key(kb, sp), "assert:" + t[3]), []).append((b, bb, sp))
            elif t[0] == "call":
                nm = t[1].get("res") or t[1].get("def") or ""
                dn = t[1].get("def") or ""
                if PANICKY.search(nm) or (dn != nm and PANICKY.search(dn)):
                    sp = b.term_span(bb)
                    short = "::".join(nm.split("::")[-2:])
                    out.setdefault((site_key(kb, sp), "call:" + short), []).append((b, bb, sp))
    return out


def discharged(b, bb):
    """local discharge rules for asserts / panicky calls that cannot fire whatever the input"""
    t = b.term(bb)

    def konst(op):
        """integer value of an operand that is a constant, possibly through single-assignment temporaries"""
        for _ in range(4):
            if op[0] == "k":
                return int(op[3]) if op[1] == "int" else None
            if op[0] in ("c", "m") and not op[1][1]:
                sd = b.single_def(op[1][0])
                if sd and sd[0] == "stmt" and sd[3][0] == "use":
                    op = sd[3][1]
                    continue
            return None
        return None
    if t[0] == "assert":
        kind = t[3]
        ops = t[4]
        if kind in ("Overflow:Shl", "Overflow:Shr") and len(ops) == 2 and ops[1][0] == "k" and ops[1][1] == "int":
            width = {"u8": 8, "i8": 8, "u16": 16, "i16": 16, "u32": 32, "i32": 32, "u64": 64, "i64": 64, "usize": 64, "isize": 64, "u128": 128, "i128": 128}
            lt = None
            if ops[0][0] in ("c", "m"):
                lt = b.local_ty(ops[0][1][0]) if not ops[0][1][1] else None
            if lt in width and 0 <= int(ops[1][3]) < width[lt]:
                return "shift by constant %s < width of %s" % (ops[1][3], lt)
        if kind == "BoundsCheck" and len(ops) == 2:
            ln, ix = konst(ops[0]), konst(ops[1])
            if ln is not None and ix is not None and 0 <= ix < ln:
                return "constant index %d into array of length %d" % (ix, ln)
        if kind.startswith("Overflow:") and all(o[0] == "k" for o in ops):
            return "constant operands"
        if kind == "Overflow:Other" and len(ops) == 2:
            # MIR's Overflow assert exists for Add/Sub/Mul/Shl/Shr/Div/Rem; the driver names the first five, so this is the
            # `MIN / -1` check of a signed division or remainder: impossible when the divisor is a constant other than -1
            dv = konst(ops[1])
            if dv is not None and dv != -1:
                return "signed division/remainder by the constant %d (only MIN / -1 overflows)" % dv
        if kind in ("DivisionByZero", "RemainderByZero") and t[1][0] in ("c", "m") and not t[1][1][1]:
            sd = b.single_def(t[1][1][0])
            if sd and sd[0] == "stmt" and sd[3][0] == "bin" and sd[3][1] == "Eq":
                a, c = sd[3][2], sd[3][3]
                if a[0] == "k" and c[0] == "k" and a[1] == "int" and c[1] == "int" and int(a[3]) != int(c[3]) and 0 in (int(a[3]), int(c[3])):
                    return "constant non-zero divisor"
    return None


def r1(ctx, facts, cg, pred):
    r = ctx.rule("R1", "panic-site census over decode-reachable code: reviewed or discharged", floor=38)
    cen = census(facts, pred)
    n_dis = 0
    for (key, kind), sites in sorted(cen.items()):
        live = []
        for b, bb, sp in sites:
            why = discharged(b, bb)
            if why:
                n_dis += 1
            else:
                live.append((b, bb, sp))
        if not live:
            r.ok("%s|%s" % (key, kind), "all %d sites discharged locally" % len(sites), sites[0][2], nontrivial=False)
            continue
        rev = REVIEWED.get((key, kind))
        if rev is None:
            # a reviewed site that moved between a function and its own closure (`x.ok_or_else(|| .. unwrap())` <-> an explicit
            # `match`): same function, same guard - accepted when the reviewed place itself has no such site any more
            alt = key[:-len("{closure}")] if key.endswith("{closure}") else key + "{closure}"
            if (alt, kind) in REVIEWED and (alt, kind) not in cen:
                rev = REVIEWED[(alt, kind)]
        # distinct source sites (macro-instantiated bodies collapse)
        distinct = {(sp.file, sp.line, sp.col) for _, _, sp in live}
        b0, bb0, sp0 = live[0]
        if rev is None:
            path = " -> ".join(fn_short(x) for x in cg.path_to(pred, b0.path)[-5:])
            r.fail("%s|%s" % (key, kind), "unreviewed potential panic (%s) in decode-reachable code, %d site(s); reachable via %s; operands: %s" % (
                kind, len(distinct), path, b0.fmt_term(b0.term(bb0))[:200]), sp0)
        elif len(distinct) > rev[0]:
            r.fail("%s|%s" % (key, kind), "%d sites of %s, only %d reviewed (%s): a new potential panic was added" % (len(distinct), kind, rev[0], rev[1]), sp0)
        elif (key, kind) in GUARDS and not guard_holds(facts, pred, GUARDS[(key, kind)], live):
            r.fail("%s|%s" % (key, kind), "reviewed site lost its guard (%s): %s" % (GUARDS[(key, kind)], rev[1]), sp0)
        else:
            r.ok("%s|%s" % (key, kind), "reviewed: " + rev[1], sp0)
    r.note("%d decode-reachable bodies, %d (key,kind) groups, %d sites discharged by local rules" % (len(pred), len(cen), n_dis))


def r2(ctx, facts):
    r = ctx.rule("R2", "panics guarded by 'type check should have prevented this' are unreachable for accepted shapes", floor=9)
    A = Accept(facts)
    U = A.universe
    for im in [i for i in facts.impls if i.get("trait_def") == DV and i["crate"] == "scylla_cql_core"]:
        ptc = impl_method(facts, im, "type_check")
        pde = impl_method(facts, im, "deserialize")
        b = facts.body(pde) if pde else None
        if b is None or ptc is None:
            continue
        acc, marks = A.tc(ptc)
        tl = param_of_type(b, CT)
        if tl is None:
            continue
        df = df_of(b, facts)
        name = im["self"]
        if name.startswith("(") and name.count(",") > 2:
            continue  # macro instances: arities 0..2 are representative
        for bb in sorted(b.live_blocks):
            t = b.term(bb)
            if t[0] != "call" or not df.feasible(bb):
                continue
            nm = t[1].get("res") or t[1].get("def") or ""
            sp = b.term_span(bb)
            if nm.startswith("core::panicking::"):
                sh = shapeflow(facts, b, tl, U).at(bb)
                bad = sh & acc
                r.instance("%s:panic" % _carrier(name), not bad,
                           "deserialize panics for column shapes {%s} which type_check accepts" % ",".join(sorted(bad)) if bad else "panic arm covers exactly rejected shapes", sp)
            elif nm.endswith("Result::<T, E>::expect") or nm.endswith("Result::<T, E>::unwrap"):
                # expect on a gate over typ: every accepted shape must make the gate succeed
                _, calls, _ = backward_slice(b, t[2][0])
                gates = [c for c in calls if c.name and facts.body(c.name) is not None and param_of_type(facts.body(c.name), CT) is not None
                         and any(a[0] in ("c", "m") and df.canon.path(a[1]) == (tl, ()) for a in c.args)]
                for g in gates:
                    gok, _ = A.tc(g.name)
                    sh = shapeflow(facts, b, tl, U).at(bb)
                    bad = (sh & acc) - gok
                    r.instance("%s:expect-%s" % (_carrier(name), g.name.split("::")[-1]), not bad,
                               "deserialize unwraps %s for shapes {%s} that type_check accepts but the helper rejects" % (g.name.split("::")[-1], ",".join(sorted(bad))), sp)


def _carrier(s):
    s = re.sub(r"'\w+\s*,?\s*", "", s).replace("<>", "")
    return s.replace("scylla_cql_core::", "")


# ---- R3 ------------------------------------------------------------------------------------------------------------

ALLOC = re.compile(r"(Vec::<T>::with_capacity$|Vec::<T, A>::(with_capacity_in|reserve|reserve_exact|resize|resize_with)$|alloc::vec::from_elem$"
                   r"|String::(with_capacity|reserve)$|BytesMut::(with_capacity|reserve|resize)$|HashMap::<K, V, S>::(with_capacity_and_hasher|reserve)$|HashMap::<K, V>::with_capacity$"
                   r"|lz4_flex::block::decompress::decompress$|lz4_flex::.*::decompress$|bytes::buf::buf_impl::Buf::take$|tokio::io::util::async_read_ext::AsyncReadExt::take$"
                   r"|SmallVec::<A>::(with_capacity|reserve)|VecDeque::<T>::with_capacity$|smallvec::.*::with_capacity$)")
WIRE32 = re.compile(r"(types::read_int$|types::read_int_length$|Buf::get_u32$|Buf::get_i32$|Buf::try_get_u32$|Buf::try_get_i32$|types::read_long$|Buf::get_u64$|Buf::get_i64$"
                    r"|unsigned_vint_decode$|vint_decode$|u32::from_be_bytes$|i32::from_be_bytes$)")
WIRE16 = re.compile(r"(types::read_short$|types::read_short_length$|Buf::get_u16$|Buf::get_i16$|Buf::try_get_u16$|Buf::get_u8$|types::read_u8)")
LENLIKE = re.compile(r"(::len$|::remaining$|::capacity$|::len_utf8$|max_compress_len$|PtrMetadata)")
# lengths that are COUNTS announced by the peer rather than sizes of data already in memory
COUNTLIKE = re.compile(r"(ExactSizeIterator::len$|::size_hint$|rows_remaining$|columns_remaining$|Iterator::count$|Iterator<.*>::len$|Iterator.*>::size_hint$)")

REVIEWED_ALLOC = {}


def size_operand(call):
    nm = call.name or ""
    if nm.endswith("from_elem"):
        return call.args[1]
    if nm.endswith("decompress"):
        return call.args[1]
    if nm.endswith("with_capacity") or nm.endswith("with_capacity_in") or "with_capacity_and_hasher" in nm:
        return call.args[0]
    return call.args[1] if len(call.args) > 1 else call.args[0]


STD_PREFIX = ("core::", "alloc::", "std::", "bytes::", "&[", "[", "&str", "str", "hashbrown::", "smallvec::", "itertools::")


def _strip_ref(t):
    t = t.strip()
    while t.startswith("&"):
        t = t[1:].lstrip()
        if t.startswith("'"):
            t = t.split(" ", 1)[1] if " " in t else t
        if t.startswith("mut "):
            t = t[4:]
    return t


def count_call_origin(facts, cg, b, c, callers_index, depth, seen):
    """origin of the value returned by an item-count call (ExactSizeIterator::len, size_hint, rows_remaining ...)"""
    recv = c.args[0] if c.args else None
    rty = _strip_ref(b.local_ty(recv[1][0])) if recv and recv[0] in ("c", "m") and not recv[1][1] else ""
    if rty.startswith(STD_PREFIX) and "impl " not in rty:
        return {"len"}
    nm = c.name or ""
    cb = facts.body(nm) if nm else None
    if cb is None or depth >= 6:
        return {"wire32(count via %s of %s)@%s" % ((c.decl or nm).split("::")[-1], rty.split("<")[0].split("::")[-1] or "generic iterator", fn_short(b.path))}
    # classify what the workspace implementation returns
    out = set()
    rets = [s for bb in cb.live_blocks for s in cb.stmts(bb) if s[0] == "A" and s[1][0] == 0]
    rcalls = [x for bb, x in cb.calls() if bb in cb.live_blocks and x.dest[0] == 0]
    for s in rets:
        for l in _rv_locals_c08(s[2]):
            out |= classify_origin(facts, cg, cb, ["c", [l, []]], callers_index, depth + 1, seen)
        out |= _field_reads(facts, cg, cb, s[2], callers_index, depth, seen)
    for x in rcalls:
        out |= classify_origin(facts, cg, cb, ["c", [0, []]], callers_index, depth + 1, seen) if False else set()
        nm2 = x.name or x.decl or ""
        if COUNTLIKE.search(nm2) or COUNTLIKE.search(x.decl or ""):
            out |= count_call_origin(facts, cg, cb, x, callers_index, depth + 1, seen)
        elif LENLIKE.search(nm2):
            out.add("len")
    return out or {"unknown(count)"}


def _rv_locals_c08(rv):
    from ..util import _rv_locals
    return _rv_locals(rv)


def _field_reads(facts, cg, b, rv, callers_index, depth, seen):
    """origins of `self.<field>` values read by an rvalue: every constructor site of that ADT is classified"""
    from ..dataflow import adt_of_type
    out = set()

    def places(x, acc):
        if isinstance(x, list):
            if len(x) == 2 and isinstance(x[0], int) and isinstance(x[1], list) and x[1]:
                acc.append(x)
            for y in x:
                places(y, acc)
    acc = []
    places(rv, acc)
    for pl in acc:
        flds = [e for e in pl[1] if isinstance(e, list) and e[0] == "f"]
        if not flds or pl[0] != 1:
            continue
        adt = adt_of_type(b.local_ty(pl[0]))
        fname = flds[0][2]
        if not adt or not fname or (adt, fname) in seen or depth >= 6:
            continue
        seen.add((adt, fname))
        for cb in facts.bodies.mentioning(json_key(adt)):
            for bb in cb.live_blocks:
                for s in cb.stmts(bb):
                    if s[0] == "A" and s[2][0] == "agg" and s[2][1][0] == "adt" and s[2][1][1] == adt and fname in s[2][1][4]:
                        op = s[2][2][s[2][1][4].index(fname)]
                        out |= classify_origin(facts, cg, cb, op, callers_index, depth + 1, seen)
                    # later stores to the field
                    if s[0] == "A" and s[1][1] and adt_of_type(cb.local_ty(s[1][0])) == adt:
                        f2 = [e for e in s[1][1] if isinstance(e, list) and e[0] == "f"]
                        if f2 and f2[0][2] == fname and s[2][0] == "use":
                            out |= classify_origin(facts, cg, cb, s[2][1], callers_index, depth + 1, seen)
    return out


def json_key(path):
    import json
    return json.dumps(path)


def classify_origin(facts, cg, b, operand, callers_index, depth=0, seen=None):
    """set of origin classes of a size operand: const, len, wire16, wire32..., unknown"""
    seen = seen if seen is not None else set()
    if operand[0] == "k":
        return {"const"}
    locs, calls, casts = backward_slice(b, operand)
    out = set()
    for c in calls:
        nm = c.name or c.decl or ""
        if COUNTLIKE.search(nm) or COUNTLIKE.search(c.decl or ""):
            out |= count_call_origin(facts, cg, b, c, callers_index, depth, seen)
        elif WIRE32.search(nm):
            out.add("wire32@" + fn_short(b.path))
        elif WIRE16.search(nm):
            out.add("wire16")
        elif LENLIKE.search(nm):
            out.add("len")
    for l in locs:
        for d in b.defs.get(l, []):
            rv = d[3] if d[0] == "stmt" else None
            if rv and rv[0] == "un" and rv[1] == "PtrMetadata":
                out.add("len")
    # parameters / upvars in the slice: go to callers
    params = [l for l in locs if 1 <= l <= b.argc]
    if operand[0] in ("c", "m") and 1 <= operand[1][0] <= b.argc:
        params.append(operand[1][0])
    params = sorted(set(params))
    if params and depth < 6:
        key = (b.path, tuple(params))
        if key not in seen:
            seen.add(key)
            if b.kind == "Closure":
                creator = facts.body(b.parent)
                if creator is not None and 1 in params:
                    for bb in creator.live_blocks:
                        for st in creator.stmts(bb):
                            if st[0] == "A" and st[2][0] == "agg" and st[2][1][0] in ("closure", "coroutine") and st[2][1][1] == b.path:
                                for op in st[2][2]:
                                    out |= classify_origin(facts, cg, creator, op, callers_index, depth + 1, seen)
                    params = [p for p in params if p != 1]
            for cb, cbb in callers_index.get(b.path, []):
                t = cb.term(cbb)
                for p in params:
                    if p - 1 < len(t[2]):
                        out |= classify_origin(facts, cg, cb, t[2][p - 1], callers_index, depth + 1, seen)
            if params and not callers_index.get(b.path) and b.kind != "Closure":
                out.add("param-of-entry")
    elif params:
        out.add("unknown(depth)")
    if not out:
        out.add("local")
    return out


def _flat(x):
    if isinstance(x, list):
        for y in x:
            if isinstance(y, list):
                yield y
                yield from _flat(y)


def guarded_by_remaining(b, df, call, operand):
    """is the size compared against / clamped by a length of the remaining input before the allocation?"""
    locs, calls, _ = backward_slice(b, operand)
    # clamp: min(count, remaining-derived)
    for c in calls:
        nm = c.name or c.decl or ""
        if nm.endswith("::min") or nm.endswith("cmp::min") or nm.endswith("Ord::min"):
            for a in c.args:
                _, cs, _ = backward_slice(b, a)
                if any(LENLIKE.search(x.name or x.decl or "") for x in cs):
                    return "clamped with min(.., remaining)"
    # comparison in the dominating state
    st = df.state_in.get(call.bb) or {}
    for k, v in st.items():
        if k[0] == "bin" and k[1] in ("Lt", "Le", "Gt", "Ge"):
            for side in (k[2], k[3]):
                if side[0] in ("val", "call"):
                    l = side[1][0] if side[0] == "val" else None
                    if l in locs:
                        return "dominated by a comparison on the size"
    return None


def r3(ctx, facts, cg, pred):
    r = ctx.rule("R3", "allocation sizes in decode-reachable code are bounded by the input", floor=16)
    callers_index = {}
    for p in pred:
        b = facts.body(p)
        for bb, c in b.calls():
            if bb in b.live_blocks:
                for n in c.names():
                    callers_index.setdefault(n, []).append((b, bb))
        for bb in b.live_blocks:
            for st in b.stmts(bb):
                pass
    n = 0
    for p in sorted(pred):
        b = facts.body(p)
        for bb, c in b.calls():
            if bb not in b.live_blocks:
                continue
            nm = c.name or c.decl or ""
            if not ALLOC.search(nm):
                continue
            n += 1
            op = size_operand(c)
            origins = classify_origin(facts, cg, b, op, callers_index)
            key = "%s|%s" % (site_key(owner_body(facts, p, pred), c.span), "::".join(nm.split("::")[-2:]))
            w32 = sorted(o for o in origins if o.startswith("wire32"))
            unk = sorted(o for o in origins if o.startswith("unknown") or o == "param-of-entry")
            df = df_of(b, facts)
            if w32:
                g = guarded_by_remaining(b, df, c, op)
                rev = REVIEWED_ALLOC.get(key)
                if g:
                    r.ok(key, "32-bit wire field, %s" % g, c.span)
                elif rev:
                    r.ok(key, "reviewed: " + rev, c.span)
                else:
                    r.fail(key, "allocation sized by a 32-bit wire field (%s) without a bound from the remaining input: a short frame can request gigabytes" % ",".join(w32), c.span,
                           data={"origins": sorted(origins)})
            elif unk and not (origins - set(unk)):
                rev = REVIEWED_ALLOC.get(key)
                if rev:
                    r.ok(key, "reviewed: " + rev, c.span)
                else:
                    r.fail(key, "allocation size of unknown origin (%s): classify it" % ",".join(unk), c.span)
            else:
                r.ok(key, "size origins: %s" % ",".join(sorted(origins)), c.span, nontrivial=False)
    r.note("%d capacity-taking calls in decode-reachable code" % n)


def r4(ctx, facts, cg, pred):
    r = ctx.rule("R4", "recursion in decode-reachable code has a reviewed depth bound", floor=7)
    comps = cg.sccs(pred.keys())
    for comp in comps:
        members = sorted(fn_short(p) for p in comp)
        reps = [m for m in members if m in REVIEWED_SCC]
        b = facts.body(comp[0])
        if not reps:
            r.fail("scc:" + members[0], "unreviewed recursion among %d functions reachable from decode entry points (%s ...): what bounds its depth?" % (len(comp), ", ".join(members[:4])), b.span)
            continue
        rep = reps[0]
        why = REVIEWED_SCC[rep]
        rb = [facts.body(p) for p in comp if fn_short(p) == rep][0]
        if why.startswith("UNBOUNDED"):
            r.fail("scc:" + rep, why, rb.span)
        else:
            r.ok("scc:" + rep, "reviewed (%d functions): %s" % (len(comp), why), rb.span)


def r5(ctx, facts):
    r = ctx.rule("R5", "the frame body read loop ends at end-of-stream: a read of 0 bytes leaves the loop with an error", floor=1)
    from ..util import new_async_helpers, zero_count_targets
    from ..inline import inline_view
    b0 = inline_view(facts).one(r"^scylla_cql::frame::read_response_frame::\{closure#0\}$")
    n = 0
    work = []
    for b in [b0] + [hb for hb, _ in new_async_helpers(inline_view(facts), b0)]:
        work += [(b, c) for bb, c in b.calls() if bb in b.live_blocks and (c.decl or "") in
                 ("tokio::io::util::async_read_ext::AsyncReadExt::read_buf", "tokio::io::util::async_read_ext::AsyncReadExt::read")]
    for b, c in work:
        in_loop = any(c.bb in b.reachable_from(x) for x in b.succ[c.bb])
        if not in_loop:
            continue
        n += 1
        zero_targets = [z for _sw, z in zero_count_targets(b, c)]
        ok = bool(zero_targets) and all(c.bb not in b.reachable_from(z) for z in zero_targets)
        r.instance("zero-read-leaves-loop", ok,
                   "%s returns Ok(0) at end of stream, every time: the loop around it must test the count and leave on 0 (otherwise a frame cut inside its body makes the "
                   "reader spin forever instead of returning ConnectionClosed); tests found: %d" % (c.decl.split("::")[-1], len(zero_targets)), c.span)
    r.instance("counting-reads-in-loops", True, "%d counting reads inside loops" % n, b0.span, nontrivial=False)


# CQL v4 section 2.2: after decompression the body starts with [tracing id][warnings][custom payload], each announced by its header flag
BODY_EXTENSIONS = [("decompress", 0x01, "frame::decompress"), ("tracing id", 0x02, "types::read_uuid"), ("warnings", 0x08, "types::read_string_list"),
                   ("custom payload", 0x04, "types::read_bytes_map")]


def r6(ctx, facts):
    r = ctx.rule("R6", "response body extensions are read in wire order (tracing id, warnings, custom payload), each under its own header flag", floor=7)
    from ..inline import inline_view
    from ..util import dj_of
    b = inline_view(facts).one(r"^scylla_cql::frame::parse_response_body_extensions$")
    dj = dj_of(b, inline_view(facts))
    sites = []
    for label, flag, suffix in BODY_EXTENSIONS:
        cs = [c for bb, c in b.calls() if bb in b.live_blocks and (c.name or "").endswith(suffix)]
        if not cs:
            # the reader handed as a function item to a helper (`read_and_consume(&mut body, types::read_string_list)`): the site is where it is invoked
            for bb, c in b.calls():
                if bb in b.live_blocks and (c.decl or "") in ("core::ops::function::FnOnce::call_once", "core::ops::function::FnMut::call_mut", "core::ops::function::Fn::call") and c.args:
                    locs, _, _ = backward_slice(b, c.args[0])
                    if any(d[0] == "stmt" and d[3][0] == "use" and d[3][1][0] == "k" and d[3][1][1] == "fn" and str(d[3][1][2]).endswith(suffix)
                           for l in locs for d in b.defs.get(l, [])):
                        cs.append(c)
                        continue
                    # ... or wrapped in a closure (`parse_ext(&mut body, |buf| types::read_string_list(buf).map_err(..))`)
                    for l in locs:
                        for d in b.defs.get(l, []):
                            if d[0] == "stmt" and d[3][0] == "agg" and d[3][1][0] == "closure":
                                cbx = inline_view(facts).body(d[3][1][1])
                                if cbx is not None and any((x.name or "").endswith(suffix) for bbx, x in cbx.calls() if bbx in cbx.live_blocks) and c not in cs:
                                    cs.append(c)
        if len(cs) != 1:
            raise AnchorLost("parse_response_body_extensions: expected one call of %s, found %d" % (suffix, len(cs)))
        c = cs[0]
        sites.append((label, flag, c))
        good = bool(dj.states.get(c.bb))
        for fs in dj.states.get(c.bb, ()):
            st = dict(fs)
            bits = {k[3][1] if k[3][0] == "const" else k[2][1] for k, v in st.items() if k[0] == "bin" and k[1] == "BitAnd" and (("const", flag) in k[2:4])
                    and ((v[0] == "notin" and 0 in v[1]) or (v[0] == "in" and 0 not in v[1]))}
            if flag not in bits:
                good = False
        r.instance("read-under-its-flag:" + label, good, "the %s must be read exactly where header flag 0x%02x is set" % (label, flag), c.span)
    for (la, _, a), (lb, _, c2) in zip(sites, sites[1:]):
        r.instance("order:%s-before-%s" % (la, lb), c2.bb in b.reachable_from(a.bb) and a.bb not in b.reachable_from(c2.bb),
                   "on the wire the %s precedes the %s: reading them in another order mis-frames every response that carries both" % (la, lb), c2.span)


def selftest(ctx):
    """non-vacuity: the census / allocation / recursion detectors must fire on the deliberately violating fixture crate"""
    r = ctx.rule("R9", "non-vacuity: detectors fire on /verif/fixtures", floor=6)
    fx = ctx.facts("fixtures")
    cg = CallGraph(fx)
    pred = cg.reachable(["fixtures::decode::entry", "fixtures::decode::shift_and_const_index"])
    cen = census(fx, pred)
    live = {}
    for (key, kind), sites in cen.items():
        for b, bb, sp in sites:
            if not discharged(b, bb):
                live.setdefault(key, set()).add(kind)
    r.instance("fixture:bounds-check-on-wire-index", "assert:BoundsCheck" in live.get("decode::index_with_wire_value", set()), "census on fixtures: %s" % {k: sorted(v) for k, v in live.items()}, nontrivial=False)
    r.instance("fixture:unwrap-of-a-read", any(k.startswith("call:") and k.endswith("::unwrap") for k in live.get("decode::unwrap_a_read", set())), "unwrap() on a read result must be in the census", nontrivial=False)
    r.instance("fixture:constant-shift-and-index-discharged", "decode::shift_and_const_index" not in live, "constant shift / constant index must be discharged; live: %s" % sorted(live.get("decode::shift_and_const_index", [])), nontrivial=False)
    callers_index = {}
    for p in pred:
        b = fx.body(p)
        for bb, c in b.calls():
            for n in c.names():
                callers_index.setdefault(n, []).append((b, bb))
    verdict = {}
    for p in pred:
        b = fx.body(p)
        for bb, c in b.calls():
            if bb in b.live_blocks and ALLOC.search(c.name or c.decl or ""):
                op = size_operand(c)
                origins = classify_origin(fx, cg, b, op, callers_index)
                w32 = any(o.startswith("wire32") for o in origins)
                g = guarded_by_remaining(b, df_of(b, fx), c, op) if w32 else None
                verdict[fn_short(p)] = "violation" if (w32 and not g) else "ok"
    r.instance("fixture:alloc-from-32-bit-wire-field", verdict.get("decode::alloc_from_wire32") == "violation", "allocation verdicts on fixtures: %s" % verdict, nontrivial=False)
    r.instance("fixture:alloc-16-bit-and-clamped-accepted", verdict.get("decode::alloc_from_wire16") == "ok" and verdict.get("decode::alloc_clamped") == "ok", "allocation verdicts on fixtures: %s" % verdict, nontrivial=False)
    comps = cg.sccs(pred.keys())
    r.instance("fixture:wire-driven-recursion-found", any("fixtures::decode::nested" in c for c in comps), "SCCs on fixtures: %s" % comps, nontrivial=False)


EXHAUSTIVE = ("count", "last", "for_each", "fold", "sum", "product", "max", "min", "max_by", "min_by", "max_by_key", "min_by_key", "extend", "partition", "unzip", "cycle", "rev", "collect_vec", "sorted")


def r8(ctx, facts, pred):
    """termination: a parser stream that can answer `Some(Err(..))` again and again (no progress on malformed input) must not be
    drained by a consumer that only stops at `None`"""
    r = ctx.rule("R8", "an error-yielding `iter::from_fn` stream over wire data either latches after its first error or is never drained by an exhaustive consumer (count / last / fold ...)", floor=1)
    from ..util import dj_of, field_slice, in_set
    n = 0
    for p in sorted(pred):
        b = facts.body(p)
        if b is None or b.crate not in ("scylla_cql", "scylla_cql_core", "scylla"):
            continue
        for bb, c in b.calls():
            if bb not in b.live_blocks or not (c.name or "").endswith("iter::sources::from_fn::from_fn"):
                continue
            sd = b.single_def(c.args[0][1][0]) if c.args and c.args[0][0] in ("c", "m") else None
            if not (sd and sd[0] == "stmt" and sd[3][0] == "agg" and sd[3][1][0] == "closure"):
                continue
            cb = facts.body(sd[3][1][1])
            if cb is None or "Result<" not in cb.local_ty(0):
                continue
            n += 1
            dj = dj_of(cb, facts)
            # exits that may hand out an error: `Some(x)` where x is not known to be Ok
            err_exits = []
            for bb2 in sorted(cb.live_blocks):
                for j, st in enumerate(cb.stmts(bb2)):
                    if st[0] == "A" and st[1][0] == 0 and not st[1][1] and st[2][0] == "agg" and st[2][1][0] == "adt" and st[2][1][2] == "Some":
                        op = st[2][2][0]
                        maybe_err = True
                        if op[0] in ("c", "m"):
                            d = cb.single_def(op[1][0])
                            if d and d[0] == "stmt" and d[3][0] == "agg" and d[3][1][0] == "adt" and d[3][1][2] == "Ok":
                                maybe_err = False
                        if maybe_err:
                            err_exits.append(bb2)
            if not err_exits:
                continue
            # latched: every error exit passes a store of a constant into the closure's own environment (a `done` flag), and a
            # `None` exit exists in states where that place holds the stored value
            env_stores = {}
            for bb2 in sorted(cb.live_blocks):
                for st in cb.stmts(bb2):
                    if st[0] == "A" and st[1][0] == 1 and st[1][1]:
                        env_stores.setdefault(dj.canon.path(st[1]), set()).add(bb2)
                t = cb.term(bb2)
                if t[0] == "call" and t[3][0] == 1 and t[3][1]:
                    env_stores.setdefault(dj.canon.path(t[3]), set()).add(bb2)
            latched = False
            none_exits = [(bb2, j) for bb2 in sorted(cb.live_blocks) for j, st in enumerate(cb.stmts(bb2))
                          if st[0] == "A" and st[1][0] == 0 and not st[1][1] and st[2][0] == "agg" and st[2][1][0] == "adt" and st[2][1][2] == "None"]
            for path, bbs in env_stores.items():
                # (a) every error exit has written the flag on its way ...
                if not all(e not in dj.feasible_reach(0, removed_nodes=list(bbs)) for e in err_exits):
                    continue
                # (b) ... and the closure answers None where the flag is set
                key_ = ("val", path)
                if any(sts and all(in_set(stt.get(key_), {1}) for stt in sts) for sts in (dj.states_before_stmt(bb2, j) for bb2, j in none_exits)):
                    latched = True
            key = fn_short(b.path)
            if latched:
                r.instance("stream-latches-after-error:" + key, True, "the closure records its first error in its environment and answers None afterwards", c.span)
                continue
            # not latched: look for exhaustive consumers of the function's result in its callers (and in the function itself)
            outer = b
            while outer.kind == "Closure" and outer.parent and facts.body(outer.parent) is not None:
                outer = facts.body(outer.parent)
            consumers = []
            users = [outer] + [ub for ub, _ in facts.callers_of(outer.path)]
            for ub in users:
                for bb3, c3 in ub.calls():
                    if bb3 not in ub.live_blocks or not c3.args:
                        continue
                    nm = (c3.decl or c3.name or "").split("::")[-1]
                    is_collect = nm == "collect" and not ub.local_ty(c3.dest[0]).startswith(("core::result::Result<", "core::option::Option<"))
                    if nm not in EXHAUSTIVE and not is_collect:
                        continue
                    _, cs, _ = field_slice(ub, c3.args[0])
                    if any((x.name or "") == outer.path or (x.callee.get("res") or "") == outer.path for x in cs) or (ub.path == outer.path and any(x.bb == bb for x in cs)):
                        consumers.append((ub, c3, nm))
            r.instance("unlatched-error-stream-is-not-drained:" + key, not consumers,
                       "the iterator built by iter::from_fn in %s can answer Some(Err(..)) on every call once the input is malformed (it makes no progress and never answers None), and %s drains it with `%s()`: "
                       "decoding a frame whose custom type name is truncated never terminates" % (key, ", ".join(sorted({fn_short(u.path) for u, _, _ in consumers})) or "nobody", "/".join(sorted({m for _, _, m in consumers})) or "-"),
                       consumers[0][1].span if consumers else c.span)
    if n == 0:
        r.instance("no-from_fn-streams", True, "no iter::from_fn stream over wire data in the decode set", None, nontrivial=False)


def r11_guard(ctx):
    """the reviewed table accepts the `type check should have prevented this` panics of derive-generated deserializers because the generated
    type_check refuses what they assert against; for duplicated field names that guard is re-checked here on the derive family (rule shared with C16)"""
    from .c16 import r11 as c16_r11
    c16_r11(ctx, ctx.facts("family"))


def inline_view_(facts):
    from ..inline import inline_view
    return inline_view(facts)


def r7(ctx, facts):
    """the stream id of the header is a wire value: the handler map indexes its bitmap with it unchecked"""
    r = ctx.rule("R7", "a reserved (negative) stream id from the frame header never reaches the response-handler map, whose bitmap is indexed with it", floor=1)
    from ..util import dj_of, cmp_truth, const_int_of, in_set
    b = facts.one(r"^scylla::network::connection::Connection::reader::\{closure#0\}$")
    dj = dj_of(b, facts)
    lks = b.calls_to("ResponseHandlerMap::lookup")
    if not lks:
        raise AnchorLost("Connection::reader: ResponseHandlerMap::lookup is not called")
    cmps = [c for c in b.calls_to("Ord::cmp") if len(c.args) == 2]
    for lk in lks:
        s = dj.expr_of_operand(lk.args[1])
        sts = dj.states_at(lk.bb)
        ok = bool(sts) and s is not None
        for st in sts:
            good = False
            for k in (0, -1):
                if k == 0 and (cmp_truth(st, "Ge", s, ("const", 0)) == 1 or cmp_truth(st, "Lt", s, ("const", 0)) == 0):
                    good = True
                if k == -1 and (cmp_truth(st, "Gt", s, ("const", -1)) == 1 or cmp_truth(st, "Le", s, ("const", -1)) == 0):
                    good = True
                # two separate tests: not below -1 and not equal to -1
                if k == -1 and cmp_truth(st, "Lt", s, ("const", -1)) == 0 and cmp_truth(st, "Eq", s, ("const", -1)) == 0:
                    good = True
            for c in cmps:
                a0, a1 = dj.expr_of_operand(c.args[0]), dj.expr_of_operand(c.args[1])
                d = st.get(("disc", (c.dest[0], ())))
                # Ordering: Less = -1 (255), Equal = 0, Greater = 1
                def only(vs, allowed):
                    return vs is not None and vs[0] == "in" and {(x - 256 if x > 127 else x) for x in vs[1]} <= allowed
                def stream_side(e, op):
                    # the comparison is on references (`a.cmp(&b)`): compare what the reference points at
                    if e == s:
                        return True
                    sd = b.single_def(op[1][0]) if op[0] in ("c", "m") else None
                    return bool(sd and sd[0] == "stmt" and sd[3][0] == "ref" and dj.expr_of_operand(["c", sd[3][-1]]) == s)
                k1, k0 = const_int_of(facts, b, c.args[1]), const_int_of(facts, b, c.args[0])
                if stream_side(a0, c.args[0]) and k1 is not None:
                    if (k1 == -1 and only(d, {1})) or (k1 == 0 and only(d, {0, 1})):
                        good = True
                if stream_side(a1, c.args[1]) and k0 is not None:
                    if (k0 == -1 and only(d, {-1})) or (k0 == 0 and only(d, {-1, 0})):
                        good = True
            if not good:
                ok = False
        r.instance("lookup-only-for-non-negative-stream", ok,
                   "ResponseHandlerMap::lookup is reached with a stream id that is not known to be >= 0: StreamIdSet::free indexes `used_bitmap[stream_id as usize / 64]`, "
                   "so a frame with stream id -2 (9 bytes: 84 00 ff fe 02 00 00 00 00) panics the connection's reader task instead of being ignored or refused", lk.span)


def r12(ctx, facts):
    """termination of the custom-type-name parser: get_type_parameters calls do_parse until it sees `)` / end of input / an
    error. A do_parse that answers Ok WITHOUT having consumed anything (the type it returns is a constant, not one looked up
    from a parsed name) is only harmless at the end of the input; anywhere else the parameter loop gets the same answer for
    ever (seed C08-j)."""
    from ..util import dj_of, in_set, backward_slice
    r = ctx.rule("R12", "custom type parser makes progress: do_parse returns a type it did not parse (the blob default) only at the end of the input", floor=1)
    b = facts.one(r"^scylla_cql::frame::response::custom_type_parser::CustomTypeParser::<'result>::do_parse$")
    dj = dj_of(b, facts)
    eofs = [bb for bb, c in b.calls() if bb in b.live_blocks and (c.name or c.decl or "").endswith("::is_at_eof")]
    n = 0
    for bb in sorted(b.live_blocks):
        for st in b.stmts(bb):
            if not (st[0] == "A" and st[1][0] == 0 and not st[1][1] and st[2][0] == "agg" and st[2][1][0] == "adt"
                    and st[2][1][1] == "core::result::Result" and st[2][1][2] == "Ok"):
                continue
            calls = backward_slice(b, st[2][2][0])[1] if st[2][2] and st[2][2][0][0] in ("c", "m") else []
            if any((c.name or c.decl or "").split("::")[-1] in ("get_simple_abstract_type", "get_complex_abstract_type") for c in calls):
                continue
            n += 1
            states = dj.states_at(bb)
            bad = [s_ for s_ in states if not any(in_set(s_.get(("call", e)), {1}) for e in eofs)]
            r.instance("default-type-only-at-eof#%d" % n, bool(states) and not bad,
                       "do_parse returns Ok with a type that does not come from a parsed name in a state where `is_at_eof()` is not known to hold: "
                       "nothing was consumed, so the loop collecting type parameters never ends on such input", b.stmt_span(st))
    if n == 0:
        r.instance("no-default-type", True, "do_parse builds no Ok value of its own", b.span, nontrivial=False)


def r13(ctx, facts):
    """the paged row stream asks the lending iterator `rows_remaining() != 0` and then unwraps `next()` (a reviewed site of R1):
    that is sound only while next() answers None exactly when the announced row count is used up - a short or truncated page must
    come out as `Some(Err(..))`, row by row, never as an early None (seed C08-k)."""
    from ..util import dj_of, in_set, backward_slice
    r = ctx.rule("R13", "RawRowLendingIterator::next returns None only when the announced row count is exhausted (the pager unwraps it under rows_remaining() != 0)", floor=1)
    b = facts.one(r"^scylla_cql::deserialize::result::RawRowLendingIterator::next$")
    dj = dj_of(b, facts)
    subs = [c for bb, c in b.calls() if bb in b.live_blocks and (c.name or c.decl or "").split("::")[-1] in ("checked_sub", "checked_add")
            and any(isinstance(e, list) and e[0] == "f" and e[2] == "remaining" for d in [b.single_def(c.args[0][1][0])] if c.args and c.args[0][0] in ("c", "m") and d and d[0] == "stmt" and d[3][0] == "use" and d[3][1][0] in ("c", "m") for e in d[3][1][1][1])]
    n = 0
    for bb in sorted(b.live_blocks):
        for st in b.stmts(bb):
            if not (st[0] == "A" and st[1][0] == 0 and not st[1][1] and st[2][0] == "agg" and st[2][1][0] == "adt" and st[2][1][1] == "core::option::Option" and st[2][1][2] == "None"):
                continue
            n += 1
            ok = True
            for stt in dj.states_at(bb):
                exhausted = any(in_set(stt.get(("disc", (c.dest[0], ()))), {0}) for c in subs) or \
                    any(k[0] == "val" and k[1][1] and k[1][1][-1] == "remaining" and in_set(v, {0}) for k, v in stt.items())
                if not exhausted:
                    ok = False
            r.instance("none-only-when-exhausted#%d" % n, ok,
                       "next() answers None in a state where `remaining` is not known to be used up: rows_remaining() still announces rows, "
                       "and QueryPager::next unwraps the None it gets (panic instead of a row deserialization error)", b.stmt_span(st))
    # the `?` on the decrement is the one legitimate early None
    res = [c for bb, c in b.calls() if bb in b.live_blocks and (c.decl or "").endswith("FromResidual::from_residual") and c.dest[0] == 0]
    for k, c in enumerate(res):
        locs = backward_slice(b, c.args[0])[0] if c.args and c.args[0][0] in ("c", "m") else set()
        r.instance("early-none-is-the-decrement#%d" % k, any(x.dest[0] in locs for x in subs),
                   "a `?` in next() turns something other than the exhausted row count into None", c.span)
    if not subs:
        raise AnchorLost("RawRowLendingIterator::next: the checked decrement of `remaining` not found")


def r14(ctx, facts):
    """VectorIterator::nth (the fast path `skip` / `step_by` go through) subtracts `n + 1` from `remaining` on its error and success
    paths; that is panic-free only under `n < remaining`. The reviewed table of R1 lists those subtractions as guarded - this rule
    re-checks WHICH comparison guards them: `n >= remaining` must have left (seed C08-l: `n > remaining` lets n == remaining through,
    a truncated cell then underflows)."""
    from ..util import backward_slice
    r = ctx.rule("R14", "VectorIterator::nth: `remaining -= n + 1` only where `n < remaining` was established", floor=1)
    b = facts.one(r"^<scylla_cql_core::deserialize::value::VectorIterator<'frame, 'metadata, T> as core::iter::traits::iterator::Iterator>::nth$")
    npar = [l for l in range(1, b.argc + 1) if b.local_name(l) == "n"]
    if len(npar) != 1:
        raise AnchorLost("VectorIterator::nth: parameter `n` not found")
    N = npar[0]

    def is_n(op):
        return op[0] in ("c", "m") and (op[1][0] == N or N in backward_slice(b, op)[0]) and not is_rem(op)

    def is_rem(op):
        if op[0] not in ("c", "m"):
            return False
        if any(isinstance(e, list) and e[0] == "f" and e[2] == "remaining" for e in op[1][1]):
            return True
        d = b.single_def(op[1][0])
        return bool(d and d[0] == "stmt" and d[3][0] == "use" and d[3][1][0] in ("c", "m") and any(isinstance(e, list) and e[0] == "f" and e[2] == "remaining" for e in d[3][1][1][1]))
    subs = [bb for bb in sorted(b.live_blocks) if b.term(bb)[0] == "assert" and str(b.term(bb)[3]) == "Overflow:Sub" and is_rem(b.term(bb)[4][0])]
    if not subs:
        raise AnchorLost("VectorIterator::nth: no subtraction from `remaining` found")
    guards = []        # (switch block, successor on which n < remaining holds)
    for sw in sorted(b.live_blocks):
        t = b.term(sw)
        if t[0] != "switch" or t[1][0] not in ("c", "m"):
            continue
        sd = b.single_def(t[1][1][0])
        if not (sd and sd[0] == "stmt" and sd[3][0] == "bin" and sd[3][1] in ("Lt", "Le", "Gt", "Ge")):
            continue
        op, a0, a1 = sd[3][1], sd[3][2], sd[3][3]
        if is_rem(a0) and is_n(a1):
            op = {"Lt": "Gt", "Gt": "Lt", "Le": "Ge", "Ge": "Le"}[op]
        elif not (is_n(a0) and is_rem(a1)):
            continue
        edges = {int(v): tg for v, tg in t[2]}
        false_tg = edges.get(0, t[3])
        true_tg = t[3] if 0 in edges else edges.get(1, t[3])
        if op == "Lt":
            guards.append((sw, true_tg))
        elif op == "Ge":
            guards.append((sw, false_tg))
    for k, sb in enumerate(subs):
        ok = any(b.dominates(tg, sb) or tg == sb for sw, tg in guards if b.dominates(sw, sb))
        r.instance("subtraction-under-n-lt-remaining#%d" % k, ok,
                   "`remaining -= n + 1` is not dominated by the `n < remaining` side of a comparison of n with remaining (a guard `n > remaining` "
                   "lets n == remaining through): on a truncated fixed-size vector cell `nth(remaining)` underflows - a panic in debug builds, a "
                   "2^64-element iterator of errors in release", b.term_span(sb))


def check(ctx):
    facts = ctx.facts("default")
    try:
        selftest(ctx)
    except Exception as ex:  # the control itself failing is a failure of the check
        ctx.rule("R9x", "non-vacuity control").fail("selftest-error", "%s: %s" % (type(ex).__name__, ex))
    cg, roots, pred, per = decode_set(facts)
    missing = [p for p, n in per.items() if n == 0]
    anc = ctx.rule("R0", "decode entry points resolve", floor=len(ENTRY_PATTERNS))
    for p, n in per.items():
        anc.instance("entry:" + p, n > 0, "%d bodies match" % n, nontrivial=False)
    ctx.extra["decode_reachable_bodies"] = len(pred)
    for fn in (lambda: r1(ctx, facts, cg, pred), lambda: r2(ctx, facts), lambda: r3(ctx, facts, cg, pred), lambda: r4(ctx, facts, cg, pred), lambda: r5(ctx, facts), lambda: r6(ctx, facts), lambda: r7(ctx, inline_view_(facts)), lambda: r8(ctx, facts, pred), lambda: r11_guard(ctx), lambda: r12(ctx, inline_view_(facts)), lambda: r13(ctx, inline_view_(facts)), lambda: r14(ctx, inline_view_(facts))):
        try:
            fn()
        except AnchorLost as ex:
            ctx.rule("ANCHOR", "anchors").fail("anchor-lost:%d" % len(ctx.rules), str(ex))
    ctx.assumptions += ["call graph over-approximates dyn / generic trait calls by all workspace impls; third-party crates by signature",
                        "the reviewed tables (panic sites, allocation sizes, recursion) were confirmed by reading the code they name"]


from . import c08_tables  # noqa: E402  (fills REVIEWED / REVIEWED_ALLOC / REVIEWED_SCC)
