"""C04 — computed replica sets equal the cluster's own placement.

Equality of the computed node lists with the servers' placement for every ring is a statement about data and is NOT decided here.
What is decided are the clauses of the property that are visible in the shape of the code, each a necessary condition:

 R1 the NetworkTopologyStrategy walker (`NtsReplicasInDatacenterIterator::next`): a node is handed out only where its rack was not
    used yet (then the rack is recorded) or rack repeats are still allowed (then one repeat is spent); every node handed out is
    counted against `replicas_left_to_find`; a node that is neither is skipped, not returned; it is armed with
    `min(RF, unique nodes of the datacenter)` and `RF saturating_sub rack count`.
 R2 the SimpleStrategy walker takes `min(RF, unique nodes of the ring)` distinct nodes of the ring walk that starts at the token.
 R3 precomputed = on-the-fly: `PrecomputedReplicas::compute` obtains every list from the two walkers, with the ring token it files
    the list under; the compressed per-datacenter ring is computed for the largest RF *not above the rack count* and remembers
    exactly that RF; larger RFs get a ring of their own (range starts at rack count + 1); a lookup uses the compressed ring only
    where its RF covers the request, the per-RF ring under the requested RF itself, and hands out the first `min(len, RF)` nodes;
    the locator falls back to the walker with the same (token, datacenter, RF) that it asked the precomputed table for.
 R4 the ring walk starts at the first member whose token is >= the requested one and wraps once around the whole ring.
 R5 views of one replica set agree: every FilteredSimple arm (len / random choice / iteration) applies the same datacenter test;
    the chained-NTS iteration moves on to the next datacenter whenever one is left - an empty datacenter does not end it -
    and every chained-NTS view asks for `get_network_strategy_replicas(token, datacenter, that datacenter's RF)`.
"""
from ..inline import inline_view
from ..mir import AnchorLost
from ..util import df_of, dj_of, fn_short, cmp_truth, in_set, field_slice, closure_family, must_pass

L = "scylla::routing::locator::"


def _some_sites(b):
    out = []
    for bb in sorted(b.live_blocks):
        for j, st in enumerate(b.stmts(bb)):
            if st[0] == "A" and st[1][0] == 0 and not st[1][1] and st[2][0] == "agg" and st[2][1][0] == "adt" and st[2][1][1] == "core::option::Option":
                out.append((bb, j, st, st[2][1][2]))
    return out


def _field_stores(b, name):
    out = []
    for bb in sorted(b.live_blocks):
        for st in b.stmts(bb):
            if st[0] == "A" and st[1][1]:
                fl = [e for e in st[1][1] if isinstance(e, list) and e[0] == "f"]
                if fl and fl[-1][2] == name:
                    out.append((bb, st))
    return out


def r1(ctx, facts):
    r = ctx.rule("R1", "NTS walker: a node is taken iff its rack is new (rack recorded) or a repeat is left (repeat spent); every taken node is counted", floor=8)
    b = facts.one(r"<%sreplication_info::NtsReplicasInDatacenterIterator<.*> as core::iter::traits::iterator::Iterator>::next$" % L)
    dj = dj_of(b, facts)
    df = df_of(b, facts)
    somes = [(bb, j, st) for bb, j, st, v in _some_sites(b) if v == "Some"]
    if not somes:
        raise AnchorLost("NtsReplicasInDatacenterIterator::next: no Some exit")
    inner_next = [c for c in b.calls_to("Iterator::next") if c.args]
    if not inner_next:
        raise AnchorLost("NtsReplicasInDatacenterIterator::next: the inner ring iterator is not advanced by next()")
    contains = [c for c in b.calls_to("BTreeSet::<T, A>::contains", "HashSet::<T, S>::contains", "::contains")]
    inserts = [c for c in b.calls_to("BTreeSet::<T, A>::insert", "HashSet::<T, S>::insert", "::insert")]
    left_stores = _field_stores(b, "replicas_left_to_find")
    rep_stores = _field_stores(b, "acceptable_repeats")
    rep = None
    for bb in sorted(b.live_blocks):
        for st in b.stmts(bb):
            if st[0] == "A" and st[2][0] == "use" and st[2][1][0] in ("c", "m"):
                fl = [e for e in st[2][1][1][1] if isinstance(e, list) and e[0] == "f"]
                if fl and fl[-1][2] == "acceptable_repeats":
                    rep = df.expr_of_operand(st[2][1])
    from ..util import decided_edges
    new_edges = []
    for c in contains:
        new_edges += decided_edges(b, dj, ("call", c.bb), 0)
    ins_as_test = []
    for c in inserts:
        ins_as_test += decided_edges(b, dj, ("call", c.bb), 1)
    new_edges += ins_as_test
    rep_edges = []
    if rep is not None:
        def known_pos(stt):
            return cmp_truth(stt, "Gt", rep, ("const", 0)) == 1 or cmp_truth(stt, "Eq", rep, ("const", 0)) == 0
        for u in sorted(b.live_blocks):
            if b.term(u)[0] != "switch":
                continue
            before = dj.states_before_stmt(u, len(b.stmts(u)))
            if before and all(known_pos(x) for x in before):
                continue
            for v in b.succ[u]:
                sts = dj.states_on_edge(u, v)
                if sts and all(known_pos(x) for x in sts):
                    rep_edges.append((u, v))
    head = inner_next[0].bb
    some_bbs = sorted({bb for bb, _, _ in somes})
    free = dj.feasible_reach(head, removed_edges=new_edges + rep_edges)
    for bb, j, st in somes:
        r.instance("taken-only-if-new-rack-or-repeat-left", bb not in free,
                   "a node can be handed out on a path where neither `its rack is unused` nor `acceptable_repeats > 0` was established: more than one replica per rack before every rack has one", b.stmt_span(st))
        okc = bb not in dj.feasible_reach(head, removed_nodes=[x for x, _ in left_stores])
        r.instance("taken-node-is-counted", okc, "a node is handed out without decrementing replicas_left_to_find: the datacenter yields more than min(RF, nodes) replicas", b.stmt_span(st))
    r.instance("new-rack-evidence-found", bool(new_edges), "no branch on `used_racks.contains(rack)` / `used_racks.insert(rack)` found", b.span)
    r.instance("repeat-evidence-found", bool(rep_edges), "no branch on `acceptable_repeats > 0` found", b.span)
    for (u, v) in new_edges:
        if (u, v) in ins_as_test:
            continue            # the insert itself was the test
        reach = dj.feasible_reach_edge(u, v, removed_nodes=[c.bb for c in inserts])
        bad = [x for x in some_bbs if x in reach]
        r.instance("new-rack-is-recorded", not bad, "a node of an unused rack is handed out without recording the rack: the next node of the same rack is taken as if its rack were new", b.term_span(u))
    for (u, v) in rep_edges:
        reach = dj.feasible_reach_edge(u, v, removed_nodes=[x for x, _ in rep_stores])
        bad = [x for x in some_bbs if x in reach]
        r.instance("repeat-is-spent", not bad, "a node of an already used rack is handed out without spending one of the acceptable repeats", b.term_span(u))
    # the decrements are by one
    for nm, stores in (("replicas_left_to_find", left_stores), ("acceptable_repeats", rep_stores)):
        for bb, st in stores:
            e = df.expr_of_rvalue(st[2]) if st[2][0] != "use" else None
            src = st[2]
            good = False
            if src[0] == "use" and src[1][0] in ("c", "m"):
                sd = b.single_def(src[1][1][0])
                if sd and sd[0] == "stmt" and sd[3][0] == "bin" and sd[3][1] in ("SubWithOverflow", "Sub", "SubUnchecked"):
                    k = sd[3][3]
                    good = k[0] == "k" and str(k[3]) == "1"
            elif src[0] == "bin" and src[1] in ("Sub", "SubUnchecked"):
                good = src[3][0] == "k" and str(src[3][3]) == "1"
            elif src[0] == "call":
                good = False
            r.instance("decrement-by-one:" + nm, good, "%s must go down by exactly one per node taken" % nm, b.stmt_span(st))
    # None only when done or the ring is exhausted
    for bb, j, st, v in _some_sites(b):
        if v != "None":
            continue
        sts = dj.states_before_stmt(bb, j)
        left = None
        ok = bool(sts)
        for stt in sts:
            done = any(k[0] == "bin" and k[1] in ("Eq", "Ne", "Gt", "Lt", "Le", "Ge") and "replicas_left_to_find" in str(k) and
                       (cmp_truth(stt, "Eq", k[2], k[3]) == 1 or cmp_truth(stt, "Gt", k[2], k[3]) == 0) for k in stt if isinstance(k, tuple) and k and k[0] == "bin")
            exhausted = any(in_set(stt.get(("disc", (c.dest[0], ()))), {0}) for c in inner_next)
            if not (done or exhausted):
                ok = False
        r.instance("none-only-when-done-or-exhausted", ok, "the walker gives up where neither `replicas_left_to_find == 0` nor `the ring walk is exhausted` is known", b.stmt_span(st))
    # arming
    nb = facts.one(r"^%sreplication_info::ReplicationInfo::nts_replicas_in_datacenter$" % L)
    aggs = [(bb, st) for bb in sorted(nb.live_blocks) for st in nb.stmts(bb)
            if st[0] == "A" and st[2][0] == "agg" and st[2][1][0] == "adt" and st[2][1][1].endswith("NtsReplicasInDatacenterIterator")]
    if len(aggs) != 1:
        raise AnchorLost("nts_replicas_in_datacenter: expected one NtsReplicasInDatacenterIterator aggregate, found %d" % len(aggs))
    bb, st = aggs[0]
    fields = st[2][1][4]
    ops = dict(zip(fields, st[2][2]))
    _arm(r, nb, ops.get("replicas_left_to_find"), "armed:replicas_left_to_find", ("min",), {"len"}, "unique_nodes_in_dc_ring", st,
         "replicas_left_to_find must be min(replication_factor, number of unique nodes of the datacenter)")
    _arm(r, nb, ops.get("acceptable_repeats"), "armed:acceptable_repeats", ("saturating_sub",), set(), "rack_count", st,
         "acceptable_repeats must be replication_factor saturating_sub rack_count (the first argument the RF, the second the rack count)")
    # the walk: unique() over ring_range(token) of the datacenter's own ring
    it = ops.get("unique_dc_ring_nodes_iter")
    _, cs, _ = field_slice(nb, it) if it else (None, [], None)
    nms = [(c.decl or c.name or "").split("::")[-1] for c in cs]
    r.instance("walk-is-unique-ring-range", "unique" in nms and "ring_range" in nms and not ({"skip", "rev", "filter", "take", "step_by"} & set(nms)),
               "the walker must see the distinct nodes of the datacenter ring in ring order from the token (derives from %s)" % sorted(set(nms)), nb.stmt_span(st))


def _reads_field(b, op, name):
    seen, _, _ = field_slice(b, op)
    locs = {l for l, _ in seen}
    for bb in b.live_blocks:
        for st in b.stmts(bb):
            if st[0] == "A" and st[1][0] in locs:
                for pl in _places(st[2]):
                    if any(isinstance(e, list) and e[0] == "f" and e[2] == name for e in pl[1]):
                        return True
    for bb, c in b.calls():
        if c.dest[0] in locs:
            for a in c.args:
                if a[0] in ("c", "m") and any(isinstance(e, list) and e[0] == "f" and e[2] == name for e in a[1][1]):
                    return True
    return False


def _places(rv):
    from ..util import _rv_places
    return _rv_places(rv)


def _arm(r, b, op, key, fn_names, via, field, st, msg):
    if op is None:
        r.fail(key, "field not found in the aggregate", b.stmt_span(st))
        return
    sd = b.single_def(op[1][0]) if op[0] in ("c", "m") else None
    # follow plain copies
    for _ in range(4):
        if sd and sd[0] == "stmt" and sd[3][0] == "use" and sd[3][1][0] in ("c", "m"):
            sd = b.single_def(sd[3][1][1][0])
    ok = False
    why = "not the direct result of %s" % "/".join(fn_names)
    if sd and sd[0] == "call":
        c = sd[2]
        nm = (c.decl or c.name or "").split("::")[-1]
        if nm in fn_names and len(c.args) == 2:
            a0 = _is_param(b, c.args[0], "replication_factor")
            a1f = _reads_field(b, c.args[1], field)
            a1 = _is_param(b, c.args[1], "replication_factor")
            a0f = _reads_field(b, c.args[0], field)
            if nm == "min":
                ok = (a0 and a1f) or (a1 and a0f)
            else:
                ok = a0 and a1f and not a1
            why = "%s(%s, %s)" % (nm, "RF" if a0 else ("…%s" % field if a0f else "?"), "RF" if a1 else ("…%s" % field if a1f else "?"))
    r.instance(key, ok, msg + " - found " + why, b.stmt_span(st))


def _is_param(b, op, name):
    seen, cs, bins = field_slice(b, op)
    locs = {l for l, _ in seen}
    return any(b.local_name(l) == name and l <= b.argc for l in locs) and not cs and not bins


def r2(ctx, facts):
    r = ctx.rule("R2", "SimpleStrategy walker: take(min(RF, unique nodes)) of unique(ring_range(token)) on the global ring", floor=3)
    b = facts.one(r"^%sreplication_info::ReplicationInfo::simple_strategy_replicas$" % L)
    takes = b.calls_to("Iterator::take")
    if len(takes) != 1:
        raise AnchorLost("simple_strategy_replicas: expected one take(), found %d" % len(takes))
    tk = takes[0]
    sd = b.single_def(tk.args[1][1][0]) if tk.args[1][0] in ("c", "m") else None
    for _ in range(4):
        if sd and sd[0] == "stmt" and sd[3][0] == "use" and sd[3][1][0] in ("c", "m"):
            sd = b.single_def(sd[3][1][1][0])
    ok = False
    if sd and sd[0] == "call" and (sd[2].decl or sd[2].name or "").split("::")[-1] == "min":
        c = sd[2]
        ok = (_is_param(b, c.args[0], "replication_factor") and _reads_field(b, c.args[1], "unique_nodes_in_global_ring")) or \
             (_is_param(b, c.args[1], "replication_factor") and _reads_field(b, c.args[0], "unique_nodes_in_global_ring"))
    r.instance("count-is-min-rf-unique-nodes", ok, "the number of replicas must be min(replication_factor, number of unique nodes in the ring)", tk.span)
    _, cs, _ = field_slice(b, tk.args[0])
    nms = [(c.decl or c.name or "").split("::")[-1] for c in cs]
    r.instance("walk-is-unique-ring-range", "unique" in nms and "ring_range" in nms and not ({"skip", "rev", "filter", "step_by", "skip_while"} & set(nms)),
               "replicas are the first distinct nodes clockwise from the token (derives from %s)" % sorted(set(nms)), tk.span)
    rr = [c for c in cs if (c.decl or c.name or "").endswith("ring_range")]
    r.instance("walk-starts-at-token", bool(rr) and _is_param(b, rr[0].args[1], "token") and _reads_field(b, rr[0].args[0], "global_ring"),
               "the ring walk must be over the global ring, from the requested token", rr[0].span if rr else tk.span)


def r3(ctx, facts):
    r = ctx.rule("R3", "precomputed lists come from the walkers; compressed ring for the largest RF <= rack count, own ring above; lookup = prefix of min(len, RF)", floor=12)
    P = L + "precomputed_replicas::"
    cb = facts.one(r"^%sPrecomputedReplicas::compute$" % P)
    fam = closure_family(facts, cb)
    walkers = {"simple_strategy_replicas": 0, "nts_replicas_in_datacenter": 0}
    for b in fam:
        for bb, c in b.calls():
            if bb not in b.live_blocks:
                continue
            nm = (c.name or "").split("::")[-1]
            if nm in walkers:
                walkers[nm] += 1
                # token handed to the walker is the ring token of this element, which is also the key of the produced pair
                tok = c.args[1]
                seen, cs, bins = field_slice(b, tok)
                from_elem = any(l <= b.argc and l >= 1 for l, _ in seen) and not bins
                r.instance("walker-token-is-the-ring-token:" + nm, from_elem, "the list filed under a ring token must be computed for that token", c.span)
    # every token of the ring gets an entry: nothing between `ring.iter()` and `TokenRing::new` drops or merges tokens
    DROPPING = ("dedup", "dedup_by", "dedup_by_key", "dedup_with_count", "filter", "filter_map", "step_by", "skip", "skip_while", "take", "take_while", "unique", "unique_by", "coalesce", "batching", "flatten")
    for b in fam:
        for bb, c in b.calls():
            if bb in b.live_blocks and (c.name or "").endswith("TokenRing::<ElemT>::new") and c.args:
                sl_ = field_slice(b, c.args[0])
                names_ = {(x.decl or x.name or "").split("::")[-1] for x in sl_[1]}
                # iterators built by a local closure (`produce_replica_ring_iter`) are part of the chain
                for l_, _w in sl_[0]:
                    for d_ in b.defs.get(l_, []):
                        if d_[0] == "call":
                            res_ = d_[2].callee.get("res") or ""
                            cbx = facts.body(res_) if "{closure" in res_.split("::")[-1] else None
                            if cbx is not None:
                                names_ |= {(x.decl or x.name or "").split("::")[-1] for bbx, x in cbx.calls() if bbx in cbx.live_blocks}
                bad_ = sorted(names_ & set(DROPPING))
                r.instance("every-ring-token-gets-an-entry:" + fn_short(b.path), not bad_,
                           "the precomputed ring is built through %s: tokens are dropped or merged before TokenRing::new, but an entry answers for the interval that ENDS at its token - a token between two "
                           "merged vnodes resolves to the next node's list" % bad_, c.span)
    for nm, n in walkers.items():
        r.instance("lists-come-from:" + nm, n >= 1, "PrecomputedReplicas::compute must obtain its lists from ReplicationInfo::%s (found %d calls)" % (nm, n), cb.span)
    # no other producer of replica lists inside compute: every TokenRing::new argument is an iterator built in the family
    # cut at the rack count
    df = df_of(cb, facts)
    rc = cb.calls_to("DatacenterNodes::get_rack_count")
    if not rc:
        raise AnchorLost("compute: get_rack_count is not consulted")
    ranges = [c for c in cb.calls_to("BTreeSet::<T, A>::range")]
    splits = [c for c in cb.calls_to("BTreeSet::<T, A>::split_off")]
    if not ranges and len(splits) == 1:
        # one owned split at rack_count + 1: the left part holds the RFs <= rack count, the right part the RFs above it
        c = splits[0]
        seen, cs, bins = field_slice(cb, c.args[1])
        from_rc = any((x.name or "").endswith("get_rack_count") for x in cs)
        adds = [rv for rv in bins if rv[1] in ("Add", "AddWithOverflow", "AddUnchecked")]
        one = len(adds) == 1 and adds[0][3][0] == "k" and str(adds[0][3][3]) == "1" and len(bins) == 1
        r.instance("compressed-range-ends-at-rack-count", from_rc and one, "split_off must cut the datacenter's RFs at rack_count + 1 (arithmetic: %s)" % [x[1] for x in bins], c.span)
        r.instance("own-rings-start-above-rack-count", from_rc and one, "split_off must cut the datacenter's RFs at rack_count + 1 (arithmetic: %s)" % [x[1] for x in bins], c.span)
        ranges = None
    elif len(ranges) != 2:
        raise AnchorLost("compute: expected two BTreeSet::range calls (<= rack count, > rack count) or one split_off, found %d / %d" % (len(ranges), len(splits)))
    n_ok = 0
    for c in (ranges or []):
        seen, cs, bins = field_slice(cb, c.args[1])
        locs = {l for l, _ in seen}
        aggs = [st for bb in cb.live_blocks for st in cb.stmts(bb) if st[0] == "A" and st[1][0] in locs and st[2][0] == "agg" and st[2][1][0] == "adt" and st[2][1][1].startswith("core::ops::range::")]
        kind = aggs[0][2][1][1].split("::")[-1] if aggs else "?"
        from_rc = any((x.name or "").endswith("get_rack_count") for x in cs)
        adds = [rv for rv in bins if rv[1] in ("Add", "AddWithOverflow", "AddUnchecked")]
        others = [rv for rv in bins if rv not in adds]
        if kind == "RangeToInclusive":
            r.instance("compressed-range-ends-at-rack-count", from_rc and not bins, "the compressed ring is valid only for RF <= rack count: the range must be ..=rack_count, unchanged (arithmetic: %s)" % [x[1] for x in bins], c.span)
            n_ok += 1
        elif kind == "RangeFrom":
            one = len(adds) == 1 and adds[0][3][0] == "k" and str(adds[0][3][3]) == "1" and not others
            r.instance("own-rings-start-above-rack-count", from_rc and one, "RFs above the rack count get a ring of their own: the range must be (rack_count + 1).. (arithmetic: %s)" % [x[1] for x in bins], c.span)
            n_ok += 1
        elif kind == "RangeTo":
            r.fail("compressed-range-ends-at-rack-count", "the range ..rack_count excludes RF == rack count from the compressed ring and from the per-RF rings: lookups for it fall back to computing", c.span)
        else:
            r.fail("range-shape", "unrecognised range kind %s over the datacenter's replication factors" % kind, c.span)
    # the compressed ring takes the LARGEST such RF
    nb_ = [c for c in cb.calls_to("DoubleEndedIterator::next_back", "Iterator::max", "Iterator::last", "BTreeSet::<T, A>::last")]
    r.instance("compressed-ring-for-the-largest-rf", bool(nb_), "the compressed ring must be computed for the largest RF not above the rack count (next_back / last / max of the range)", cb.span)
    # max_rep_factor remembers the RF the ring was computed for
    n_agg = 0
    for b in fam:
        for bb in sorted(b.live_blocks):
            for st in b.stmts(bb):
                if st[0] == "A" and st[2][0] == "agg" and st[2][1][0] == "adt" and st[2][1][1] == P + "PrecomputedReplicasRing":
                    n_agg += 1
                    fields = st[2][1][4]
                    ops = dict(zip(fields, st[2][2]))
                    d = df_of(b, facts)
                    m = d.expr_of_operand(ops["max_rep_factor"])
                    # the ring operand's producer call must have been handed the same value
                    _, cs, _ = field_slice(b, ops["replicas_for_token"])
                    same = False
                    for c in cs:
                        for a in c.args:
                            if d.expr_of_operand(a) == m:
                                same = True
                    # the global ring: produced by TokenRing::new over a closure that captured the same rf
                    if not same:
                        for c in cs:
                            for a in c.args:
                                if a[0] in ("c", "m") and "{closure@" in b.local_ty(a[1][0]):
                                    continue     # the environment of a local closure shares locals with everything it captured: no evidence
                                sl, cs2, _ = field_slice(b, a)
                                mm = field_slice(b, ops["max_rep_factor"])[0]
                                if {l for l, _ in sl} & {l for l, _ in mm}:
                                    same = True
                    if not same:
                        # the ring was filled by a loop: values pushed into a collection that the ring is built from
                        mm = {l for l, _ in field_slice(b, ops["max_rep_factor"])[0]}
                        ring_locals = {l for l, _ in field_slice(b, ops["replicas_for_token"])[0]}
                        for bb2, c2 in b.calls():
                            if bb2 not in b.live_blocks or (c2.decl or c2.name or "").split("::")[-1] not in ("push", "extend", "insert", "push_back", "extend_from_slice") or len(c2.args) < 2:
                                continue
                            recv = {l for l, _ in field_slice(b, c2.args[0])[0]}
                            if not (recv & ring_locals):
                                continue
                            for a in c2.args[1:]:
                                if {l for l, _ in field_slice(b, a)[0]} & mm:
                                    same = True
                    r.instance("ring-remembers-its-rf:" + fn_short(b.path), same, "max_rep_factor must be the RF the ring was computed for (it is %s)" % d.fmt_expr(m), b.stmt_span(st))
    if n_agg < 2:
        raise AnchorLost("compute: expected the global and the per-datacenter PrecomputedReplicasRing aggregates, found %d" % n_agg)
    # lookup side
    gb = facts.one(r"^%sDatacenterPrecomputedReplicas::get_replica_ring_for_rf$" % P)
    gdj = dj_of(gb, facts)
    gdf = df_of(gb, facts)
    n = 0
    for bb, j, st, v in _some_sites(gb):
        if v != "Some":
            continue
        n += 1
        ok = True
        for stt in gdj.states_before_stmt(bb, j):
            good = False
            for k in stt:
                if isinstance(k, tuple) and k and k[0] == "bin" and "max_rep_factor" in str(k):
                    a, b_ = k[2], k[3]
                    m, rf = (a, b_) if "max_rep_factor" in str(a) else (b_, a)
                    if cmp_truth(stt, "Ge", m, rf) == 1:
                        good = True
            ok = ok and good
        r.instance("compressed-only-if-it-covers-rf", ok, "the compressed ring is used where `max_rep_factor >= replication_factor` is not known: its lists are too short for the request", gb.stmt_span(st))
    gets = gb.calls_to("HashMap::<K, V, S, A>::get")
    okg = bool(gets) and all(_is_param(gb, c.args[1], "replication_factor") for c in gets)
    r.instance("own-ring-looked-up-by-rf", okg, "the per-RF rings are keyed by the requested replication factor itself", gets[0].span if gets else gb.span)
    if n == 0 and not gets:
        raise AnchorLost("get_replica_ring_for_rf: no exit recognised")
    for fn, rfname in (("get_precomputed_simple_strategy_replicas", "replication_factor"), ("get_precomputed_network_strategy_replicas", "dc_replication_factor")):
        b = facts.one(r"^%sPrecomputedReplicas::%s$" % (P, fn))
        mins = [c for c in b.calls_to("core::cmp::min")]
        idx = [c for c in b.calls() if False]
        ok = False
        for c in mins:
            a0, a1 = c.args[0], c.args[1]
            def is_len(o):
                _, cs, bins = field_slice(b, o)
                return any((x.decl or x.name or "").split("::")[-1] == "len" for x in cs) and not bins
            if (is_len(a0) and _is_param(b, a1, rfname)) or (is_len(a1) and _is_param(b, a0, rfname)):
                # its result bounds the slice handed out
                for bb2, c2 in b.calls():
                    if (c2.decl or c2.name or "").endswith("Index::index") and bb2 in b.live_blocks:
                        _, cs2, bins2 = field_slice(b, c2.args[1])
                        if any(x.bb == c.bb for x in cs2) and not bins2:
                            ok = True
        r.instance("prefix-of-min-len-rf:" + fn, ok, "the list handed out must be the first min(len, RF) nodes of the precomputed list", mins[0].span if mins else b.span)
        if fn.endswith("simple_strategy_replicas"):
            dj = dj_of(b, facts)
            d = df_of(b, facts)
            okn = True
            found = False
            for bb, j, st, v in _some_sites(b):
                if v != "Some":
                    continue
                found = True
                for stt in dj.states_before_stmt(bb, j):
                    good = False
                    for k in stt:
                        if isinstance(k, tuple) and k and k[0] == "bin" and "max_rep_factor" in str(k):
                            a, b_ = k[2], k[3]
                            m, rf = (a, b_) if "max_rep_factor" in str(a) else (b_, a)
                            if cmp_truth(stt, "Ge", m, rf) == 1:
                                good = True
                    okn = okn and good
            r.instance("simple-only-if-covered", found and okn, "a precomputed SimpleStrategy list is handed out where `replication_factor <= max_rep_factor` is not known", b.span)
    # locator: fallback walker gets the same arguments
    M = L + "ReplicaLocator::"
    for fn, pre, walker, argn in (("get_simple_strategy_replicas", "get_precomputed_simple_strategy_replicas", "ReplicationInfo::simple_strategy_replicas", 2),
                                 ("get_network_strategy_replicas", "get_precomputed_network_strategy_replicas", "ReplicationInfo::nts_replicas_in_datacenter", 3)):
        b = facts.one(r"^%s%s$" % (M, fn))
        d = df_of(b, facts)
        pc, wc = b.calls_to(pre), b.calls_to(walker)
        if len(pc) != 1 or len(wc) != 1:
            raise AnchorLost("%s: expected one precomputed lookup and one walker call, found %d/%d" % (fn, len(pc), len(wc)))
        same = all(d.expr_of_operand(pc[0].args[i]) == d.expr_of_operand(wc[0].args[i]) and d.expr_of_operand(pc[0].args[i]) is not None for i in range(1, 1 + argn))
        r.instance("fallback-same-arguments:" + fn, same, "the on-the-fly computation must be asked for the same (token, datacenter, RF) as the precomputed table", wc[0].span)
        dj = dj_of(b, facts)
        sts = dj.states_at(wc[0].bb)
        okf = bool(sts) and all(in_set(stt.get(("disc", (pc[0].dest[0], ()))), {0}) for stt in sts)
        r.instance("walker-only-if-not-precomputed:" + fn, okf, "the walker runs where the precomputed lookup is not known to have answered None", wc[0].span)


def r4(ctx, facts):
    r = ctx.rule("R4", "ring walk: from the first member with token >= the requested one, once around the whole ring", floor=4)
    T = L + "token_ring::TokenRing::<ElemT>::"
    b = facts.one(r"^%sring_range_full$" % T.replace("<", "<").replace(">", ">"))
    fam = closure_family(facts, b)
    bs = b.calls_to("binary_search_by", "partition_point", "binary_search_by_key")
    if len(bs) != 1:
        raise AnchorLost("ring_range_full: expected one binary search, found %d" % len(bs))
    # the comparator orders members by token against the requested token: member.cmp(token), not the reverse
    cmpc = None
    for cbody in fam:
        for bb, c in cbody.calls():
            if bb in cbody.live_blocks and (c.decl or c.name or "").endswith("Ord::cmp"):
                cmpc = (cbody, c)
    SEARCH = ("binary_search_by", "binary_search_by_key", "partition_point")
    if (bs[0].decl or bs[0].name or "").endswith("binary_search_by"):
        ok = False
        if cmpc:
            cbody, c = cmpc
            s0, _, _ = field_slice(cbody, c.args[0])
            s1, _, _ = field_slice(cbody, c.args[1])
            # first operand derives from the closure's element parameter (local 2), second from the captured token (local 1)
            ok = any(l == 2 for l, _ in s0) and any(l == 1 for l, _ in s1) and not any(l == 2 for l, _ in s1)
        r.instance("search-orders-member-against-token", ok, "the binary search comparator must be member_token.cmp(&requested_token); reversed it lands on the wrong side of the ring", bs[0].span)
    else:
        # partition_point(|e| e.token < token): strictly-less, member on the left (or token > member)
        ok = False
        for cbody in fam:
            for bb, c in cbody.calls():
                nm = (c.decl or c.name or "").split("::")[-1]
                if bb in cbody.live_blocks and nm in ("lt", "gt", "le", "ge") and len(c.args) == 2:
                    s0, _, _ = field_slice(cbody, c.args[0])
                    s1, _, _ = field_slice(cbody, c.args[1])
                    mem0 = any(l == 2 for l, _ in s0) and not any(l == 1 for l, _ in s0)
                    mem1 = any(l == 2 for l, _ in s1) and not any(l == 1 for l, _ in s1)
                    ok = (nm == "lt" and mem0 and not mem1) or (nm == "gt" and mem1 and not mem0)
        r.instance("search-orders-member-against-token", ok, "partition_point's predicate must be `member_token < requested_token` (strict): with <= a member sitting exactly on the token is skipped", bs[0].span)

    def part_of_ring(op, depth=0):
        """("suffix"|"prefix", index operand) / ("whole", None) / None: which part of `self.ring` an iterator / slice operand covers"""
        if depth > 10 or op[0] not in ("c", "m"):
            return None
        pl = op[1]
        fl = [e for e in pl[1] if isinstance(e, list) and e[0] == "f"]
        if fl and fl[-1][2] == "ring":
            return ("whole", None)
        ds = [d for d in b.defs.get(pl[0], []) if d[0] in ("stmt", "call")]
        if len(ds) != 1:
            return None
        d = ds[0]
        if d[0] == "stmt":
            rv = d[3]
            if rv[0] in ("use",):
                return part_of_ring(rv[1], depth + 1)
            if rv[0] in ("ref", "cfd", "addr"):
                return part_of_ring(["c", rv[-1]], depth + 1)
            return None
        c = d[2]
        nm = (c.decl or c.name or "").split("::")[-1]
        if nm == "split_at" and fl:
            return ("prefix" if fl[0][1] == 0 else "suffix", c.args[1])
        if nm in ("iter", "into_iter", "deref", "as_slice", "as_ref", "borrow"):
            return part_of_ring(c.args[0], depth + 1)
        if nm == "index" and len(c.args) == 2 and c.args[1][0] in ("c", "m"):
            rd = b.single_def(c.args[1][1][0])
            if rd and rd[0] == "stmt" and rd[3][0] == "agg" and rd[3][1][0] == "adt":
                kind = rd[3][1][1].split("::")[-1]
                if kind == "RangeFrom":
                    return ("suffix", rd[3][2][0])
                if kind == "RangeTo":
                    return ("prefix", rd[3][2][0])
                if kind == "RangeFull":
                    return ("whole", None)
        return None

    def from_search_unchanged(op):
        seen, cs, bins = field_slice(b, op, stop_at=SEARCH)
        return any(x.bb == bs[0].bb for x in cs) and not bins and all(x.bb == bs[0].bb or (x.decl or x.name or "").split("::")[-1] in ("unwrap_or_else", "unwrap_or", "into_ok_or_err", "map_or_else", "identity") for x in cs)
    ch = b.calls_to("Iterator::chain")
    tk = b.calls_to("Iterator::take")
    okb = okw = False
    if len(ch) == 1:
        pa, pb_ = part_of_ring(ch[0].args[0]), part_of_ring(ch[0].args[1])
        okb = bool(pa) and pa[0] == "suffix" and from_search_unchanged(pa[1])
        if pa and pb_ and pb_[0] == "prefix":
            okw = from_search_unchanged(pb_[1]) and not tk
        elif pa and pb_ and pb_[0] == "whole" and len(tk) == 1:
            _, cs, bins = field_slice(b, tk[0].args[1])
            okw = any((x.decl or x.name or "").split("::")[-1] == "len" for x in cs) and not bins
            _, cs0, _ = field_slice(b, tk[0].args[0])
            okw = okw and any(x.bb == ch[0].bb for x in cs0)
    r.instance("walk-starts-at-search-result", okb, "the walk must start with the members from the index the search returned (exact match or first greater), unchanged", ch[0].span if ch else b.span)
    r.instance("wraps-once-around", okw, "the tail of the ring must be followed by exactly the members in front of the start index (the prefix, or the whole ring cut to ring.len()): each member exactly once", ch[0].span if ch else b.span)
    nb = facts.one(r"^%snew$" % T)
    srt = nb.calls_to("sort_by_key", "sort_unstable_by_key", "sort_by", "sort", "sort_unstable_by", "sort_unstable", "sort_by_cached_key")
    r.instance("ring-is-sorted-by-token", len(srt) >= 1, "TokenRing::new must sort the members (by token)", nb.span)


def r5(ctx, facts):
    r = ctx.rule("R5", "views of one replica set agree: same datacenter test in every FilteredSimple arm; chained-NTS iteration skips empty datacenters; same per-DC request everywhere", floor=8)
    M = L
    targets = [facts.one(r"^%sReplicaSet::<'a>::len$" % M), facts.one(r"^%sReplicaSet::<'a>::choose$" % M),
               facts.one(r"<%sReplicaSetIterator<'a> as core::iter::traits::iterator::Iterator>::next$" % M)]
    # FilteredSimple arms: each function (with its closures) compares Node.datacenter with the variant's datacenter
    for b in targets:
        fam = closure_family(facts, b)
        found = False
        for cbody in fam:
            for bb, c in cbody.calls():
                if bb in cbody.live_blocks and (c.decl or c.name or "").endswith(("PartialEq::eq", "PartialEq::ne")):
                    s0, cs0, _ = field_slice(cbody, c.args[0])
                    s1, cs1, _ = field_slice(cbody, c.args[1])
                    txt = " ".join((x.name or "") for x in cs0 + cs1)
                    if "as_deref" in txt or "datacenter" in txt or _mentions_field(cbody, s0 | s1, "datacenter"):
                        found = True
        r.instance("filtered-simple-tests-datacenter:" + fn_short(b.path), found, "the FilteredSimple view must restrict the SimpleStrategy replicas to the requested datacenter (node.datacenter == datacenter)", b.span)
    # chained NTS iteration
    nb = targets[2]
    dj = dj_of(nb, facts)
    gets = [c for c in nb.calls_to("slice::<impl [T]>::get", "Vec::<T, A>::get", "::get") if _reads_field(nb, c.args[0], "datacenters")]
    if not gets:
        raise AnchorLost("ReplicaSetIterator::next: the lookup of the next datacenter (locator.datacenters.get(..)) was not found")
    rec = [c for c in nb.calls_to("Iterator>::next", "ReplicaSetIterator::next", "Iterator::next") if c.args and "ReplicaSetIterator" in nb.local_ty(c.args[0][1][0]) ]
    for g in gets:
        # from the Some edge of the lookup, no None exit may be feasibly reachable without re-entering the walk: the recursion
        # `self.next()`, or - in the loop form - the lookup itself (asking for the datacenter after this one)
        removed = [c.bb for c in rec] + [g.bb]
        key_g = ("disc", (g.dest[0], ()))
        some_edges = []
        for u in sorted(nb.live_blocks):
            if nb.term(u)[0] != "switch":
                continue
            before = dj.states_before_stmt(u, len(nb.stmts(u)))
            for v in nb.succ[u]:
                sts = dj.states_on_edge(u, v)
                if sts and all(in_set(st.get(key_g), {1}) for st in sts) and not (before and all(in_set(st.get(key_g), {1}) for st in before)):
                    some_edges.append((u, v))
        bad = None
        for (u, v) in some_edges:
            reach = dj.feasible_reach_edge(u, v, removed_nodes=removed)
            for bb, j, st, vv in _some_sites(nb):
                if vv == "None" and bb in reach:
                    bad = st
            # `?` on an Option leaves through from_residual with a None
            for bb2, c2 in nb.calls():
                if bb2 in reach and (c2.decl or "").endswith("FromResidual::from_residual") and c2.dest[0] == 0:
                    bad = bad or ("call", c2)
        r.instance("empty-datacenter-does-not-end-iteration", bool(some_edges) and bad is None,
                   "after moving on to the next datacenter the iterator may answer None without looking at the datacenters after it: a datacenter without replicas (RF 0, or absent from the strategy) cuts the replica set short",
                   (nb.stmt_span(bad) if bad and bad[0] != "call" else (bad[1].span if bad else g.span)))
    # same per-DC request in every chained-NTS view
    n_req = 0
    for b in (targets[1], targets[2], facts.one(r"<%sReplicaSet<'a> as core::iter::traits::collect::IntoIterator>::into_iter$" % M)):
        for c in b.calls_to("ReplicaLocator::get_network_strategy_replicas"):
            n_req += 1
            s2, cs2, _ = field_slice(b, c.args[2])
            s3, cs3, b3 = field_slice(b, c.args[3])
            dc_from_list = _reads_field(b, c.args[2], "datacenters")
            rf_from_map = any((x.decl or x.name or "").endswith("::get") and "HashMap" in (x.name or "") for x in cs3)
            r.instance("per-dc-request:" + fn_short(b.path), dc_from_list and rf_from_map, "each datacenter of the chained view is asked for with its own name and the RF the strategy lists for it", c.span)
    if n_req < 3:
        raise AnchorLost("expected get_network_strategy_replicas in choose / next / into_iter, found %d" % n_req)


def r6(ctx, facts):
    r = ctx.rule("R6", "the rack count of a datacenter and the NTS walker agree on what a rack is: a node without a rack name forms a rack of its own in both", floor=2)
    b = facts.one(r"^%sreplication_info::ReplicationInfo::new$" % L)
    n = 0
    for bb in sorted(b.live_blocks):
        for st in b.stmts(bb):
            if st[0] == "A" and st[2][0] == "agg" and st[2][1][0] == "adt" and st[2][1][1].endswith("DatacenterNodes") and "rack_count" in (st[2][1][4] or []):
                n += 1
                op = st[2][2][st[2][1][4].index("rack_count")]
                _, cs, bins = field_slice(b, op)
                nms = [(c.decl or c.name or "").split("::")[-1] for c in cs]
                dropping = sorted({x for x in nms if x in ("filter_map", "flatten", "filter", "flat_map", "skip_while", "take_while", "map_while", "flatten_ok")})
                r.instance("rack-count-keeps-rackless-nodes", not dropping and not bins,
                           "rack_count is computed through %s: nodes without a rack name drop out of the count, while the NTS walker treats `None` as a rack of its own - the walker then "
                           "believes one rack repeat more is allowed and takes a second node of a used rack before every rack has one" % (dropping or [x[1] for x in bins]), b.stmt_span(st))
                r.instance("rack-count-is-a-distinct-count", any(x in nms for x in ("unique", "unique_by", "len", "count", "collect", "dedup")) and ("count" in nms or "len" in nms),
                           "rack_count must be the number of DISTINCT rack values of the datacenter's nodes (derives from %s)" % sorted(set(nms)), b.stmt_span(st))
    if n == 0:
        raise AnchorLost("ReplicationInfo::new: no DatacenterNodes aggregate with a rack_count found")
    # the walker's side: the rack key it records is the node's Option rack, unfiltered
    wb = facts.one(r"<%sreplication_info::NtsReplicasInDatacenterIterator<.*> as core::iter::traits::iterator::Iterator>::next$" % L)
    ins = [c for c in wb.calls_to("BTreeSet::<T, A>::insert", "HashSet::<T, S>::insert", "BTreeSet::<T, A>::contains", "HashSet::<T, S>::contains")]
    okw = bool(ins)
    for c in ins:
        arg = c.args[1]
        ty = wb.local_ty(arg[1][0]) if arg[0] in ("c", "m") else ""
        if "Option<" not in ty:
            okw = False
    r.instance("walker-keys-racks-by-option", okw, "the walker must key its used-rack set by the node's Option<rack> (None included)", wb.span)


def _mentions_field(b, seen, name):
    locs = {l for l, _ in seen}
    for bb in b.live_blocks:
        for st in b.stmts(bb):
            if st[0] == "A" and st[1][0] in locs:
                for pl in _places(st[2]):
                    if any(isinstance(e, list) and e[0] == "f" and e[2] == name for e in pl[1]):
                        return True
    return False


def r7(ctx, facts):
    """shared with C12 (stated there as R8): the ring-ordered view of an NTS replica set starts at a node of a datacenter the
    keyspace replicates to, so it names the same nodes as the set's size, iteration and random choice do"""
    from .c12 import r8 as c12_r8
    c12_r8(ctx, facts)


def check(ctx):
    facts = inline_view(ctx.facts("default"))
    for fn in (r1, r2, r3, r4, r5, r6, r7):
        try:
            fn(ctx, facts)
        except AnchorLost as ex:
            ctx.rule(fn.__name__.upper() + "x", "anchors of " + fn.__name__).fail("anchor-lost", str(ex))
    ctx.assumptions += ["Cassandra / ScyllaDB replica placement (SimpleStrategy, NetworkTopologyStrategy) transcribed from the property text",
                        "itertools::unique keeps the first occurrence in iteration order"]
