"""C18 — timestamps of the monotonic generator strictly increase; explicit statement timestamps take precedence.

Decided statically:
 R1 `MonotonicTimestampGenerator.last` is published only by compare_exchange: no store/swap/fetch_* on it anywhere; the CAS
    `current` operand is the value loaded in the same iteration, which is also what compute_next received; `new` is
    compute_next's result.
 R2 next_timestamp returns only on the CAS-success edge and returns exactly the value it published; the failure edge goes back
    through the load.
 R3 compute_next returns either the clock reading inside the `reading > last` region or `last + c` (c >= 1).
 R5 precedence: TimestampGenerator::next_timestamp is called only from closures that are the fallback of
    `statement.get_timestamp().or_else(..)`, and the frame's `timestamp` field is that or_else result.
With R1-R3 the usual CAS argument gives pairwise distinctness and per-thread increase for every interleaving and clock
behaviour. (No memory-ordering rule: all accesses are to one atomic location, whose modification order is total regardless
of the Ordering argument, so weakening it would not break this property.)
Not decided: i64 overflow at last+1; user-provided generators.
"""
from ..inline import inline_view
from ..mir import AnchorLost
from .c20 import slice_fields
from ..util import callers_keys, backward_slice, cmp_truth, df_of, enum_variant_of_operand, operand_path, path_last, one_call, switch_on, switch_edges, in_set, fn_short, uses_of_local

GEN = "scylla::policies::timestamp_generator::MonotonicTimestampGenerator"
TRAIT_M = "scylla::policies::timestamp_generator::TimestampGenerator::next_timestamp"
ATOMIC = "core::sync::atomic::Atomic::<i64>::"
WRITERS = ("store", "swap", "fetch_add", "fetch_sub", "fetch_max", "fetch_min", "fetch_update", "fetch_and", "fetch_or", "fetch_xor",
           "fetch_nand", "try_update", "update", "get_mut", "as_ptr", "into_inner", "compare_exchange", "compare_exchange_weak", "compare_and_swap")


def r1_r2(ctx, facts):
    r1 = ctx.rule("R1", "`last` is published by compare_exchange only; CAS operands are (loaded value, compute_next(loaded value))", floor=7)
    r2 = ctx.rule("R2", "next_timestamp returns only after CAS success, the published value; failure re-loads", floor=3)
    nb = facts.one(r"<%s as scylla::policies::timestamp_generator::TimestampGenerator>::next_timestamp$" % GEN)
    # who touches `last` with a writing atomic op, anywhere in the crate
    nwrites = 0
    for b in facts.bodies.mentioning('"last"'):
        if b.crate != "scylla":
            continue
        df = None
        for bb, c in b.calls():
            if bb not in b.live_blocks or not c.decl or not c.decl.startswith("core::sync::atomic::Atomic::<"):
                continue
            meth = c.decl.split("::")[-1]
            if meth not in WRITERS:
                continue
            df = df or df_of(b, facts)
            p = operand_path(df, c.args[0]) if c.args else None
            if path_last(p) != "last":
                continue
            # is the base a MonotonicTimestampGenerator?
            root_ty = b.local_ty(p[0])
            if GEN not in root_ty and not (b.impl_self and GEN in b.impl_self):
                continue
            nwrites += 1
            ok = meth in ("compare_exchange", "compare_exchange_weak") and b.path == nb.path
            r1.instance("writer:%s:%s" % (fn_short(b.path), meth), ok,
                        "MonotonicTimestampGenerator.last may only be written by the compare_exchange in next_timestamp (found %s in %s)" % (meth, b.path), c.span)
    # direct (non-atomic) field stores
    for b in facts.bodies.mentioning('"last"'):
        if b.crate != "scylla" or GEN not in (b.impl_self or "") and GEN not in b.path:
            continue
        for bb in b.live_blocks:
            for st in b.stmts(bb):
                if st[0] == "A" and st[1][1]:
                    fl = [e for e in st[1][1] if isinstance(e, list) and e[0] == "f"]
                    if fl and fl[-1][2] == "last" and GEN in b.local_ty(st[1][0]):
                        r1.fail("field-store:%s" % fn_short(b.path), "direct assignment to MonotonicTimestampGenerator.last", b.stmt_span(st))
    df = df_of(nb, facts)
    loads = [c for c in nb.calls_to(ATOMIC + "load") if path_last(operand_path(df, c.args[0])) == "last"]
    cass = [c for c in nb.calls_to(ATOMIC + "compare_exchange", ATOMIC + "compare_exchange_weak") if path_last(operand_path(df, c.args[0])) == "last"]
    comps = nb.calls_to(GEN + "::compute_next")
    if len(loads) != 1 or len(cass) != 1 or len(comps) != 1:
        raise AnchorLost("next_timestamp: expected one load/compute_next/compare_exchange, found %d/%d/%d" % (len(loads), len(comps), len(cass)))
    load, cas, comp = loads[0], cass[0], comps[0]
    e_load = ("call", load.bb)
    e_comp = ("call", comp.bb)
    r1.instance("cas-current-is-loaded", df.expr_of_operand(cas.args[1]) == e_load, "CAS `current` must be the value loaded in this iteration; it is " + df.fmt_expr(df.expr_of_operand(cas.args[1])), cas.span)
    r1.instance("cas-new-is-computed", df.expr_of_operand(cas.args[2]) == e_comp, "CAS `new` must be compute_next's result; it is " + df.fmt_expr(df.expr_of_operand(cas.args[2])), cas.span)
    r1.instance("compute-from-loaded", df.expr_of_operand(comp.args[1]) == e_load, "compute_next must receive the loaded value; it gets " + df.fmt_expr(df.expr_of_operand(comp.args[1])), comp.span)
    r1.instance("order-load-compute-cas", nb.dominates(load.bb, comp.bb) and nb.dominates(comp.bb, cas.bb), "load -> compute_next -> CAS in every iteration", cas.span)
    # per-iteration freshness: from the CAS, no CAS reachable again without passing load and compute
    for nm, cut in (("load", load.bb), ("compute_next", comp.bb)):
        reach = nb.reachable_after(cas.bb, removed_nodes=[cut])
        r1.instance("retry-passes-" + nm, cas.bb not in reach, "a retried CAS must be preceded by a fresh %s" % nm, cas.span)
    # R2: exits
    exits = nb.exits
    if not exits:
        raise AnchorLost("next_timestamp has no return")
    cas_local = cas.dest[0]
    for ex in exits:
        st = df.out_state(ex)
        ok = False
        why = df.fmt_state(st) if st is not None else "unreachable"
        if st is not None:
            for k, v in st.items():
                if k[0] == "call":
                    c = nb.term(k[1])
                    nm = c[1].get("def", "")
                    if nm.endswith("Result::<T, E>::is_ok") and in_set(v, {1}):
                        p = operand_path(df, c[2][0])
                        if p and p[0] == cas_local:
                            ok = True
                    if nm.endswith("Result::<T, E>::is_err") and in_set(v, {0}):
                        p = operand_path(df, c[2][0])
                        if p and p[0] == cas_local:
                            ok = True
                if k == ("disc", (cas_local, ())) and in_set(v, {0}):
                    ok = True
        r2.instance("exit-after-cas-success#bb", ok, "next_timestamp may return only where the CAS is known to have succeeded; state at exit: " + why, nb.term_span(ex))
    # returned value is the published one
    rets = [(bb, st) for bb in nb.live_blocks for st in nb.stmts(bb) if st[0] == "A" and st[1][0] == 0 and not st[1][1]]
    for bb, st in rets:
        e = df.expr_of_rvalue(st[2])
        r2.instance("returns-published-value", e == e_comp, "the returned value must be the CAS `new` operand (compute_next's result); it is " + (df.fmt_expr(e) if e else str(st[2])), nb.stmt_span(st))
    if not rets:
        r2.fail("returns-published-value", "no assignment to the return place found", nb.span)
    # failure edge re-loads
    sw = None
    for bb in nb.live_blocks:
        t = nb.term(bb)
        if t[0] == "switch":
            e = df.expr_of_operand(t[1])
            if (e[0] == "call" and nb.dominates(cas.bb, bb)) or e == ("disc", (cas_local, ())):
                sw = bb
                break
    if sw is None:
        r2.fail("cas-result-tested", "the CAS result is not tested", cas.span)
    else:
        reach = nb.reachable_after(sw, removed_nodes=[load.bb])
        # with the load removed, the only exits reachable are those on the success edge (checked above); CAS must not be reachable
        r2.instance("failure-reloads", cas.bb not in reach, "after a failed CAS the loop must re-load `last` before trying again", nb.term_span(sw))


def r3(ctx, facts):
    r = ctx.rule("R3", "compute_next returns the clock reading only where reading > last, else last + c (c >= 1)", floor=2)
    b = facts.one(r"%s::compute_next$" % GEN)
    df = df_of(b, facts)
    last = ("val", (2, ()))
    n = 0
    for bb in sorted(b.live_blocks):
        for j, st in enumerate(b.stmts(bb)):
            if not (st[0] == "A" and st[1][0] == 0 and not st[1][1]):
                continue
            n += 1
            rv = st[2]
            span = b.stmt_span(st)
            state = df.state_before_stmt(bb, j) or {}
            ok, why = False, ""
            # last + c
            add = None
            if rv[0] == "bin" and rv[1] in ("Add", "AddUnchecked"):
                add = rv
            elif rv[0] == "use" and rv[1][0] in ("c", "m") and rv[1][1][1] and rv[1][1][1][-1][0] == "f" and rv[1][1][1][-1][1] == 0:
                sd = b.single_def(rv[1][1][0])
                if sd and sd[0] == "stmt" and sd[3][0] == "bin" and sd[3][1] == "AddWithOverflow":
                    add = sd[3]
            if add is not None:
                a, c = df.expr_of_operand(add[2]), df.expr_of_operand(add[3])
                if a[0] == "const":
                    a, c = c, a
                ok = a == last and c[0] == "const" and c[1] >= 1
                why = "returns %s + %s" % (df.fmt_expr(a), df.fmt_expr(c))
                r.instance("exit:last-plus-const", ok, why + " (must be last + c, c >= 1)", span)
                continue
            e = df.expr_of_rvalue(rv)
            if e is None:
                r.fail("exit:unknown-expression", "unrecognised return expression %s" % b.fmt_rv(rv), span)
                continue
            ok = cmp_truth(state, "Gt", e, last) == 1
            r.instance("exit:clock-reading", ok, "returns %s; needs the region where it is strictly greater than `last`; state: %s" % (df.fmt_expr(e), df.fmt_state(state)), span)
    # a return value produced directly by a call (`return u_cur.max(last)`) is an exit too: it is neither `last + c` nor a
    # clock reading known to exceed `last`
    for bb, c in b.calls():
        if bb in b.live_blocks and c.dest[0] == 0 and not c.dest[1]:
            n += 1
            r.fail("exit:unknown-expression", "compute_next returns the result of %s(..): neither `last + c` nor the clock reading in the `reading > last` region (e.g. max(reading, last) repeats `last`)" % fn_short(c.name or "?"), c.span)
    if n == 0:
        raise AnchorLost("compute_next never assigns its return place")


def _own_timestamp_none(p, df, bb, gts):
    """is `statement.get_timestamp()` known to be None where block bb is entered? Also through `match (get_timestamp(), gen) {..}`"""
    stt = df.state_in.get(bb) or {}
    gdest = {gc.dest[0] for gc in gts}
    for k, v in stt.items():
        if k[0] != "disc" or not in_set(v, {0}):
            continue
        root, path = k[1]
        if not path:
            if root in gdest or (gdest & backward_slice(p, ["c", [root, []]])[0]):
                return True
            r0 = df.disc_root((root, ()))
            if r0 and r0[0] in gdest:
                return True
        elif len(path) == 1 and path[0].isdigit():
            # field i of a tuple that was built from the call's result
            for d in p.defs.get(root, []):
                if d[0] == "stmt" and d[3][0] == "agg" and d[3][1][0] == "tuple" and int(path[0]) < len(d[3][2]):
                    op = d[3][2][int(path[0])]
                    if op[0] in ("c", "m") and (op[1][0] in gdest or gdest & backward_slice(p, op)[0]):
                        return True
    return any(in_set(stt.get(("disc", df.disc_root((g, ())))), {0}) for g in gdest)


def _closure_sites(facts, cpath):
    import json as _json
    out = []
    for p in facts.bodies.mentioning(_json.dumps(cpath)):
        for bb in p.live_blocks:
            for st in p.stmts(bb):
                if st[0] == "A" and st[2][0] == "agg" and st[2][1][0] == "closure" and st[2][1][1] == cpath:
                    out.append((p, bb, st))
    return out


def _lazy_fallback(facts, body, bb, found, depth=0):
    """Is the call in block bb of `body` executed only when the statement's own timestamp is absent? Climbs through closures
    (to the combinator they are handed to) and through private helpers (to their callers). Records in `found` the place where
    the decision is made: (function, block of the or_else call | block of the guarded call, kind)."""
    if depth > 6:
        return False, "nesting too deep"
    if body.kind == "Closure" and not body.is_coroutine:
        sites = _closure_sites(facts, body.path)
        if not sites:
            return False, "closure %s is never created" % fn_short(body.path)
        for p, cbb, st in sites:
            df = df_of(p, facts)
            work, seen_l = [st[1][0]], set()
            used = False
            while work:
                g = work.pop()
                if g in seen_l:
                    continue
                seen_l.add(g)
                for ubb, kind, op in uses_of_local(p, g):
                    if kind[0] == "stmt" and kind[1][2][0] in ("use", "ref") and not kind[1][1][1]:
                        work.append(kind[1][1][0])
                        continue
                    if kind[0] != "arg":
                        return False, "the closure asking the generator escapes in %s" % fn_short(p.path)
                    used = True
                    t = p.term(ubb)
                    d = t[1].get("def", "")
                    if d.endswith("core::option::Option::<T>::or_else") and kind[1] == 1:
                        recv = df.expr_of_operand(t[2][0])
                        ok = recv[0] == "call" and (p.term(recv[1])[1].get("def", "") + (p.term(recv[1])[1].get("res") or "")).find("get_timestamp") >= 0
                        found.append((p, ubb, "or_else", ok, df.fmt_expr(recv)))
                        if not ok:
                            return False, "or_else receiver is %s, not the statement's get_timestamp()" % df.fmt_expr(recv)
                    else:
                        # handed to another combinator (`generator.as_ref().map(|g| g.next_timestamp())`): that call must be lazy itself
                        ok, why = _lazy_fallback(facts, p, ubb, found, depth + 1)
                        if not ok:
                            return False, why
            if not used:
                return False, "closure created but not used in %s" % fn_short(p.path)
        return True, ""
    # a function / request future: in the region where the statement has no timestamp of its own?
    df = df_of(body, facts)
    gts = [c for bbx, c in body.calls() if bbx in body.live_blocks and "get_timestamp" in ((c.callee.get("def") or "") + (c.callee.get("res") or ""))]
    if gts and _own_timestamp_none(body, df, bb, gts):
        found.append((body, bb, "explicit", True, "get_timestamp() == None region"))
        return True, ""
    if not body.is_coroutine and body.kind != "Closure" and not gts:
        cs = [(cb, cbb) for cb, cbb in facts.callers_of(body.path) if cb.crate == "scylla" and cbb in cb.live_blocks]
        if cs:
            for cb, cbb in cs:
                ok, why = _lazy_fallback(facts, cb, cbb, found, depth + 1)
                if not ok:
                    return False, why
            return True, ""
    return False, "next_timestamp() is reached in %s where the statement's own timestamp is not known to be absent" % fn_short(body.path)


def r5(ctx, facts):
    r = ctx.rule("R5", "generator consulted only as fallback of statement.get_timestamp(); frame timestamp is that result", floor=10)
    callers = [(b, bb) for b, bb in facts.callers_of(TRAIT_M) if b.crate == "scylla" and bb in b.live_blocks]
    if len(callers) < 1:
        raise AnchorLost("no call site of TimestampGenerator::next_timestamp in the driver")
    found = []
    failed = 0
    for cb, cbb in callers:
        ok, why = _lazy_fallback(facts, cb, cbb, found)
        if not ok:
            failed += 1
            r.instance("fallback-only-in-or_else:" + fn_short(cb.path), False,
                       "the timestamp generator must be asked solely as the lazily evaluated fallback of the statement's own timestamp "
                       "(Option::or_else on get_timestamp(), or a call in the `get_timestamp() == None` region): " + why, cb.term_span(cbb))
    decided = {}
    for p, ubb, kind, ok, txt in found:
        decided.setdefault((p.path, ubb), (p, ubb, kind, ok, txt))
    if len(decided) < 3 and not failed:
        raise AnchorLost("expected >=3 places where the generator fallback is decided (query / execute / batch), found %d" % len(decided))
    for (ppath, ubb), (p, _u, kind, ok, txt) in sorted(decided.items()):
        key = fn_short(p.path)
        df = df_of(p, facts)
        gts = [c for bbx, c in p.calls() if bbx in p.live_blocks and "get_timestamp" in ((c.callee.get("def") or "") + (c.callee.get("res") or ""))]
        orelse = ubb if kind == "or_else" else None
        explicit = ubb if kind == "explicit" else None
        r.instance("fallback-only-in-or_else:" + key, ok, "the generator is asked as the fallback of %s" % txt, p.term_span(ubb))
        if orelse is not None:
            r.instance("or_else-on-statement-timestamp:" + key, ok, "or_else receiver must be statement.get_timestamp(); it is " + txt, p.term_span(orelse))
        else:
            r.ok("or_else-on-statement-timestamp:" + key, "explicit match on get_timestamp()", p.term_span(explicit))
        # frame field
        use_bb = orelse if orelse is not None else explicit
        e_ts = ("call", use_bb)
        use_dest = p.term(use_bb)[3][0]
        n = 0
        for bb in p.live_blocks:
            for st in p.stmts(bb):
                if st[0] == "A" and st[2][0] == "agg" and st[2][1][0] == "adt" and "timestamp" in st[2][1][4]:
                    op = st[2][2][st[2][1][4].index("timestamp")]
                    n += 1
                    e = df.expr_of_operand(op)
                    # a re-sent frame may copy the field of the first frame built in the same function
                    copied = e[0] == "val" and e[1][1][-1:] == ("timestamp",) and "frame::request" in p.local_ty(e[1][0])
                    good = e == e_ts or copied
                    if not good and explicit is not None:
                        locs = backward_slice(p, op)[0]
                        good = use_dest in locs and any(gc.dest[0] in locs for gc in gts)
                    r.instance("frame-timestamp-is-or_else-result:%s:%s%s" % (key, st[2][1][1].split("::")[-1], "(copy)" if copied else ""), good,
                               "the `timestamp` field of %s must be the statement's timestamp or, failing that, the generator's; it is %s" % (st[2][1][1], df.fmt_expr(e)), p.stmt_span(st))
        if n == 0:
            r.fail("frame-timestamp:" + key, "no frame aggregate with a `timestamp` field found next to the fallback", p.span)


def r6(ctx, facts):
    r = ctx.rule("R6", "a batch the driver derives from the caller's batch (prepared copy) keeps the caller's configuration, explicit timestamp included", floor=2)
    B = "scylla::statement::batch::Batch"
    fresh = []
    for b in facts.bodies.mentioning("statement::batch::Batch"):
        if b.crate != "scylla" or b.path.startswith("scylla::statement::batch::") or b.path.startswith("<scylla::statement::batch::") or "::promoted[" in b.path:
            continue
        for bb, c in b.calls():
            if bb not in b.live_blocks:
                continue
            nm = c.name or ""
            if nm in (B + "::new", B + "::new_with_statements") or (c.decl == "core::default::Default::default" and callee_self(b, c) == B):
                fresh.append((fn_short(b.path), nm.split("::")[-1], c.span))
        for bb in b.live_blocks:
            for st in b.stmts(bb):
                if st[0] == "A" and st[2][0] == "agg" and st[2][1][0] == "adt" and st[2][1][1] == B:
                    fresh.append((fn_short(b.path), "struct literal", b.stmt_span(st)))
    r.instance("no-fresh-batch-in-the-request-path", not fresh,
               "the driver builds a Batch with default configuration in %s: whatever the caller set on the original (timestamp, consistency, idempotence, ...) is lost for the batch that is "
               "actually sent, and the timestamp generator's value replaces an explicit timestamp" % sorted({(a, k) for a, k, _ in fresh})[:3], fresh[0][2] if fresh else None)
    nf = facts.one(r"^scylla::statement::batch::Batch::new_from$")
    aggs = [st for bb in nf.live_blocks for st in nf.stmts(bb) if st[0] == "A" and st[2][0] == "agg" and st[2][1][0] == "adt" and st[2][1][1] == B]
    ok = False
    if len(aggs) == 1:
        fields = aggs[0][2][1][4]
        if "config" in fields:
            op = aggs[0][2][2][fields.index("config")]
            locs, calls, _ = backward_slice(nf, op)
            ok = 1 in locs and "config" in slice_fields(nf, op)
    r.instance("new_from-copies-config", ok, "Batch::new_from must take `config` from the batch it is given", nf.span)
    derives = [c for c in callers_keys(facts, B + "::new_from")]
    r.instance("derived-batches", True, "Batch::new_from callers: %s" % derives, nontrivial=False)


def r7(ctx, facts):
    """a timestamp the caller set on a statement is the caller's: the driver copies statement configurations around (prepare,
    cache, derived batches) but never writes the field itself. Only the three public setters store into a `timestamp` field, they
    store their argument, and no driver code calls them (seed C18-k: `Session::prepare` cleared it on the handle it returns)."""
    r = ctx.rule("R7", "the driver never overwrites a statement's explicit timestamp: the setters store their argument and are not called from driver code", floor=4)
    n = 0
    for body in facts.bodies.mentioning('"timestamp"'):
        if body.crate != "scylla" or "::promoted[" in body.path:
            continue
        for bb in sorted(body.live_blocks):
            for st in body.stmts(bb):
                if not (st[0] == "A" and st[1][1]):
                    continue
                fs = [e for e in st[1][1] if isinstance(e, list) and e[0] == "f"]
                if not fs or fs[-1][2] != "timestamp":
                    continue
                root_ty = body.local_ty(st[1][0])
                if not any(x in root_ty for x in ("statement::", "StatementConfig")):
                    continue
                n += 1
                op = st[2][1] if st[2][0] == "use" else None
                src = op[1][0] if op is not None and op[0] in ("c", "m") and not op[1][1] else None
                hops = 0
                while src is not None and src > body.argc and hops < 4:
                    d = body.single_def(src)
                    if d and d[0] == "stmt" and d[3][0] == "use" and d[3][1][0] in ("c", "m") and not d[3][1][1][1]:
                        src, hops = d[3][1][1][0], hops + 1
                    else:
                        break
                is_param = src is not None and 1 <= src <= body.argc
                copies = op is not None and op[0] in ("c", "m") and any(isinstance(e, list) and e[0] == "f" and e[2] == "timestamp" for e in op[1][1])
                r.instance("timestamp-store:" + fn_short(body.path), is_param or copies,
                           "a statement's `timestamp` is assigned something that is neither the caller's argument nor a copy of another statement's timestamp", body.stmt_span(st))
    for p in ("scylla::statement::prepared::PreparedStatement::set_timestamp", "scylla::statement::unprepared::Statement::set_timestamp", "scylla::statement::batch::Batch::set_timestamp"):
        cs = callers_keys(facts, p)
        r.instance("no-driver-caller:" + p.split("::")[-2], not cs,
                   "%s is called from %s: the driver replaces (or clears) a timestamp its caller set explicitly; the frame then carries the generator's value" % (p.split("::", 2)[-1], cs), None)
    if n < 3:
        raise AnchorLost("expected the three set_timestamp setters, found %d stores into a statement's `timestamp`" % n)


def callee_self(b, c):
    sti = c.callee.get("self_ty")
    return b.ty(sti) if sti is not None else ""


def check(ctx):
    facts = inline_view(ctx.facts("default"))
    for fn in (r1_r2, r3, r5, r6, r7):
        try:
            fn(ctx, facts)
        except AnchorLost as ex:
            ctx.rule(fn.__name__.upper() + "x", "anchors of " + fn.__name__).fail("anchor-lost", str(ex))
    ctx.assumptions += ["atomic compare_exchange semantics; total modification order of a single atomic location"]
