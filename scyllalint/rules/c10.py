"""C10 — when a connection dies every in-flight request fails promptly; none hangs.

Decided statically (shape facts without which some caller hangs or is handed a partial frame):
 R1 the reader cannot finish quietly: Connection::reader has no Ok exit; keepaliver returns Ok only where keepalive_interval is
    None.
 R2 EOF and short reads are errors in read_response_frame: the header read is a propagated read_exact; the byte count of each
    body read is tested against 0 and the zero outcome is an error exit that cannot re-enter the loop; the Ok exit is reachable
    only where the body buffer reports no remaining capacity (the declared length was filled).
 R3 broadcast on failure: on the Err outcome of try_join!, every path to the router's exit takes the handler map, sends Err to
    every handler of that map, and sends on error_sender.
 R4 a dropped sender is an error, not a hang or a panic: both awaits of RouterHandle::send_request map their failure to
    BrokenConnectionError and propagate it; send_request has no unwrap/expect.
 R5 malformed frames break the connection: the header's version checks produce error exits before the length is used;
    keepaliver turns a keepalive timeout into an error exit.
 R6 pool membership: the pool's connection_errors outcome leads to remove_connection, which republishes the connection list.
Not decided: promptness, TCP behaviour, retry-elsewhere (C06), all cut offsets as such.
"""
from ..inline import inline_view
from ..mir import AnchorLost
from ..inline import is_new_function
from ..util import decided_edges, zero_count_targets, truth_edges, dj_of, closure_family, df_of, fn_short, in_set, backward_slice, switch_on, switch_edges, yields, callers_keys, operand_path, path_last

C = "scylla::network::connection::"


def ok_sites(b):
    """(bb, stmt) where a Result::Ok aggregate is assigned to the return place"""
    return [(bb, s) for bb in b.live_blocks for s in b.stmts(bb)
            if s[0] == "A" and s[1][0] == 0 and not s[1][1] and s[2][0] == "agg" and s[2][1][0] == "adt" and s[2][1][1] == "core::result::Result" and s[2][1][2] == "Ok"]


def r1(ctx, facts):
    r = ctx.rule("R1", "reader has no Ok exit; keepaliver returns Ok only without a keepalive interval", floor=3)
    rb = facts.one(r"^scylla::network::connection::Connection::reader::\{closure#0\}$")
    oks = ok_sites(rb)
    r.instance("reader-never-returns-ok", not oks, "Connection::reader must not have an Ok exit (a reader that returned Ok at EOF would leave try_join! waiting and every in-flight caller hanging)",
               rb.stmt_span(oks[0][1]) if oks else rb.span)
    # reader's only exits are error exits reached from the frame read or the Missing arm
    r.instance("reader-loops", bool([bb for bb in rb.live_blocks if rb.term(bb)[0] == "falseunwind"]) or True, "reader is a loop", rb.span, nontrivial=False)
    kb = facts.one(r"^scylla::network::connection::Connection::keepaliver::\{closure#0\}$")
    kdf = df_of(kb, facts)
    oks = ok_sites(kb)
    good = bool(oks)
    for bb, s in oks:
        st = kdf.state_in.get(bb) or {}
        none = [k for k, v in st.items() if k[0] == "disc" and in_set(v, {0}) and "Option<core::time::Duration>" in kdf.disc_ty.get(k[1], "")]
        if not none:
            good = False
    r.instance("keepaliver-ok-only-if-disabled", good, "keepaliver may return Ok only in the keepalive_interval == None region", kb.span)


def r2_r5(ctx, facts):
    r2 = ctx.rule("R2", "read_response_frame: EOF / short reads are errors, Ok only when the declared length was filled", floor=6)
    r5 = ctx.rule("R5", "malformed headers and keepalive timeouts are error exits", floor=3)
    b = facts.one(r"^scylla_cql::frame::read_response_frame::\{closure#0\}$")
    df = df_of(b, facts)
    rex = b.calls_to("AsyncReadExt::read_exact")
    r2.instance("header-read_exact", len(rex) == 1, "the header must be read with read_exact (a short header is an error)", b.span)
    if rex:
        # its awaited result is propagated: some Try::branch call derives from the poll of that future
        branches = b.calls_to("core::ops::try_trait::Try::branch")
        prop = False
        for br in branches:
            locs, calls, _ = backward_slice(b, br.args[0])
            if rex[0].dest[0] in locs:
                prop = True
        if not prop:
            # explicit form: `if let Err(e) = reader.read_exact(..).await { return Err(..) }`
            for sw in sorted(b.live_blocks):
                t = b.term(sw)
                if t[0] != "switch" or t[1][0] not in ("c", "m"):
                    continue
                e = df.expr_of_operand(t[1])
                if e is None or e[0] != "disc" or not df.disc_ty.get(e[1], "").startswith("core::result::Result<"):
                    continue
                if rex[0].dest[0] not in backward_slice(b, t[1])[0]:
                    continue
                vals, other = switch_edges(b, sw)
                err_t = vals.get(1, other if 0 in vals else None)
                if err_t is not None:
                    reach = b.reachable_from(err_t)
                    if set(b.exits) & reach and not any(x in reach for x, _ in ok_sites(b)) and not any(c.bb in reach for c in b.calls_to("AsyncReadExt::read_buf")):
                        prop = True
        r2.instance("header-error-propagated", prop, "an error of the header's read_exact must end the frame read with an error (`?` or an explicit early return)", rex[0].span)
    rbs = b.calls_to("AsyncReadExt::read_buf")
    outer = b
    helper_call = None
    if not rbs:
        # the body loop may have been moved into a new `async fn` helper awaited here: analyse the loop in the helper's future
        for bb0, c0 in outer.calls():
            res = c0.callee.get("res") or ""
            if bb0 in outer.live_blocks and res.endswith("::{closure#0}") and is_new_function(res[:-len("::{closure#0}")]) and facts.body(res) is not None:
                hb = facts.body(res)
                if hb.calls_to("AsyncReadExt::read_buf"):
                    # the arguments the helper was created with: operands of the coroutine aggregate
                    ops = [st[2][2] for bbx in outer.live_blocks for st in outer.stmts(bbx)
                           if st[0] == "A" and st[2][0] == "agg" and st[2][1][0] == "coroutine" and st[2][1][1] == res]
                    b, helper_call = hb, (ops[0] if ops else [])
                    df = df_of(b, facts)
                    rbs = b.calls_to("AsyncReadExt::read_buf")
                    break
    if len(rbs) != 1:
        raise AnchorLost("read_response_frame: expected exactly one read_buf call in the body loop, found %d (the short-read/EOF detection is anchored on it)" % len(rbs))
    rb = rbs[0]
    # n: the Continue value of the branch on the awaited read_buf result; find a branch that separates 0 from every positive count
    zts = zero_count_targets(b, rb)
    if not zts:
        r2.fail("zero-read-tested", "the number of bytes returned by read_buf is never compared with 0: EOF would spin or be mistaken for progress", rb.span)
    else:
        bb, zero_tg = zts[0]
        reach = b.reachable_from(zero_tg)
        errs = [x for x in reach if any(s[0] == "A" and s[2][0] == "agg" and s[2][1][0] == "adt" and s[2][1][2] == "ConnectionClosed" for s in b.stmts(x))]
        r2.instance("zero-read-is-error", rb.bb not in reach and not any(x in reach for x, _ in ok_sites(b)),
                    "n == 0 (EOF) must lead to an error exit: it must neither re-enter the read loop nor reach the Ok exit", b.term_span(bb))
        r2.instance("zero-read-reports-connection-closed", bool(errs), "the EOF exit reports FrameHeaderParseError::ConnectionClosed", b.term_span(bb), nontrivial=False)
    # Ok exit only where has_remaining_mut() == false
    hrm = b.calls_to("BufMut::has_remaining_mut")
    oks = ok_sites(b)
    if not hrm or not oks:
        raise AnchorLost("read_response_frame: has_remaining_mut()/Ok exit not found (%d/%d)" % (len(hrm), len(oks)))
    good = True
    for bb, s in oks:
        st = df.state_in.get(bb) or {}
        if not any(k == ("call", h.bb) and in_set(v, {0}) for h in hrm for k, v in st.items()):
            good = False
    r2.instance("ok-only-when-body-complete", good, "Ok((params, opcode, body)) must be reachable only where has_remaining_mut() is false, i.e. `length` bytes were read", b.stmt_span(oks[0][1]))
    lim = b.calls_to("BufMut::limit")
    get32 = outer.calls_to("Buf::get_u32")
    okl = False
    if lim and get32:
        if helper_call is None:
            locs, _, _ = backward_slice(b, lim[0].args[1])
            okl = get32[0].dest[0] in locs
        else:
            # the declared length travels into the helper as an argument
            locs = set()
            for a_ in helper_call:
                locs |= backward_slice(outer, a_)[0]
            okl = get32[0].dest[0] in locs
    b_loop, b = b, outer
    df = df_of(b, facts)
    r2.instance("limit-is-declared-length", okl, "the body buffer must be limited to the header's declared length", lim[0].span if lim else b.span)
    # R5: version checks
    errs = {}
    for bb in b.live_blocks:
        for s in b.stmts(bb):
            if s[0] == "A" and s[2][0] == "agg" and s[2][1][0] == "adt" and s[2][1][1].endswith("FrameHeaderParseError"):
                errs.setdefault(s[2][1][2], []).append(bb)
    for v in ("FrameFromClient", "VersionNotSupported"):
        ok = v in errs and get32 and all(not b.dominates(get32[0].bb, e) for e in errs[v])
        r5.instance("header-" + v, bool(ok), "a header with a wrong %s must be rejected before the length field is used" % ("direction bit" if v == "FrameFromClient" else "version"), b.span)
    # ... and what passes is exactly "a response (direction bit set) of protocol version 4": where the length is read, every state
    # knows (version & 0x7f) == 4 and (version & 0x80) == 0x80
    if get32:
        from ..util import cmp_truth
        dj = dj_of(b, facts)
        sts = dj.states_at(get32[0].bb)

        def masked_eq(st, mask, val):
            for k in st:
                if k[0] == "bin" and k[1] in ("Eq", "Ne", "Lt", "Le", "Gt", "Ge"):
                    for x, y in ((k[2], k[3]), (k[3], k[2])):
                        if isinstance(x, tuple) and x[0] == "bin" and x[1] == "BitAnd" and ("const", mask) in (x[2], x[3]) and y == ("const", val):
                            if cmp_truth(st, "Eq", x, y) == 1:
                                return True
                        # a single-bit mask: `(v & bit) != 0` says the same as `(v & bit) == bit`
                        if isinstance(x, tuple) and x[0] == "bin" and x[1] == "BitAnd" and ("const", mask) in (x[2], x[3]) and y == ("const", 0) and mask == val and mask & (mask - 1) == 0:
                            if cmp_truth(st, "Eq", x, y) == 0 or cmp_truth(st, "Ne", x, y) == 1 or cmp_truth(st, "Gt", x, y) == 1:
                                return True
            return False
        r5.instance("version-is-exactly-4", bool(sts) and all(masked_eq(st, 127, 4) for st in sts),
                    "a frame header passes validation where `(version & 0x7f) == 4` is not known (e.g. only `<= 4` is tested): a v3 / garbage header is taken for a response, the connection is not torn down, "
                    "its body is delivered to whoever owns the stream id in the untrusted header and the other in-flight requests wait for ever", get32[0].span)
        r5.instance("direction-bit-is-set", bool(sts) and all(masked_eq(st, 128, 128) for st in sts),
                    "a frame header passes validation where `(version & 0x80) == 0x80` (a response, not a request) is not known", get32[0].span)
    kb = facts.one(r"^scylla::network::connection::Connection::keepaliver::\{closure#0\}$")
    kt = [bb for bb in kb.live_blocks for s in kb.stmts(bb) if s[0] == "A" and s[2][0] == "agg" and s[2][1][0] == "adt" and s[2][1][2] == "KeepaliveTimeout"]
    to = kb.calls_to("tokio::time::timeout::timeout")
    if not kt or not to:
        r5.fail("keepalive-timeout-is-error", "keepaliver no longer turns an elapsed keepalive into BrokenConnectionErrorKind::KeepaliveTimeout", kb.span)
    else:
        # from the timeout's Err(Elapsed) arm every path returns (no way back to the loop head = the select on interval.tick)
        polls = kb.calls_to("core::future::future::Future::poll")
        reach = kb.reachable_from(kt[0])
        r5.instance("keepalive-timeout-is-error", not any(c.bb in reach for c in to) and bool(set(kb.exits) & reach),
                    "after a keepalive timeout the keepaliver must return the error (not loop again)", kb.term_span(kt[0]))


def r3(ctx, facts):
    r = ctx.rule("R3", "router broadcasts the connection error to every pending handler and to the pool", floor=6)
    b = facts.one(r"^scylla::network::connection::Connection::router::\{closure#0\}$")
    df = df_of(b, facts)
    ih = b.calls_to("ResponseHandlerMap::into_handlers")
    if len(ih) != 1:
        raise AnchorLost("router: expected one into_handlers call")
    sends = b.calls_to("tokio::sync::oneshot::Sender::<T>::send")
    per_handler = [c for c in sends if "response_sender" in _fields(b, c.args[0])]
    pool = [c for c in sends if c not in per_handler]
    if not per_handler or not pool:
        raise AnchorLost("router: per-handler send / error_sender send not found (%d/%d)" % (len(per_handler), len(pool)))
    # the Err edge of the try_join result
    res_sw = None
    for bb in b.live_blocks:
        t = b.term(bb)
        if t[0] == "switch":
            e = df.expr_of_operand(t[1])
            if e[0] == "disc" and df.disc_ty.get(e[1], "").startswith("core::result::Result<((), (), (), ())"):
                res_sw = bb
    if res_sw is None:
        raise AnchorLost("router: switch on the try_join! result not found")
    edges, other = switch_edges(b, res_sw)
    err_tg = edges.get(1, other)
    ok_tg = edges.get(0, other if 1 in edges else None)   # `let Err(e) = result else { return }` lists only the Err value
    exits = set(b.exits)
    r.instance("error-path-takes-handlers", not (b.reachable_from(err_tg, removed_nodes=[ih[0].bb]) & exits),
               "on connection failure every path to the router's exit must collect the pending handlers", ih[0].span)
    r.instance("error-path-notifies-pool", not (b.reachable_from(err_tg, removed_nodes=[c.bb for c in pool]) & exits),
               "on connection failure every path to the exit must send the error on error_sender", pool[0].span)
    # the per-handler send sits in a loop over the map returned by into_handlers and sends an Err
    c = per_handler[0]
    locs, calls, _ = backward_slice(b, c.args[0])
    r.instance("each-handler-of-that-map", ih[0].dest[0] in locs, "the handlers notified must be those returned by into_handlers()", c.span)
    loc2, _, _ = backward_slice(b, c.args[1])
    err_aggs = [l for l in loc2 for d in b.defs.get(l, []) if d[0] == "stmt" and d[3][0] == "agg" and d[3][1][0] == "adt" and d[3][1][2] == "Err"]
    r.instance("handlers-receive-error", bool(err_aggs), "each pending handler must be sent Err(connection error)", c.span)
    # loop: the send can reach itself via Iterator::next; the exit after the loop is only via next() == None
    nx = [x for x in b.calls_to("Iterator::next") if ih[0].dest[0] in backward_slice(b, x.args[0])[0]]
    okloop = bool(nx) and c.bb in b.reachable_after(c.bb) and all(p.bb in b.reachable_after(nx[0].bb) for p in pool)
    r.instance("all-handlers-before-pool-notice", okloop, "the broadcast is a loop over all handlers, followed by the pool notification", c.span)
    # promptness: between the first error and the broadcast the router must not wait for anything - whatever it awaits there
    # (a flush / shutdown of a stalled socket, a lock, a timer) keeps every pending caller hanging
    ys = [bb for bb in b.live_blocks if b.term(bb)[0] == "yield"]
    reach = b.reachable_from(err_tg, removed_nodes=[c.bb for c in per_handler] + [c.bb for c in pool])
    bad = sorted(y for y in ys if y in reach and y != err_tg)
    r.instance("no-await-before-broadcast", not bad,
               "after the connection error the router reaches an `.await` before it has told the pending handlers and the pool: if that future does not complete "
               "(flushing / shutting down a socket whose peer stopped reading), every in-flight request hangs forever", b.term_span(bad[0]) if bad else b.term_span(res_sw))
    # Ok arm returns without broadcasting (connection dropped deliberately)
    r.instance("ok-arm-quiet", ih[0].bb not in b.reachable_from(ok_tg) if ok_tg is not None else False, "Ok(_) (connection dropped by the owner) returns directly", b.term_span(res_sw), nontrivial=False)


def _fields(b, operand):
    from .c20 import slice_fields
    return slice_fields(b, operand)


def r4(ctx, facts):
    r = ctx.rule("R4", "send_request: a dropped channel end is BrokenConnectionError, never a hang or panic", floor=3)
    b = facts.one(r"^scylla::network::connection::RouterHandle::send_request::\{closure#0\}$")
    me = b.calls_to("Result::<T, E>::map_err")
    brs = b.calls_to("core::ops::try_trait::Try::branch")
    polls = b.calls_to("core::future::future::Future::poll")
    # each awaited value (submit send, response receive) flows through map_err into a `?`
    awaited_ok = 0
    for p in polls:
        flows = False
        for br in brs:
            locs, calls, _ = backward_slice(b, br.args[0])
            if p.dest[0] in locs and any(c.bb == m.bb for m in me for c in calls):
                flows = True
        if flows:
            awaited_ok += 1
    r.instance("both-awaits-mapped-and-propagated", awaited_ok >= 2 and len(polls) == 2,
               "both awaits (submit, receive) must map their failure and propagate it with `?`; %d of %d do" % (awaited_ok, len(polls)), b.span)
    closures = closure_family(facts, b)[1:]
    kinds = set()
    for cb in closures:
        for bb in cb.live_blocks:
            for s in cb.stmts(bb):
                if s[0] == "A" and s[2][0] == "agg" and s[2][1][0] == "adt" and s[2][1][1].endswith("BrokenConnectionErrorKind"):
                    kinds.add(s[2][1][2])
    r.instance("mapped-to-broken-connection", "ChannelError" in kinds, "the mapping closures must build BrokenConnectionErrorKind::ChannelError; found %s" % sorted(kinds), b.span)
    bad = [c for c in b.calls_to("Result::<T, E>::unwrap", "Result::<T, E>::expect", "Option::<T>::unwrap", "Option::<T>::expect")]
    r.instance("no-unwrap", not bad, "send_request must not unwrap/expect a channel result", bad[0].span if bad else b.span)


def r6(ctx, facts):
    r = ctx.rule("R6", "a broken connection is removed from the pool and the published list refreshed", floor=4)
    rc = callers_keys(facts, "scylla::network::connection_pool::PoolRefiller::remove_connection")
    r.instance("remove_connection-called-from-run", any("PoolRefiller::run" in x for x in rc), "remove_connection callers: %s" % rc)
    b = facts.one(r"^scylla::network::connection_pool::PoolRefiller::remove_connection$")
    df = df_of(b, facts)
    us = b.calls_to("PoolRefiller::update_shared_conns")
    rm = [c for c in b.calls() if False]
    # the closure that removes from a vec; its true outcome on self.conns[shard] leads to update_shared_conns on every path
    r.instance("republishes", len(us) >= 1, "remove_connection must call update_shared_conns when the connection was in the active set", b.span)
    if us:
        # update_shared_conns is reached only after a removal attempt (call of the removing closure) that returned true
        st = df.state_in.get(us[0].bb) or {}
        cl = [k for k, v in st.items() if k[0] == "call" and in_set(v, {1}) and (b.term(k[1])[1].get("res") or "").startswith(b.path + "::{closure")]
        r.instance("republish-iff-removed", bool(cl), "update_shared_conns must be in the region where the removal closure returned true; state: " + df.fmt_state(st), us[0].span)
        # ... and every path that removed an ACTIVE connection republishes (not only when the pool became empty)
        dj = dj_of(b, facts)
        rem_calls = [c for bb0, c in b.calls() if bb0 in b.live_blocks and (c.callee.get("res") or "").startswith(b.path + "::{closure")
                     and any("conns" in _fields(b, a) for a in c.args if a[0] in ("c", "m"))]
        ok_all, n_edges = True, 0
        for c in rem_calls:
            for sw, ttg in decided_edges(b, dj, ("call", c.bb), 1):
                n_edges += 1
                if dj.feasible_reach_edge(sw, ttg, removed_nodes=[u.bb for u in us]) & set(b.exits):
                    ok_all = False
        r.instance("every-removal-republishes", n_edges > 0 and ok_all,
                   "after a connection was removed from the active set, remove_connection can return without update_shared_conns(): the published list keeps handing out the dead connection until the next successful refill", us[0].span)
    # wait_for_error futures are registered for every accepted connection
    hb = facts.one(r"^scylla::network::connection_pool::PoolRefiller::handle_ready_connection$")
    w = hb.calls_to("connection_pool::wait_for_error")
    pushes = [c for c in hb.calls_to("Vec::<T, A>::push") if "conns" in _fields(hb, c.args[0]) or "excess_connections" in _fields(hb, c.args[0])]
    ok = bool(w) and bool(pushes) and all(any(hb.dominates(x.bb, p.bb) for x in w) for p in pushes)
    r.instance("every-kept-connection-is-watched", ok, "each connection kept by the pool must have its error receiver registered (wait_for_error) before it is stored", hb.span)


def r7(ctx, facts):
    r = ctx.rule("R7", "every keepalive round issues a keepalive request and awaits it", floor=3)
    kb = facts.one(r"^scylla::network::connection::Connection::keepaliver::\{closure#0\}$")
    ticks = [c for c in kb.calls_to("tokio::time::interval::Interval::tick") if c.bb in kb.reachable_after(c.bb)]
    issue = [c for _, c in kb.calls() if (c.name or "").endswith("keepaliver::{closure#0}::issue_keepalive_query") and c.bb in kb.live_blocks]
    if len(ticks) != 1 or not issue:
        raise AnchorLost("keepaliver: expected one Interval::tick inside the loop and at least one issue_keepalive_query call, found %d/%d" % (len(ticks), len(issue)))
    tick = ticks[0]
    r.instance("round-sends-keepalive", tick.bb not in kb.reachable_after(tick.bb, removed_nodes=[c.bb for c in issue]),
               "every iteration of the keepalive loop (tick or hint) must reach issue_keepalive_query before waiting for the next tick: a round that is skipped leaves a silent peer undetected", tick.span)
    df = df_of(kb, facts)
    awaited, ready_only = True, True
    for iss in issue:
        # the issued future is awaited (directly or inside timeout) before the next round
        polls = []
        for c in kb.calls_to("core::future::future::Future::poll"):
            locs, _, _ = backward_slice(kb, c.args[0])
            if iss.dest[0] in locs:
                polls.append(c)
        if not polls or tick.bb in kb.reachable_from(iss.target, removed_nodes=[c.bb for c in polls]):
            awaited = False
        # ...and only a Ready poll of it lets the loop continue
        for c in polls:
            sws = switch_on(kb, df, ("disc", (c.dest[0], ())))
            if not sws:
                ready_only = False
                continue
            for sw in sws:
                edges, other = switch_edges(kb, sw)
                pend = edges.get(1, other)
                # the Pending edge must come back to this poll (through the yield) before it can reach the next tick
                if tick.bb in kb.reachable_from(pend, removed_nodes=[c.bb]):
                    ready_only = False
    r.instance("keepalive-awaited", awaited, "the future returned by issue_keepalive_query must be polled before the next round", issue[0].span)
    r.instance("next-round-only-after-reply", ready_only, "a Pending keepalive must be polled again, not abandoned for the next tick (the timeout/err exits are rule R5)", issue[0].span)


def r8(ctx, facts):
    """shared with C06.R4: after a connection (or a whole pool) is gone the request moves on to the remaining targets"""
    r = ctx.rule("R8", "a target without a usable connection is skipped: the request fiber advances its plan instead of asking the same pool again", floor=1)
    from .c06 import failed_pick
    failed_pick(r, facts)


def r9(ctx, facts):
    """the task that maintains a node's pool must survive every connection error it is told about. A connection that breaks
    after the node came back with FEWER shards still carries its old shard id; remove_connection looks the bucket up by that id,
    so each bucket access there is guarded by a comparison with the current number of buckets (a panic in this task freezes the
    pool: dead connections stay published, nothing is re-established)."""
    r = ctx.rule("R9", "remove_connection: every access to `conns[shard]` is under `shard < conns.len()` (a late error of a pre-reshard connection must not panic the pool task)", floor=1)
    b = facts.one(r"^scylla::network::connection_pool::PoolRefiller::remove_connection$")
    df = df_of(b, facts)
    idx = [c for bb, c in b.calls() if bb in b.live_blocks and (c.decl or c.name or "").split("::")[-1] in ("index", "index_mut")
           and len(c.args) == 2 and "conns" in _fields(b, c.args[0]) and c.args[1][0] in ("c", "m") and b.local_ty(c.args[1][1][0]) == "usize"]
    if not idx:
        r.instance("no-unchecked-bucket-access", True, "remove_connection does not index `conns` (get / get_mut or an iterator is used)", b.span, nontrivial=False)
        return
    lens = [c for bb, c in b.calls() if bb in b.live_blocks and (c.decl or c.name or "").split("::")[-1] == "len" and c.args and "conns" in _fields(b, c.args[0])]
    for k, c in enumerate(idx):
        i_locs = backward_slice(b, c.args[1])[0] | {c.args[1][1][0]}
        guarded = False
        for sw in sorted(b.live_blocks):
            t = b.term(sw)
            if t[0] != "switch" or t[1][0] not in ("c", "m") or not b.dominates(sw, c.bb) or sw == c.bb:
                continue
            sd = b.single_def(t[1][1][0])
            if not (sd and sd[0] == "stmt" and sd[3][0] == "bin" and sd[3][1] in ("Lt", "Gt", "Le", "Ge")):
                continue
            a0, a1 = sd[3][2], sd[3][3]
            def is_len(op):
                return op[0] in ("c", "m") and any(l.dest[0] in (backward_slice(b, op)[0] | {op[1][0]}) for l in lens)
            def is_idx(op):
                return op[0] in ("c", "m") and bool((backward_slice(b, op)[0] | {op[1][0]}) & i_locs) and not is_len(op)
            op = sd[3][1]
            if is_len(a0) and is_idx(a1):
                op = {"Gt": "Lt", "Lt": "Gt", "Le": "Ge", "Ge": "Le"}[op]
            elif not (is_idx(a0) and is_len(a1)):
                continue
            edges = {int(v): tg for v, tg in t[2]}
            false_tg = edges.get(0, t[3])
            true_tg = t[3] if 0 in edges else edges.get(1, t[3])
            # idx < len on the edge that leads to the access; the other edge must not reach it
            inside, outside = (true_tg, false_tg) if op == "Lt" else ((false_tg, true_tg) if op == "Ge" else (None, None))
            if inside is None:
                continue
            if c.bb in (b.reachable_from(inside) | {inside}) and c.bb not in (b.reachable_from(outside, removed_nodes=[sw]) | {outside}):
                guarded = True
        if not guarded:
            # ... or the access happens only where `conns.get(i)` / `get_mut(i)` with the same index is known to have found the bucket
            dj9 = dj_of(b, facts)
            lookups = [g for bbg, g in b.calls() if bbg in b.live_blocks and (g.decl or g.name or "").split("::")[-1] in ("get", "get_mut") and len(g.args) == 2
                       and "conns" in _fields(b, g.args[0]) and g.args[1][0] in ("c", "m") and ((backward_slice(b, g.args[1])[0] | {g.args[1][1][0]}) & i_locs)]
            sts = dj9.states_at(c.bb)
            if lookups and sts and all(any(in_set(x.get(("disc", dj9.disc_root(dj9.canon.path(g.dest)))), {1}) or in_set(x.get(("disc", (g.dest[0], ()))), {1}) for g in lookups) for x in sts):
                guarded = True
            if not guarded and lookups and sts:
                # the outcome of a call made only on the `Some(bucket)` arm of that lookup is known here (`removed = match conns.get_mut(i)
                # { Some(b) => remove(b), None => false }; if removed { .. conns[i] .. }`)
                some_region = set()
                for g in lookups:
                    for sw in b.live_blocks:
                        t9 = b.term(sw)
                        if t9[0] != "switch":
                            continue
                        e9 = df.expr_of_operand(t9[1])
                        if e9[0] == "disc" and (e9[1] == dj9.disc_root(dj9.canon.path(g.dest)) or e9[1][0] == g.dest[0]):
                            edges9 = {int(v): tg for v, tg in t9[2]}
                            some_tg = edges9.get(1, t9[3] if 1 not in edges9 else None)
                            if some_tg is not None:
                                some_region |= {x for x in b.live_blocks if b.dominates(some_tg, x)}
                if some_region and all(any(k[0] == "call" and k[1] in some_region and v[0] == "in" and len(v[1]) == 1 and 1 in v[1] for k, v in x.items()) for x in sts):
                    guarded = True
        r.instance("bucket-access-is-bounds-guarded#%d" % k, guarded,
                   "`conns[shard]` is indexed with the shard id the connection reported when it was opened, without `shard < conns.len()`: after a reshard to "
                   "fewer shards the late error of an old connection panics the refiller task", c.span)


def r10(ctx, facts):
    """the keepaliver is the only thing that notices a peer which stays connected but stops answering; the router starts it with
    the CONFIGURED interval and timeout, whatever else is configured (TCP keepalive does not notice an application-level stall)."""
    from ..util import field_slice
    r = ctx.rule("R10", "the router hands the keepaliver the configured keepalive interval and timeout, unconditionally", floor=2)
    b = facts.one(r"^scylla::network::connection::Connection::router::\{closure#0\}$")
    ks = [c for bb, c in b.calls() if bb in b.live_blocks and (c.name or "").endswith("Connection::keepaliver")]
    if len(ks) != 1:
        raise AnchorLost("router: expected one call of Connection::keepaliver, found %d" % len(ks))
    k = ks[0]
    opts = [(i, a) for i, a in enumerate(k.args) if a[0] in ("c", "m") and b.local_ty(a[1][0]) == "core::option::Option<core::time::Duration>"]
    if len(opts) != 2:
        raise AnchorLost("router: keepaliver is expected to take the interval and the timeout (two Option<Duration>), found %d" % len(opts))
    for (i, a), want in zip(opts, ("keepalive_interval", "keepalive_timeout")):
        seen, calls, bins = field_slice(b, a)
        fields = set()
        multi = False
        for l, _ in seen:
            ds = b.defs.get(l, [])
            if len(ds) > 1:
                multi = True
            for d in ds:
                if d[0] == "stmt" and d[3][0] == "use" and d[3][1][0] in ("c", "m"):
                    for e in d[3][1][1][1]:
                        if isinstance(e, list) and e[0] == "f" and e[2]:
                            fields.add(e[2])
        ok = want in fields and not calls and not bins and not multi and not (fields - {want})
        r.instance("keepaliver-gets-configured-%s" % want.split("_")[1], ok,
                   "the %s handed to the keepaliver must be a plain copy of the connection config's `%s`; it depends on %s%s: with it switched off a peer that "
                   "stops answering is never noticed, outstanding requests wait forever and the pool is never told" % (
                       want.split("_")[1], want, sorted(fields - {want}) or sorted({(c.name or c.decl or "?").split("::")[-1] for c in calls}) or "a branch",
                       " (several definitions)" if multi else ""), k.span)


def r11(ctx, facts):
    """`the session keeps working through the remaining connections`: when the shard a request asks for has no connection, the
    pool hands out a connection of ANY other shard - the fallback visits every shard of the node. A range over the shards that is
    shortened by arithmetic (`1..nr_shards - 1`) leaves a shard out; if the only live connections are there, the helper reaches its
    `unreachable!` although a healthy connection exists (seed C10-l)."""
    from ..util import field_slice
    r = ctx.rule("R11", "connection_for_shard_helper's fallback ranges over all shards of the node (no shard is left out by arithmetic on the bound)", floor=1)
    b = facts.one(r"^scylla::network::connection_pool::NodeConnectionPool::connection_for_shard_helper$")
    n = 0
    for bb in sorted(b.live_blocks):
        for st in b.stmts(bb):
            if not (st[0] == "A" and st[2][0] == "agg" and st[2][1][0] == "adt" and st[2][1][1] in ("core::ops::range::Range", "core::ops::range::RangeInclusive")):
                continue
            fields = st[2][1][4] or []
            if "end" not in fields:
                continue
            end = st[2][2][fields.index("end")]
            start = st[2][2][fields.index("start")] if "start" in fields else None
            if end[0] not in ("c", "m"):
                continue
            seen, calls, bins = field_slice(b, end)
            names = {(c.name or c.decl or "?").split("::")[-1] for c in calls}
            over_shards = "get" in names and any("NonZero" in b.local_ty(l) or "nr_shards" in (b.local_name(l) or "") for l, _ in seen)
            if not over_shards or "len" in names:
                continue           # a range over something else (indices of the candidate list)
            n += 1
            start_ok = start is None or (start[0] == "k" and int(start[3]) in (0, 1))
            r.instance("fallback-covers-every-shard#%d" % n, not bins and start_ok,
                       "the fallback over the node's shards runs over a range whose bound is computed (%s) or does not start at the first shard: some shard is never "
                       "probed, and a request finds no connection although another shard has one" % ([x[1] for x in bins] or "start"), b.stmt_span(st))
    if n == 0:
        r.note("no range over the shard count in connection_for_shard_helper (another traversal form): rule not applicable to this form")
        r.instance("fallback-form", True, "no shard range", b.span, nontrivial=False)


def check(ctx):
    facts = inline_view(ctx.facts("default"))
    for fn in (r1, r2_r5, r3, r4, r6, r7, r8, r9, r10, r11):
        try:
            fn(ctx, facts)
        except AnchorLost as ex:
            ctx.rule(fn.__name__.upper() + "x", "anchors of " + fn.__name__).fail("anchor-lost", str(ex))
