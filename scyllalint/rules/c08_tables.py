"""Reviewed tables for C08. Every entry was confirmed by reading the code it names; the text is the guard that makes the
site unreachable for wire input. Keys are (definition-site function key, kind) -> (max distinct sites, reason)."""
from . import c08

A = c08.add
HDR = "the buffer is the 9-byte header array `[0u8; HEADER_SIZE]`; the reads sum to 1+1+2+1+4 = 9 bytes"
F = "frame::read_response_frame{closure}"
A(F, "call:Buf::get_u8", 3, HDR)
A(F, "call:Buf::get_i16", 1, HDR)
A(F, "call:Buf::get_u32", 1, HDR)
A(F, "call:Index<I> for [T; N]>::index", 1, "full-range slice `[..]` of the header array")
A(F, "call:IndexMut<I> for [T; N]>::index_mut", 1, "full-range slice `[..]` of the header array")
E = "frame::parse_response_body_extensions"
A(E, "call:Buf>::advance", 3, "advance(16) follows a successful read_uuid of the same bytes; advance(body_len - buf_len) where buf is a suffix of body")
A(E, "assert:Overflow:Sub", 2, "body_len - buf_len: buf is a suffix view of body, so buf_len <= body_len")
A("types::read_raw_bytes", "call:<impl [T]>::split_at", 2, "dominated by `if buf.len() < count { return Err }` (both copies: scylla-cql and scylla-cql-core)",
  guard=("cmp-dominates", ("Lt", "Ge", "Le", "Gt")))
A("types::read_uuid", "call:<T, E>::unwrap", 1, "try_into::<&[u8;16]> of the 16 bytes read_raw_bytes(16) just returned",
  guard=("calls", "types::read_uuid", "read_raw_bytes"))
A("types::read_string_list_iter{closure}", "assert:Overflow:Sub", 1, "`remaining -= 1` after `if remaining == 0 { return None }`")
V = "types::unsigned_vint_decode"
A(V, "assert:Overflow:Shr", 1, "0xff >> extra_bytes with extra_bytes = leading_ones() != 8, i.e. 0..=7")
A(V, "assert:Overflow:Mul", 1, "8 * extra_bytes <= 56")
A(V, "assert:Overflow:Shl", 1, "shift by 8 * extra_bytes <= 56 < 64")
A(V, "assert:Overflow:Add", 1, "high part has its low 8*extra_bytes bits clear; read_uint(extra_bytes) < 2^(8*extra_bytes): no carry out of 64 bits")
A("types::zig_zag_decode", "assert:OverflowNeg", 1, "operand is (v & 1) as i64, i.e. 0 or 1")
A("ParserState::take_while", "call:Index<I> for str>::index", 2, "idx comes from str::find (a char boundary) or is s.len()")
A("CustomTypeParser::from_hex{closure}", "call:<T, E>::unwrap", 1, "every char was checked to be an ASCII hex digit before chunking, so each 2-byte chunk is valid UTF-8",
  guard=("calls", "CustomTypeParser::from_hex", "is_ascii_hexdigit"))
A("CustomTypeParser::get_n_type_parameters{closure}", "call:<T, E>::unwrap", 1, "re-runs get_type_parameters on a copy of the parser state on which it just succeeded (deterministic)")
A("FrameSlice::to_bytes", "call:Bytes::slice_ref", 1, "FrameSlice invariant: frame_subslice is always a subslice of original_frame (empty original handled just above)")
A("SelfBorrowedMetadataContainer::make_deserialized_metadata", "call:Bytes::slice_ref", 1, "raw_rows is the unread suffix of the very Bytes stored in the cart")
A("result::deserialize_with_features", "call:Bytes::slice_ref", 1, "buf is the unread suffix of buf_bytes")
L = "RawRowLendingIterator::next"
A(L, "call:Index<I> for [T]>::index", 1, "self.at only grows by the number of bytes actually consumed from raw_rows[self.at..], so at <= len")
A(L, "assert:Overflow:Add", 1, "self.at + consumed <= raw_rows.len()")
A(L, "assert:Overflow:Sub", 1, "len before a read minus len after the read of the same slice")
A("ColumnIterator::next[Iterator]", "call:<T>::expect", 1, "RangeFrom<usize> exhausts only after usize::MAX columns; the column count is bounded by the 32-bit col_count")
A("bool::deserialize[DeserializeValue]{closure}", "assert:BoundsCheck", 1, "arr is the &[u8; 1] returned by ensure_exact_length::<_, 1>, index 0")
A("MapIterator<K, V>::deserialize[DeserializeValue]", "assert:Overflow:Mul", 1, "2 * count with count <= i32::MAX from read_int_length (usize is 64-bit on supported targets)")
A("RawTablet::from_custom_payload", "assert:Overflow:Add", 1, "first_token + 1 in the region where first_token < last_token <= i64::MAX")
# sites that exist only under the optional chrono-04 / time-03 features (thorough tier, config `full`)
A("Date::deserialize[DeserializeValue]{closure}", "call:<T, E>::unwrap", 1, "time::Date::from_calendar_date(1970, January, 1).unwrap(): constant arguments, independent of the frame")
A("NaiveDate::deserialize[DeserializeValue]{closure}", "call:<T>::unwrap", 1, "chrono::NaiveDate::from_ymd_opt(1970, 1, 1).unwrap(): constant arguments, independent of the frame")
A("OffsetDateTime::deserialize[DeserializeValue]{closure}", "assert:Overflow:Mul", 1, "`millis as i128 * 1_000_000` with millis: i64; |product| < 2^63 * 2^20 < 2^127")
A("value::get_days_since_epoch_from_date_column", "assert:Overflow:Sub", 1, "`days as i64 - (1 << 31)` with days: u32; result in [-2^31, 2^31)")
UNR = "the arm is `unreachable!(\"type check should have prevented this\")`; rule R2 shows the shapes reaching it are exactly those type_check rejects"
for t in ("ListlikeIterator<T>", "MapIterator<K, V>", "UdtIterator", "Vec<T>", "VectorIterator<T>"):
    A(t + "::deserialize[DeserializeValue]", "call:panicking::panic_fmt", 1, UNR)
A("macro:impl_tuple_multiple@value.rs", "call:<T, E>::expect", 1, "ensure_tuple_type(typ).expect(..): R2 shows every shape type_check accepts makes ensure_tuple_type succeed")
A("macro:impl_tuple_multiple@row.rs", "call:panicking::panic_fmt", 1, "column count mismatch asserts in tuple DeserializeRow::deserialize: type_check compared specs.len() with the arity")
A("macro:impl_tuple_multiple@row.rs", "assert:BoundsCheck", 1, "slice pattern `[c0, .., cN]` indexing after the length test generated by the pattern")
DER = "code generated by #[derive(DeserializeRow)]: panics say 'type check should have prevented this' and are guarded by the generated type_check (column names/count verified first)"
A("macro:DeserializeRow@fetching.rs", "call:panicking::panic_fmt", 4, DER)
A("macro:DeserializeRow@fetching.rs", "assert:Overflow:Sub", 4, "generated `remaining_required_fields -= 1` style counters initialised to the number of fields")
A("macro:DeserializeRow@tracing.rs", "call:panicking::panic_fmt", 2, DER)
A("macro:DeserializeRow@tracing.rs", "assert:Overflow:Sub", 2, "generated required-field counters initialised to the number of fields")

# allocation sites whose 32-bit origin is acceptable (none today: the two repaired sites are clamped, the other two are findings)
c08.REVIEWED_ALLOC.update({})

# recursion: representative member -> what bounds the depth
c08.REVIEWED_SCC.update({
    "result::deser_type_generic": "UNBOUNDED: recursion depth equals the nesting of list/set/map/tuple/udt type ids in the frame (2 bytes per level, no depth bound)",
    "CustomTypeParser::do_parse": "UNBOUNDED: recursion depth equals the nesting of ListType(/MapType(/... in a custom type NAME from the frame (no depth bound)",
    "ColumnType::type_size_for_vector": "depth of an already decoded ColumnType (bounded by whatever bounds deser_type_generic)",
    "ColumnType::into_owned": "depth of an already decoded ColumnType",
    "CollectionType::into_owned": "depth of an already decoded ColumnType",
    "Vec<T>::type_check[DeserializeValue]": "generic recursion over the Rust carrier type (finite by monomorphisation); the dynamic CqlValue arm follows the decoded ColumnType depth",
    "Vec<T>::deserialize[DeserializeValue]": "generic recursion over the Rust carrier type; CqlValue follows the decoded ColumnType depth",
    "CqlValue::type_check[DeserializeValue]": "decoded ColumnType depth",
    "CqlValue::deserialize[DeserializeValue]": "decoded ColumnType depth",
    "BuiltinDeserializationError::clone[Clone]": "derived Clone over error enums that box/Arc each other: data-structure depth, errors are built by the decoder itself with bounded nesting",
    "DeserializationError::clone[Clone]": "derived Clone over error types",
})
