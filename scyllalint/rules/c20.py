"""C20 — after USE keyspace succeeds, all requests run on connections in that keyspace.

Decided statically:
 R1 gate on publication: PoolRefiller.conns is pushed to only in handle_ready_connection; every path to that push leaves the
    keyspace test through `current_keyspace == None` or through the 'equal' outcome of a comparison between the pool's
    current_keyspace and the keyspace recorded on the connection event; the 'different' outcome routes the connection through
    start_setting_keyspace_for_connection and cannot reach the push; update_shared_conns publishes only `conns`.
 R2 keyspace recorded before fan-out: PoolRefiller::use_keyspace stores current_keyspace before it snapshots conns; the cluster
    worker stores node_config.used_keyspace before spawning the fan-out.
 R3 await all: the fan-outs map over all nodes / all pool connections and await join_all; the reply is sent only afterwards.
 R4 the setup path re-enters the gate: the event built by start_setting_keyspace_for_connection carries
    keyspace_name = Some(the keyspace it set) and its result is the mapped outcome of the awaited use_keyspace
    (failure -> ConnectionSetupError::Keyspace).
 R5 validated names only: VerifiedKeyspaceName is constructed only in VerifiedKeyspaceName::new after
    verify_keyspace_name_is_valid succeeded; the USE statement is formatted only from as_str(); the response name is compared
    before Ok is returned.
Not decided: races between refill and callers as such; server behaviour.
"""
from ..inline import inline_view
from ..mir import AnchorLost
from ..dataflow import DisjFlow, adt_of_type
from ..util import closure_family, dj_of, enum_variant_of_operand, df_of, fn_short, in_set, operand_path, path_last, backward_slice, field_writers, callers_keys, switch_on, switch_edges, yields, _rv_locals

P = "scylla::network::connection_pool::"
VK = "scylla::network::connection::VerifiedKeyspaceName"


def slice_fields(b, operand):
    """field names mentioned by the places that an operand's value derives from"""
    locs, calls, _ = backward_slice(b, operand)
    out = set()

    def scan(x):
        if isinstance(x, list):
            if len(x) >= 3 and x[0] == "f" and isinstance(x[2], str):
                out.add(x[2])
            for y in x:
                scan(y)
    for l in locs:
        for d in b.defs.get(l, []):
            if d[0] == "stmt":
                scan(d[3])
            elif d[0] == "call":
                for a in d[2].args:
                    scan(a)
    scan(operand)
    return out


def r1(ctx, facts):
    r = ctx.rule("R1", "a connection is published only if it carries the pool's current keyspace", floor=7)
    w = field_writers(facts, P + "PoolRefiller", ["conns"])
    pushers = []
    for b in facts.bodies.mentioning('"conns"'):
        if b.crate != "scylla" or "PoolRefiller" not in b.path:
            continue
        df = df_of(b, facts)
        for c in b.calls_to("Vec::<T, A>::push", "Vec::<T>::push"):
            _, calls, _ = backward_slice(b, c.args[0])
            flds = slice_fields(b, c.args[0])
            if "conns" in flds and "Connection" in b.local_ty(c.args[1][1][0]) if c.args[1][0] in ("c", "m") else False:
                pushers.append((b, c))
    names = sorted({fn_short(b.path) for b, _ in pushers})
    r.instance("who-pushes-connections", names == ["PoolRefiller::handle_ready_connection"], "connections are pushed into PoolRefiller.conns by %s" % names)
    if not pushers:
        raise AnchorLost("no push into PoolRefiller.conns found")
    b, push = [(b, c) for b, c in pushers if fn_short(b.path) == "PoolRefiller::handle_ready_connection"][0]
    df = df_of(b, facts)
    # the comparison between evt.keyspace_name and self.current_keyspace
    cmps = []
    for bb, c in b.calls():
        if bb not in b.live_blocks or c.decl not in ("core::cmp::PartialEq::ne", "core::cmp::PartialEq::eq"):
            continue
        f = set()
        for a in c.args:
            f |= slice_fields(b, a)
        if "keyspace_name" in f and "current_keyspace" in f:
            cmps.append(c)
    st_calls = b.calls_to("PoolRefiller::start_setting_keyspace_for_connection")
    r.instance("gate-compares-keyspaces", bool(cmps), "handle_ready_connection must compare the keyspace the connection was set up with (evt.keyspace_name) with self.current_keyspace before publishing it", b.span)
    r.instance("mismatch-routed-to-setup", bool(st_calls), "handle_ready_connection must be able to route a connection through start_setting_keyspace_for_connection", b.span)
    if not cmps or not st_calls:
        return
    # The gate, independent of its syntactic form (if-let chain, match into a boolean, early return ...):
    # S = blocks from which keyspace setup is still reachable. A path to the push leaves S through a "decline" edge; on each
    # such edge every disjunctive abstract state must say `current_keyspace is None` or `the comparison came out equal`.
    setup_bbs = {c.bb for c in st_calls}
    S = {bb for bb in b.live_blocks if setup_bbs & (b.reachable_from(bb) | {bb})}
    r.instance("publish-after-gate", push.bb not in S, "the push into conns must come after the decision whether keyspace setup is needed", push.span)
    dj = DisjFlow(b, facts)

    def ok_state(st):
        for k, v in st.items():
            if k[0] == "disc" and k[1][1][-1:] == ("current_keyspace",) and in_set(v, {0}):
                return True      # no keyspace set on the pool
        for c in cmps:
            v = st.get(("call", c.bb))
            if in_set(v, {1 if c.decl.endswith("::eq") else 0}):
                return True      # evt.keyspace_name == current_keyspace
        return False
    decline = [(u, v) for u in S for v in b.succ[u] if v not in S and v in b.live_blocks and (push.bb == v or push.bb in b.reachable_from(v))]
    bad = []
    for u, v in decline:
        for stt in dj.states_on_edge(u, v):
            if not ok_state(stt):
                bad.append((u, v, dj.fmt_state(stt)[:300]))
    r.instance("current-keyspace-tested", any(k[0] == "disc" and k[1][1][-1:] == ("current_keyspace",) for fs in dj.edge_sets.values() for st2 in fs for k, _ in st2),
               "handle_ready_connection must branch on self.current_keyspace", b.span)
    r.instance("push-only-if-keyspace-matches", bool(decline) and not bad,
               "a path reaches the push into conns without keyspace setup although neither `current_keyspace == None` nor `evt.keyspace_name == current_keyspace` is established on it: %s" % (bad[:2],),
               push.span)
    # update_shared_conns publishes only `conns`
    ub = facts.one(r"^scylla::network::connection_pool::PoolRefiller::update_shared_conns$")
    clones = [c for c in ub.calls_to("core::clone::Clone::clone") if "Connection" in ub.local_ty(c.dest[0])]
    srcs = set()
    for c in clones:
        srcs |= slice_fields(ub, c.args[0]) & {"conns", "ready_connections", "connection_errors"}
    r.instance("published-set-is-conns", srcs == {"conns"}, "update_shared_conns must publish exactly self.conns; it clones from %s" % sorted(srcs), ub.span)
    bad = sorted(x for x in w if x[0] not in ("PoolRefiller::new", "PoolRefiller::handle_ready_connection", "PoolRefiller::maybe_reshard", "PoolRefiller::remove_connection",
                                              "PoolRefiller::update_shared_conns", "PoolRefiller::use_keyspace", "PoolRefiller::handle_sharding_change"))
    r.instance("conns-writers", not bad, "PoolRefiller.conns is mutated outside the known set: %s" % bad)


def r2(ctx, facts):
    r = ctx.rule("R2", "the keyspace is recorded before the fan-out snapshot", floor=2)
    b = facts.one(r"^scylla::network::connection_pool::PoolRefiller::use_keyspace$")
    df = df_of(b, facts)
    stores = [(bb, j) for bb in b.live_blocks for j, s in enumerate(b.stmts(bb)) if s[0] == "A" and s[1][1] and df.canon.path(s[1]) == (1, ("current_keyspace",))]
    clones = [c for c in b.calls_to("core::clone::Clone::clone") if "conns" in slice_fields(b, c.args[0])]
    if not stores or not clones:
        raise AnchorLost("PoolRefiller::use_keyspace: current_keyspace store / conns snapshot not found (%d/%d)" % (len(stores), len(clones)))
    sb = stores[0][0]
    ok = all(b.dominates(sb, c.bb) and (sb != c.bb) or sb == c.bb for c in clones)
    # same block: statement precedes terminator, fine
    r.instance("pool-records-before-snapshot", ok, "self.current_keyspace must be stored before self.conns is cloned (a connection arriving in between is caught by the gate)", clones[0].span)
    # round 10: recording the keyspace for pools created later and taking the snapshot of nodes for the fan-out are one
    # sequential step of the worker task; a fan-out started from anywhere else can interleave with apply_metadata_update
    # (a node whose pool was just created with the OLD keyspace is not in the published state the fan-out covers)
    from ..util import callers_keys
    cs = callers_keys(facts, "scylla::cluster::worker::ClusterWorker::send_use_keyspace")
    r.instance("fanout-started-by-the-worker-only", bool(cs) and all(x.startswith("ClusterWorker::") for x in cs),
               "ClusterWorker::send_use_keyspace is called from %s: the USE fan-out must be started by the cluster worker itself, in the step that recorded the keyspace, "
               "so that it cannot run concurrently with a topology update that creates pools" % cs, None)
    # cluster worker
    wb = facts.find(r"^scylla::cluster::worker::ClusterWorker::work::\{closure#0\}$")
    if len(wb) != 1:
        raise AnchorLost("ClusterWorker::work coroutine not found")
    wb = wb[0]
    wdf = df_of(wb, facts)
    st2 = [(bb, s) for bb in wb.live_blocks for s in wb.stmts(bb) if s[0] == "A" and s[1][1] and wdf.canon.path(s[1])[1][-2:] == ("node_config", "used_keyspace")]
    hs = wb.calls_to("ClusterWorker::handle_use_keyspace_request")
    if not st2 or not hs:
        raise AnchorLost("cluster worker: used_keyspace store / handle_use_keyspace_request call not found (%d/%d)" % (len(st2), len(hs)))
    ok = all(any(wb.dominates(bb, h.bb) for bb, _ in st2) for h in hs)
    r.instance("worker-records-before-fanout", ok, "node_config.used_keyspace must be stored before the USE fan-out is started (new pools are built with it)", hs[0].span)


def r3(ctx, facts):
    r = ctx.rule("R3", "fan-outs await every node / connection before replying", floor=8)
    sb = facts.one(r"^scylla::cluster::worker::ClusterWorker::send_use_keyspace::\{closure#0\}$")
    ja = sb.calls_to("futures_util::future::join_all::join_all")
    r.instance("nodes-join_all", len(ja) == 1, "send_use_keyspace must await join_all over the per-node futures", sb.span)
    if ja:
        f = slice_fields(sb, ja[0].args[0])
        r.instance("nodes-all-known_nodes", "known_nodes" in f, "the per-node futures must be built from cluster_state.known_nodes; derives from fields %s" % sorted(f), ja[0].span)
    hb = facts.one(r"^scylla::cluster::worker::ClusterWorker::handle_use_keyspace_request::\{closure#0\}$")
    sends = hb.calls_to("tokio::sync::oneshot::Sender::<T>::send")
    polls = hb.calls_to("core::future::future::Future::poll")
    ok = bool(sends) and bool(polls) and all(any(hb.dominates(p.bb, s.bb) for p in polls) for s in sends)
    r.instance("worker-replies-after-fanout", ok, "the reply must be sent only after send_use_keyspace was awaited", sends[0].span if sends else hb.span)
    # pool side
    pbs = facts.find(r"^scylla::network::connection_pool::PoolRefiller::use_keyspace::\{closure#0\}$")
    if len(pbs) != 1:
        raise AnchorLost("PoolRefiller::use_keyspace future not found")
    pb = pbs[0]
    ja = pb.calls_to("futures_util::future::join_all::join_all")
    r.instance("pool-join_all", len(ja) == 1, "the pool's USE future must await join_all over all current connections", pb.span)
    if ja:
        _, calls, _ = backward_slice(pb, ja[0].args[0])
        uk = [c for fb in closure_family(facts, pb) for c in fb.calls_to("Connection::use_keyspace")]
        r.instance("pool-all-connections", bool(uk), "every connection of the snapshot must get a USE", ja[0].span)
    sp = facts.find(r"^scylla::network::connection_pool::PoolRefiller::use_keyspace::\{closure#1\}$")
    if sp:
        b2 = sp[0]
        sends = b2.calls_to("tokio::sync::oneshot::Sender::<T>::send")
        polls = b2.calls_to("core::future::future::Future::poll")
        ok = bool(sends) and bool(polls) and all(any(b2.dominates(p.bb, s.bb) for p in polls) for s in sends)
        r.instance("pool-replies-after-join", ok, "the pool replies only after its USE future completed", sends[0].span if sends else b2.span)
    else:
        r.fail("pool-replies-after-join", "spawned reply task of PoolRefiller::use_keyspace not found")
    # who may answer a USE request: only the two tasks above (an early `Ok` elsewhere skips the fan-out)
    allowed = {fn_short(hb.path), fn_short(sp[0].path) if sp else None}
    seen = set()
    for b in facts.bodies.mentioning("UseKeyspaceError"):
        if b.crate != "scylla":
            continue
        for c in b.calls_to("tokio::sync::oneshot::Sender::<T>::send"):
            a = c.args[0]
            ty = b.local_ty(a[1][0]) if a[0] in ("c", "m") and not a[1][1] else ""
            if "UseKeyspaceError" not in (ty or "") and "UseKeyspaceError" not in str(c.callee.get("args", "")):
                continue
            k = fn_short(b.path)
            if k not in allowed and len(c.args) > 1 and enum_variant_of_operand(b, c.args[1]) == "Err":
                continue  # an early failure reply does not claim success
            if k in seen:
                continue
            seen.add(k)
            r.instance("reply-site:" + k, k in allowed,
                       "a USE KEYSPACE reply is sent from %s; replies may only come from the tasks that awaited the whole fan-out (%s)" % (k, sorted(x for x in allowed if x)), c.span)


def r4(ctx, facts):
    r = ctx.rule("R4", "keyspace setup for a new connection re-enters the gate with the keyspace it set", floor=3)
    bs = facts.find(r"^scylla::network::connection_pool::PoolRefiller::start_setting_keyspace_for_connection::\{closure#0\}$")
    if len(bs) != 1:
        raise AnchorLost("start_setting_keyspace_for_connection future not found")
    b = bs[0]
    df = df_of(b, facts)
    EV = P + "OpenedConnectionEvent"
    aggs = [(bb, s) for bb in b.live_blocks for s in b.stmts(bb) if s[0] == "A" and s[2][0] == "agg" and s[2][1][0] == "adt" and s[2][1][1] == EV]
    if len(aggs) != 1:
        raise AnchorLost("expected one OpenedConnectionEvent aggregate in the keyspace-setup future")
    bb, s = aggs[0]
    fields = s[2][1][4]
    uk = b.calls_to("Connection::use_keyspace")
    if len(uk) != 1:
        raise AnchorLost("keyspace-setup future must call Connection::use_keyspace once")
    # keyspace_name operand = Some(the name passed to use_keyspace)
    kop = s[2][2][fields.index("keyspace_name")]
    kf_locs, _, _ = backward_slice(b, kop)
    name_locs, _, _ = backward_slice(b, uk[0].args[1])
    r.instance("event-keyspace-is-the-one-set", bool(kf_locs & name_locs), "the event's keyspace_name must be the very keyspace passed to use_keyspace", b.stmt_span(s))
    rop = s[2][2][fields.index("result")]
    _, calls, _ = backward_slice(b, rop)
    names = [c.name or "" for c in calls]
    polls = [c for c in calls if (c.decl or "").endswith("Future::poll")]
    r.instance("event-result-is-use-outcome", bool(polls) and any(n.endswith("Result::<T, E>::map_err") for n in names),
               "the event's result must be the awaited use_keyspace outcome mapped into ConnectionSetupError", b.stmt_span(s))
    me = [c for c in calls if (c.name or "").endswith("Result::<T, E>::map_err")]
    okk = any(a[0] == "k" and a[1] == "fn" and a[2].endswith("ConnectionSetupError::Keyspace") for c in me for a in c.args)
    r.instance("failure-becomes-keyspace-error", okk, "a failed USE must become ConnectionSetupError::Keyspace (so the connection is dropped, not published)", b.stmt_span(s))


def r5(ctx, facts):
    r = ctx.rule("R5", "only validated keyspace names reach a USE statement; the response name is checked", floor=7)
    makers = []
    for b in facts.bodies.mentioning('"' + VK + '"'):
        for bb in b.live_blocks:
            for s in b.stmts(bb):
                if s[0] == "A" and s[2][0] == "agg" and s[2][1][0] == "adt" and s[2][1][1] == VK:
                    makers.append((b, bb, s))
    names = sorted({fn_short(b.path) for b, _, _ in makers} - {"VerifiedKeyspaceName::clone[Clone]"})
    r.instance("single-constructor", names == ["VerifiedKeyspaceName::new"], "VerifiedKeyspaceName values are built in %s" % names)
    for b, bb, s in makers:
        if fn_short(b.path) != "VerifiedKeyspaceName::new":
            continue
        df = df_of(b, facts)
        v = b.calls_to("VerifiedKeyspaceName::verify_keyspace_name_is_valid")
        st = df.state_before_stmt(bb, b.stmts(bb).index(s)) or {}
        cont = [k for k, val in st.items() if k[0] == "disc" and in_set(val, {0}) and b.single_def(k[1][0]) and b.single_def(k[1][0])[0] == "call"
                and b.single_def(k[1][0])[2].is_("core::ops::try_trait::Try::branch")]
        ok = len(v) == 1 and b.dominates(v[0].bb, bb) and bool(cont)
        r.instance("constructed-after-validation", ok, "the aggregate must be built only where verify_keyspace_name_is_valid returned Ok", b.stmt_span(s))
        nm = s[2][2][s[2][1][4].index("name")]
        locs, _, _ = backward_slice(b, nm)
        vl, _, _ = backward_slice(b, v[0].args[0]) if v else (set(), None, None)
        r.instance("validated-string-is-stored-string", bool(locs & vl) or 1 in locs, "the stored name must be the string that was validated", b.stmt_span(s))
    # the verifier rejects on length / charset: it has Err exits guarded by comparisons (structure only)
    vb = facts.one(r"^scylla::network::connection::VerifiedKeyspaceName::verify_keyspace_name_is_valid$")
    errs = [s for xb in closure_family(facts, vb) for bb in xb.live_blocks for s in xb.stmts(bb)
            if s[0] == "A" and s[2][0] == "agg" and s[2][1][0] == "adt" and s[2][1][1].endswith("BadKeyspaceName")]
    kinds = {s[2][1][2] for s in errs}
    r.instance("verifier-rejections", {"Empty", "TooLong", "IllegalCharacter"} <= kinds, "verify_keyspace_name_is_valid must reject empty / too long / illegal-character names; rejects %s" % sorted(kinds), vb.span)
    # USE statement formatted from as_str() only
    ub = facts.one(r"^scylla::network::connection::Connection::use_keyspace::\{closure#0\}$")
    fmt_calls = [c for bb, c in ub.calls() if bb in ub.live_blocks and (c.name or "").endswith("fmt::rt::Argument::<'_>::new_display")]
    asstr = ub.calls_to("VerifiedKeyspaceName::as_str")
    ok = bool(fmt_calls) and bool(asstr)
    for c in fmt_calls:
        _, calls, _ = backward_slice(ub, c.args[0])
        if not any((x.name or "").endswith("VerifiedKeyspaceName::as_str") for x in calls):
            ok = False
    r.instance("use-statement-from-verified-name", ok, "every value interpolated into the USE statement must come from VerifiedKeyspaceName::as_str()", ub.span)
    vr = facts.one(r"^scylla::network::connection::Connection::verify_use_keyspace_result$")
    vdf = df_of(vr, facts)
    eq = vr.calls_to("eq_ignore_ascii_case")
    oks = [(bb, s) for bb in vr.live_blocks for s in vr.stmts(bb) if s[0] == "A" and s[2][0] == "agg" and s[2][1][0] == "adt" and s[2][1][2] == "Ok" and s[1][0] == 0]
    good = bool(eq) and bool(oks)
    for bb, s in oks:
        st = vdf.state_in.get(bb) or {}
        if not any(k == ("call", e.bb) and in_set(v, {1}) for e in eq for k, v in st.items()):
            good = False
    r.instance("response-name-checked-before-ok", good, "Ok(()) must be returned only where the keyspace named in the SetKeyspace response equals the requested one", vr.span)
    uq = ub.calls_to("Connection::verify_use_keyspace_result")
    r.instance("use-result-verified", len(uq) == 1, "Connection::use_keyspace must verify the response", ub.span)


def r6(ctx, facts):
    r = ctx.rule("R6", "a node forwards USE to its pool whenever it has one (connected or not: the pool records the keyspace for later connections)", floor=2)
    b = facts.one(r"^scylla::cluster::node::Node::use_keyspace::\{closure#0\}$")
    df = df_of(b, facts)
    calls = b.calls_to("NodeConnectionPool::use_keyspace")
    r.instance("node-calls-pool", len(calls) >= 1, "Node::use_keyspace must call NodeConnectionPool::use_keyspace", b.span)
    if not calls:
        return
    dj = dj_of(b, facts)
    bad = []
    for bb in sorted(b.live_blocks):
        t = b.term(bb)
        if t[0] != "switch":
            continue
        e = df.expr_of_operand(t[1])
        if e[0] == "disc" and e[1][1][-1:] == ("pool",):
            edges, other = switch_edges(b, bb)
            some_tg = edges.get(1, other)
            reach = dj.feasible_reach_edge(bb, some_tg, removed_nodes=[c.bb for c in calls])
            if reach & set(b.exits):
                bad.append(bb)
            r.instance("pool-present-implies-forwarded", not (reach & set(b.exits)),
                       "with a pool present, Node::use_keyspace can return without telling the pool (e.g. because it has no open connection): the pool would publish later connections without the keyspace", b.term_span(bb))
    if not any(True for _ in bad) and not any(i["key"].endswith("pool-present-implies-forwarded") for i in r.instances):
        r.fail("pool-present-implies-forwarded", "Node::use_keyspace no longer branches on self.pool", b.span)


def r7(ctx, facts):
    r = ctx.rule("R7", "a per-connection USE KEYSPACE failure other than a broken connection is never outvoted by another connection's Ok", floor=3)
    from .c10 import ok_sites
    outer = facts.one(r"^scylla::cluster::worker::use_keyspace_result$")
    UKE, RAE = "scylla::errors::UseKeyspaceError", "scylla::errors::RequestAttemptError"
    want = {UKE: "RequestError", RAE: "BrokenConnectionError"}

    def classify(b):
        dj = dj_of(b, facts)
        edges, seen, res_sw = [], set(), []
        for bb in sorted(b.live_blocks):
            t = b.term(bb)
            if t[0] != "switch":
                continue
            e = dj.expr_of_operand(t[1])
            if e is None or e[0] != "disc":
                continue
            ty = adt_of_type(dj.disc_ty.get(e[1], ""))
            vals, other = switch_edges(b, bb)
            if ty == "core::result::Result":
                res_sw.append((bb, vals, other))
            if ty not in want:
                continue
            seen.add(ty)
            adt = facts.adts.get(ty)
            idx = [int(v["discr"]) for v in adt["variants"] if v["name"] == want[ty]][0]
            for v, tg in vals.items():
                if v != idx:
                    edges.append((ty, bb, tg))
            if idx in vals and other is not None:
                edges.append((ty, bb, other))
        return dj, edges, seen, res_sw
    # the classification of one per-connection result lives in the function itself or in a closure it hands to try_for_each / try_fold
    where = None
    for b in closure_family(facts, outer):
        dj, edges, seen, res_sw = classify(b)
        if seen == set(want):
            where = (b, dj, edges, res_sw)
            break
    if where is None:
        raise AnchorLost("use_keyspace_result: the match on UseKeyspaceError::RequestError(RequestAttemptError::BrokenConnectionError) was not found")
    b, dj, edges, res_sw = where
    oks = {bb for bb, _ in ok_sites(b)}
    if not oks:
        raise AnchorLost("%s has no Ok exit" % fn_short(b.path))
    bad = []
    for ty, u, v in edges:
        if dj.feasible_reach_edge(u, v) & oks:
            bad.append("%s arm at %s" % (ty.split("::")[-1], b.term_span(u)))
    msg = ("once one connection answered USE KEYSPACE with an error that is not a broken connection, use_keyspace_result must not return Ok "
           "(the keyspace was refused; connections that said Ok would keep it while the caller is told nothing): Ok reachable from %s")
    r.instance("other-error-never-becomes-ok", bool(edges) and not bad, msg % bad[:2], b.span)
    if b is outer:
        okarm = set()
        for bb, vals, other in res_sw:
            if 0 in vals:
                okarm.add(vals[0])
            elif 1 in vals and other is not None:
                okarm.add(other)
        ok2 = bool(okarm) and not (dj.feasible_reach(0, removed_nodes=okarm) & oks)
        r.instance("ok-needs-one-ok", ok2, "use_keyspace_result may return Ok only after at least one per-connection Ok (all-broken must stay an error)", b.span)
    else:
        # closure form: an `Err` leaving the closure must end the function with that error (`try_for_each(..)?`)
        odj = dj_of(outer, facts)
        ooks = {bb for bb, _ in ok_sites(outer)}
        tf = [c for bb, c in outer.calls() if bb in outer.live_blocks and (c.decl or "").split("::")[-1] in ("try_for_each", "try_fold")]
        good = bool(tf)
        for c in tf:
            brs = [x for x in outer.calls_to("core::ops::try_trait::Try::branch") if c.dest[0] in backward_slice(outer, x.args[0])[0]]
            good = good and bool(brs)
            for br in brs:
                root = ("disc", (br.dest[0], ()))
                for sw in switch_on(outer, odj, root):
                    vals, other = switch_edges(outer, sw)
                    brk = vals.get(1, other if 0 in vals else None)
                    if brk is None or (odj.feasible_reach_edge(sw, brk) & ooks):
                        good = False
        r.instance("closure-error-ends-the-function", good, "the error returned by the per-result closure must be propagated (`try_for_each(..)?`), never followed by an Ok", outer.span)
        r.instance("ok-needs-one-ok", True, "closure form: the was_ok flag travels through a captured `&mut`; not decided in this form", outer.span, nontrivial=False)
    r.instance("arms", bool(edges), "%d non-broken error edges examined" % len(edges), b.span, nontrivial=False)


ASCII_CHAR_PREDICATES = {"is_ascii_alphanumeric", "is_ascii_alphabetic", "is_ascii_digit", "is_ascii_lowercase", "is_ascii_uppercase", "is_ascii"}
KEYSPACE_ALPHABET_BOUNDS = {97, 122, 65, 90, 48, 57, 95}    # a z A Z 0 9 _


def r8(ctx, facts):
    r = ctx.rule("R8", "a keyspace name passes local validation only if it is 1..=48 characters of [A-Za-z0-9_]", floor=3)
    b = facts.one(r"^scylla::network::connection::VerifiedKeyspaceName::verify_keyspace_name_is_valid$")
    consts, preds, other_calls = set(), set(), []
    has_48 = False
    for body in closure_family(facts, b):
        for bb in sorted(body.live_blocks):
            for st in body.stmts(bb):
                if st[0] == "A" and st[2][0] == "bin":
                    for o in st[2][2:4]:
                        if o[0] == "k" and o[1] == "int":
                            ty = body.ty(o[2])
                            if ty in ("char", "u8", "u32"):
                                consts.add(int(o[3]))
                            elif ty == "usize" and int(o[3]) in (48, 49):
                                has_48 = True
            t = body.term(bb)
            if t[0] == "switch" and t[1][0] in ("c", "m") and body.local_ty(t[1][1][0]) in ("char", "u8", "u32") and not t[1][1][1]:
                consts |= {int(v) for v, _ in t[2]}
        for bb, c in body.calls():
            if bb not in body.live_blocks:
                continue
            d = c.decl or ""
            if d.startswith("core::char::methods::<impl char>::") or d.startswith("core::num::<impl u8>::is_") or d.startswith("core::unicode"):
                m = d.split("::")[-1]
                if m in ASCII_CHAR_PREDICATES:
                    preds.add(m)
                elif m not in ("len_utf8", "to_string", "fmt"):
                    other_calls.append((m, c.span))
    r.instance("no-unicode-predicate", not other_calls,
               "verify_keyspace_name_is_valid classifies characters with %s: a Unicode-aware predicate accepts letters and digits outside ASCII, which are then interpolated into `USE <name>`"
               % sorted({m for m, _ in other_calls}), other_calls[0][1] if other_calls else b.span)
    stray = sorted(consts - KEYSPACE_ALPHABET_BOUNDS)
    r.instance("alphabet-bounds", not stray and (bool(preds) or consts == KEYSPACE_ALPHABET_BOUNDS),
               "the characters compared against must be exactly the bounds of a-z, A-Z, 0-9 and '_' (or ASCII predicates): found %s, predicates %s" % (sorted(consts), sorted(preds)), b.span)
    r.instance("length-limit-48", has_48, "the length must be compared with 48", b.span)
    # and an illegal character is an error exit: the Ok exit is not reachable from the reject edge - covered by the who-constructs census (R4) + this alphabet


def r9(ctx, facts):
    r = ctx.rule("R9", "a keyspace name taken from the server's SET_KEYSPACE answer is spread to the session case-sensitively (it is the exact name the server switched to)", floor=1)
    n = 0
    for b, bb in facts.callers_of("scylla::client::session::Session::use_keyspace"):
        if b.crate != "scylla" or bb not in b.live_blocks:
            continue
        c = next((x for b2, x in b.calls() if b2 == bb), None)
        if c is None or len(c.args) < 3:
            continue
        locs, calls, _ = backward_slice(b, c.args[1])
        from_response = any((x.name or "").endswith("as_set_keyspace") for x in calls) or "keyspace_name" in slice_fields(b, c.args[1])
        if not from_response:
            continue
        n += 1
        df = df_of(b, facts)
        e = df.expr_of_operand(c.args[2])
        r.instance("server-name-is-case-sensitive:" + fn_short(b.path), e == ("const", 1),
                   "the name reported by the server after `USE \"MixedCase\"` is re-sent to every connection with case_sensitive = %s: unquoted, the server folds it to lower case "
                   "and all connections end up in a different keyspace (verify_use_keyspace_result compares case-insensitively, so nothing complains)" % (df.fmt_expr(e) if e else "?"), c.span)
    if n == 0:
        raise AnchorLost("no call of Session::use_keyspace with a name taken from a SET_KEYSPACE response found")


def r10(ctx, facts):
    r = ctx.rule("R10", "a pool never forgets the keyspace it was told: PoolRefiller.current_keyspace is set by use_keyspace (and at construction) and never cleared", floor=2)
    from ..util import field_writers
    PR = "scylla::network::connection_pool::PoolRefiller"
    w = sorted(field_writers(facts, PR, ["current_keyspace"]))
    for key, field, how in w:
        if how in ("borrow", "read", "move-out"):
            continue
        ok = key.endswith(("PoolRefiller::new", "PoolRefiller::use_keyspace")) or "PoolRefiller::new" in key or "PoolRefiller::use_keyspace" in key
        r.instance("keyspace-writer:%s:%s" % (key, how), ok,
                   "PoolRefiller.current_keyspace is written (%s) in %s: only use_keyspace and the constructor may set it. Clearing it (e.g. after one rejected USE on a fresh connection) makes every later "
                   "refill connection of the pool go into service without any keyspace, long after use_keyspace() returned Ok" % (how, key))
    # no store of None into the field anywhere
    for b in facts.bodies.mentioning('"current_keyspace"'):
        if b.crate != "scylla" or "::promoted[" in b.path:
            continue
        for bb in sorted(b.live_blocks):
            for st in b.stmts(bb):
                if st[0] == "A" and st[1][1] and any(isinstance(e, list) and e[0] == "f" and e[2] == "current_keyspace" for e in st[1][1]):
                    none = st[2][0] == "agg" and st[2][1][0] == "adt" and st[2][1][2] == "None"
                    r.instance("keyspace-never-cleared:" + fn_short(b.path), not none, "current_keyspace is reset to None", b.stmt_span(st))
    if not w:
        raise AnchorLost("no writer of PoolRefiller.current_keyspace found")


SWALLOWING = ("ok", "err", "transpose", "unwrap_or", "unwrap_or_default", "unwrap_or_else", "or", "or_else", "flatten", "is_ok", "is_err",
              "map_or", "map_or_else", "unwrap", "expect", "and", "and_then", "timeout", "timeout_at", "is_some", "is_none")


def r11(ctx, facts):
    """a connection opened after the keyspace was set is handed to the pool as `set up` only if the server ANSWERED its USE with
    success. The setup future reports `use_keyspace(..).await` itself (mapped, not re-interpreted): any adapter that can turn
    `no answer` / an error into `Ok` publishes a connection on which the keyspace is not set (seed C20-k: a timeout folded into Ok)."""
    r = ctx.rule("R11", "the keyspace setup of a fresh connection reports success only if use_keyspace() returned Ok", floor=1)
    bs = facts.find(r"^scylla::network::connection_pool::PoolRefiller::start_setting_keyspace_for_connection::\{closure#0\}$")
    if len(bs) != 1:
        raise AnchorLost("start_setting_keyspace_for_connection future not found")
    b = bs[0]
    n = 0
    for bb in sorted(b.live_blocks):
        for st in b.stmts(bb):
            if st[0] == "A" and st[2][0] == "agg" and st[2][1][0] == "adt" and st[2][1][1].endswith("OpenedConnectionEvent") and "result" in (st[2][1][4] or []):
                n += 1
                op = st[2][2][st[2][1][4].index("result")]
                locs, calls, _ = backward_slice(b, op)
                names = [(c.name or c.decl or "?").split("::")[-1] for c in calls]
                has_use = any(nm == "use_keyspace" for nm in names)
                bad = sorted(set(names) & set(SWALLOWING))
                r.instance("setup-result-is-the-use-result", has_use and not bad,
                           "the result reported for the fresh connection %s: a USE that failed or was never answered can come out as a successful setup, "
                           "and the connection is published without the session keyspace" % (
                               "goes through %s" % bad if bad else "does not derive from use_keyspace()"), b.stmt_span(st))
    if n == 0:
        raise AnchorLost("no OpenedConnectionEvent built by the keyspace setup future")


def check(ctx):
    facts = inline_view(ctx.facts("default"))
    for fn in (r1, r2, r3, r4, r5, r6, r7, r8, r9, r10, r11):
        try:
            fn(ctx, facts)
        except AnchorLost as ex:
            ctx.rule(fn.__name__.upper() + "x", "anchors of " + fn.__name__).fail("anchor-lost", str(ex))
