"""C01 — CQL value encoding conforms to the protocol and round-trips (structural clauses).

Decided statically (tables that must agree; none of these is byte-level evaluation):
 R1 carrier tables agree: for every Rust carrier with both a serializer and a type-checker, the accepted column shapes agree
    (extracted as in C17.R1) and equal the reference matrix.
 R2 widths agree three ways: width written by the serializer of a fixed-width native (size of the `[u8; N]` whose slice reaches
    set_value), width demanded by the deserializer (`ensure_exact_length::<_, N>`), the CQL v4 width, and - where defined - the
    width the vector codec assumes (NativeType::type_size_for_vector).
 R3 sentinel tables agree: CellWriter::set_null writes -1, set_unset -2, the value-builder placeholder is an invalid length
    (< -2); types::read_value maps -2 -> Unset, -1 -> Null, len >= 0 -> value, anything else -> error; read_bytes_opt maps
    every negative length to None; the map iterator is armed with 2 * count.
 R4 vector discipline: serialize_vector and VectorIterator branch on the same ColumnType::type_size_for_vector; the fixed-size
    arm uses unsized sub-writers / read_n_bytes(size), the variable arm vint-prefixed elements; no arm mixes them.
 R5 dynamic value dispatch: every CqlValue variant except Empty is produced by the CqlValue decoder, and each arm of the
    CqlValue serializer delegates to a typed carrier (consistency of each delegation with the matrix is C17.R1).
 R6 short tuples / UDTs: both tuple decoders read an element only where the slice is non-empty and yield None otherwise, once
    per declared field type; UdtIterator::next yields one item per declared field and maps exhausted input to Ok(None).
Not decided: byte-exactness per value (vint/zig-zag arithmetic, varint normalisation, decimal scale, float payloads, inet),
equality after round trip - numerical, needs evaluation.
"""
import re
from ..inline import inline_view
from ..mir import AnchorLost
from .c20 import slice_fields
from ..util import uses_of_local, closure_family, dj_of, truth_edges, norm_cmps, df_of, fn_short, in_set, backward_slice, operand_path, path_last, switch_on, switch_edges
from ..shapes import Accept, SV, DV, NT, impl_method
from .c17 import REF_SER, REF_DE, norm_self, ASYMMETRIC, head, fmt, N

V4_WIDTH = {"TinyInt": 1, "SmallInt": 2, "Int": 4, "BigInt": 8, "Float": 4, "Double": 8, "Boolean": 1, "Timestamp": 8, "Time": 8,
            "Date": 4, "Counter": 8, "Uuid": 16, "Timeuuid": 16}
CORE = "scylla_cql_core::"


def arr_len(ty):
    m = re.match(r"^&?(?:'\w+ )?(?:mut )?\[u8; (\d+)\]$", ty.strip())
    return int(m.group(1)) if m else None


def r1(ctx, facts, A):
    r = ctx.rule("R1", "serializer and type-checker of each carrier accept the same column types (and the reference set)", floor=58)
    U = A.universe
    tabs = {}
    for tr, meth, tag in ((SV, "serialize", "ser"), (DV, "type_check", "de")):
        for im in [i for i in facts.impls if i.get("trait_def") == tr and i["crate"] == "scylla_cql_core"]:
            p = impl_method(facts, im, meth)
            if p is None or facts.body(p) is None:
                continue
            acc, marks = A.tc(p)
            tabs.setdefault(norm_self(im["self"]), {})[tag] = (acc, im, p)
    n = 0
    for carrier, d in sorted(tabs.items()):
        if "ser" not in d or "de" not in d or carrier == "<tuple>":
            continue
        s, im, _ = d["ser"]
        t, _, _ = d["de"]
        n += 1
        site = "%s:%s" % (im["file"], im["span"][1])
        if head(carrier) in ASYMMETRIC:
            r.instance("agree:" + carrier, t <= s, "documented asymmetry (sets also serialize to list): type_check set within serialize set", site, nontrivial=False)
        else:
            r.instance("agree:" + carrier, s == t, "serialize accepts {%s}, type_check accepts {%s}" % (fmt(s, U), fmt(t, U)), site)
        want = REF_SER.get(carrier)
        if want is not None and want != "ALL":
            r.instance("reference:" + carrier, s == want, "serialize accepts {%s}; documented {%s}" % (fmt(s, U), fmt(want, U)), site, nontrivial=False)
    return tabs


def ser_width(b):
    """bytes handed to set_value, when they come from one fixed-size array"""
    sv = b.calls_to("CellWriter::<'buf>::set_value")
    if len(sv) != 1:
        return None
    locs, calls, _ = backward_slice(b, sv[0].args[1])
    ns = {arr_len(b.local_ty(l)) for l in locs} - {None}
    return next(iter(ns)) if len(ns) == 1 else None


def de_width(facts, path):
    out = set()
    for p in [path] + [q for q in facts.bodies.keys() if q.startswith(path + "::{closure")]:
        b = facts.body(p)
        for bb, c in b.calls():
            if bb in b.live_blocks and (c.name or "").endswith("deserialize::value::ensure_exact_length"):
                ca = c.callee.get("cargs")
                if ca:
                    out.add(int(ca[0]))
    return next(iter(out)) if len(out) == 1 else None


VECTOR_FIXED = {"Boolean", "Double", "Float", "Int", "BigInt", "Timestamp", "Uuid", "Timeuuid"}
NT_ALL = {"Ascii", "Boolean", "Blob", "Counter", "Date", "Decimal", "Double", "Duration", "Float", "Int", "BigInt", "Text", "Timestamp", "Inet",
          "SmallInt", "TinyInt", "Time", "Timeuuid", "Uuid", "Varint"}


def vector_sizes(facts):
    b = facts.one(r"^scylla_cql_core::frame::response::result::NativeType::type_size_for_vector$")
    df = df_of(b, facts)
    out = {}
    for bb in b.live_blocks:
        for j, s in enumerate(b.stmts(bb)):
            if s[0] == "A" and s[1][0] == 0 and s[2][0] == "agg" and s[2][1][0] == "adt" and s[2][1][1] == "core::option::Option":
                st = df.state_before_stmt(bb, j) or {}
                names = None
                for k, v in st.items():
                    if k[0] == "disc" and df.disc_ty.get(k[1], "").endswith("NativeType"):
                        names = df.variant_names(k[1], v, NT)
                if not names:
                    continue
                val = None
                if s[2][1][2] == "Some" and s[2][2] and s[2][2][0][0] == "k":
                    val = int(s[2][2][0][3])
                for nm in names:
                    out[nm] = val
    return out, b


def r2(ctx, facts, tabs):
    r = ctx.rule("R2", "fixed widths agree: serializer = deserializer = CQL v4 (= vector codec where fixed)", floor=53)
    vs, vb = vector_sizes(facts)
    seen_native = set()
    for carrier, d in sorted(tabs.items()):
        for tag in ("ser", "de"):
            if tag not in d:
                continue
            acc, im, p = d[tag]
            if len(acc) != 1 or not next(iter(acc)).startswith(N):
                continue
            nat = next(iter(acc))[len(N):]
            if nat not in V4_WIDTH:
                continue
            w = ser_width(facts.body(p)) if tag == "ser" else de_width(facts, impl_method(facts, im, "deserialize"))
            site = "%s:%s" % (im["file"], im["span"][1])
            if w is None:
                r.note("%s %s (%s): width not a single fixed array" % (tag, carrier, nat))
                continue
            seen_native.add(nat)
            r.instance("%s-width:%s" % (tag, carrier), w == V4_WIDTH[nat], "%s of %s (CQL %s) uses %d bytes, CQL v4 says %d" % ("serializer" if tag == "ser" else "deserializer", carrier, nat, w, V4_WIDTH[nat]), site)
    for nat, w in sorted(V4_WIDTH.items()):
        if nat in vs and vs[nat] is not None:
            r.instance("vector-width:" + nat, vs[nat] == w, "NativeType::type_size_for_vector(%s) = %s, CQL width is %d" % (nat, vs[nat], w), vb.span)
    # which natives the vector codec packs without a per-element length: Cassandra's AbstractType.valueLengthIfFixed() is
    # overridden only by Boolean, Double, Float, Int32, Long, Timestamp, UUID and TimeUUID ("many fixed size types are
    # treated as variable size by Cassandra", as the function's own doc comment says); every other element type carries an
    # unsigned-vint length. A wrong entry changes the bytes of vector<T, N> on both sides at once (round trips still pass).
    for nat in sorted(NT_ALL):
        if nat not in vs:
            r.fail("vector-fixedness:%s:missing" % nat, "NativeType::type_size_for_vector has no arm for %s" % nat, vb.span)
            continue
        r.instance("vector-fixedness:" + nat, (vs[nat] is not None) == (nat in VECTOR_FIXED),
                   "vector<%s, N>: elements are %s, the wire format has them %s" % (nat.lower(), "packed without length (Some(%s))" % vs[nat] if vs[nat] is not None else "length-prefixed (None)",
                                                                                      "packed without length" if nat in VECTOR_FIXED else "prefixed with an unsigned-vint length"), vb.span)
    missing = sorted(set(V4_WIDTH) - seen_native)
    r.instance("all-fixed-natives-covered", not missing, "no fixed-width carrier found for %s" % missing, nontrivial=False)
    # natives the vector codec treats as fixed must be fixed-width in v4
    for nat, w in vs.items():
        if w is not None and nat not in V4_WIDTH:
            r.fail("vector-width-unknown:" + nat, "type_size_for_vector claims %s is %d bytes wide but it is not a fixed-width CQL type" % (nat, w), vb.span)


def const_arg(call, i, b=None, facts=None):
    """integer constant passed as argument i: a literal, a local that was assigned one (also the parameter of an inlined
    helper), or a named constant"""
    a = call.args[i]
    if a[0] == "k" and a[1] == "int":
        return int(a[3])
    if a[0] == "k" and a[1] == "other" and facts is not None and len(a) > 4 and a[4] in facts.consts:
        return facts.consts[a[4]][1]
    if b is not None and facts is not None and a[0] in ("c", "m"):
        e = df_of(b, facts).expr_of_operand(a)
        if e[0] == "const":
            return e[1]
        sd = b.single_def(a[1][0]) if not a[1][1] else None
        if sd and sd[0] == "stmt" and sd[3][0] == "use" and sd[3][1][0] == "k" and sd[3][1][1] == "other" and len(sd[3][1]) > 4 and sd[3][1][4] in facts.consts:
            return facts.consts[sd[3][1][4]][1]
    return None


def r3(ctx, facts):
    r = ctx.rule("R3", "null / unset / placeholder sentinels: writer and reader agree", floor=10)
    W = "scylla_cql_core::serialize::writers::"
    for fn, want in (("CellWriter::<'buf>::set_null", -1), ("CellWriter::<'buf>::set_unset", -2)):
        b = facts.one("^" + re.escape(W + fn) + "$")
        tb = b.calls_to("core::num::<impl i32>::to_be_bytes")
        v = const_arg(tb[0], 0, b, facts) if len(tb) == 1 else None
        r.instance(fn.split("::")[-1] + "-writes-%d" % want, v == want, "%s writes length %s, CQL says %d" % (fn.split("::")[-1], v, want), b.span)
    nb = facts.one("^" + re.escape(W + "CellValueBuilder::<'buf>::new") + "$")
    tb = nb.calls_to("core::num::<impl i32>::to_be_bytes")
    v = const_arg(tb[0], 0, nb, facts) if len(tb) == 1 else None
    r.instance("placeholder-is-invalid-length", v is not None and v < -2, "the value-builder placeholder must be an invalid length (< -2) so an unfinished cell is rejected by the server; it is %s" % v, nb.span)
    # finish() back-patches len - starting_pos - 4
    fb = facts.one("^" + re.escape(W + "CellValueBuilder::<'buf>::finish") + "$")
    subs = [s for bb in fb.live_blocks for s in fb.stmts(bb) if s[0] == "A" and s[2][0] == "bin" and s[2][1].startswith("Sub") and s[2][3][0] == "k"]
    r.instance("finish-subtracts-prefix", any(int(s[2][3][3]) == 4 for s in subs), "finish() must back-patch buf.len() - starting_pos - 4", fb.span)
    # reader
    rb = facts.one(r"^scylla_cql_core::frame::types::read_value$")
    df = df_of(rb, facts)
    RAW = "scylla_cql_core::frame::types::RawValue"
    got = {}
    for bb in rb.live_blocks:
        for j, s in enumerate(rb.stmts(bb)):
            if s[0] == "A" and s[2][0] == "agg" and s[2][1][0] == "adt" and s[2][1][1] == RAW:
                st = df.state_before_stmt(bb, j) or {}
                vals = [v for k, v in st.items() if k[0] in ("val", "call") and v[0] == "in" and len(v[1]) == 1 and rb.local_ty(k[1][0] if k[0] == "val" else 0) in ("i32",)]
                got[s[2][1][2]] = next(iter(vals[0][1])) if vals else None
    # values may be tracked on the Continue payload path; fall back to scanning switch edges
    if got.get("Null") is None or got.get("Unset") is None:
        for bb in rb.live_blocks:
            t = rb.term(bb)
            if t[0] == "switch" and rb.ty(t[4]) == "i32":
                for v, tg in t[2]:
                    reach = rb.reachable_from(tg)
                    for x in reach:
                        for s in rb.stmts(x):
                            if s[0] == "A" and s[2][0] == "agg" and s[2][1][0] == "adt" and s[2][1][1] == RAW and s[2][1][2] in ("Null", "Unset"):
                                val = int(v) if int(v) < 2 ** 31 else int(v) - 2 ** 32
                                # only the nearest arm: the aggregate's block must be dominated by the edge target
                                if rb.dominates(tg, x):
                                    got[s[2][1][2]] = val
    r.instance("read_value:-1-is-null", got.get("Null") == -1, "read_value maps length %s to Null; writer writes -1" % got.get("Null"), rb.span)
    r.instance("read_value:-2-is-unset", got.get("Unset") == -2, "read_value maps length %s to Unset; writer writes -2" % got.get("Unset"), rb.span)
    vals_site = [(bb, j) for bb in rb.live_blocks for j, s in enumerate(rb.stmts(bb)) if s[0] == "A" and s[2][0] == "agg" and s[2][1][0] == "adt" and s[2][1][1] == RAW and s[2][1][2] == "Value"]
    # `.map(RawValue::Value)`: the variant constructor passed as a function item builds the value at that call
    for bb, c in rb.calls():
        if bb in rb.live_blocks and any(a[0] == "k" and a[1] == "fn" and str(a[2]).endswith("RawValue::Value") for a in c.args):
            vals_site.append((bb, len(rb.stmts(bb))))
    okv = False
    for bb, j in vals_site:
        st = df.state_before_stmt(bb, j) or {}
        # `len < 0` known false, in whatever form the source spells it
        if any(o == "Lt" and y == ("const", 0) and t == 0 for o, x, y, t in norm_cmps(st)):
            okv = True
    r.instance("read_value:value-iff-nonnegative", okv, "RawValue::Value must be produced only where len >= 0", rb.span)
    errs = [1 for bb in rb.live_blocks for s in rb.stmts(bb) if s[0] == "A" and s[2][0] == "agg" and s[2][1][0] == "adt" and s[2][1][2] == "InvalidValueLength"]
    r.instance("read_value:other-negative-is-error", bool(errs), "lengths below -2 must be an error", rb.span, nontrivial=False)
    ob = facts.one(r"^scylla_cql_core::frame::types::read_bytes_opt$")
    odf = df_of(ob, facts)
    nones = [(bb, j) for bb in ob.live_blocks for j, s in enumerate(ob.stmts(bb)) if s[0] == "A" and s[2][0] == "agg" and s[2][1][0] == "adt" and s[2][1][1] == "core::option::Option" and s[2][1][2] == "None"]
    okn = bool(nones)
    for bb, j in nones:
        st = odf.state_before_stmt(bb, j) or {}
        if not any(o == "Lt" and y == ("const", 0) and t == 1 for o, x, y, t in norm_cmps(st)):
            okn = False
    r.instance("read_bytes_opt:negative-is-null", okn, "read_bytes_opt must return None exactly for negative lengths", ob.span)
    mb = facts.one(r"^<scylla_cql_core::deserialize::value::MapIterator<'frame, 'metadata, K, V> as scylla_cql_core::deserialize::value::DeserializeValue<'frame, 'metadata>>::deserialize$")
    mul = [s for bb in mb.live_blocks for s in mb.stmts(bb) if s[0] == "A" and s[2][0] == "bin" and s[2][1].startswith("Mul")]
    okm = any((s[2][2][0] == "k" and int(s[2][2][3]) == 2) or (s[2][3][0] == "k" and int(s[2][3][3]) == 2) for s in mul)
    r.instance("map-iterator-armed-with-2n", okm, "a map of n entries holds 2n cells", mb.span)


def r4(ctx, facts):
    r = ctx.rule("R4", "vector codec: fixed-size and variable-size arms are consistent on both sides", floor=9)
    TS = "scylla_cql_core::frame::response::result::ColumnType::<'_>::type_size_for_vector"
    sb = facts.one(r"^scylla_cql_core::serialize::value::serialize_vector$")
    sdf = df_of(sb, facts)
    ts = sb.calls_to(TS)
    if len(ts) != 1:
        raise AnchorLost("serialize_vector must branch on ColumnType::type_size_for_vector (found %d calls)" % len(ts))
    key = ("disc", (ts[0].dest[0], ()))
    for suf, want, tag in (("serialize_next_constant_length_elem", 1, "fixed"), ("serialize_next_variable_length_elem", 0, "variable")):
        cs = sb.calls_to("serialize::value::" + suf)
        ok = bool(cs) and all(in_set((sdf.state_in.get(c.bb) or {}).get(key), {want}) for c in cs)
        if not cs:
            # the helper may be SELECTED in the arm (as a function pointer) and called later through the pointer
            sel = [(bb, st) for bb in sorted(sb.live_blocks) for st in sb.stmts(bb)
                   if st[0] == "A" and st[2][0] in ("cast", "use") and any(isinstance(x, list) and len(x) > 2 and x[0] == "k" and x[1] == "fn" and str(x[2]).endswith("::" + suf)
                                                                           for x in st[2][1:4] if isinstance(x, list))]
            used = any(uses_of_local(sb, st[1][0]) for _, st in sel)
            ok = bool(sel) and used and all(in_set((sdf.state_in.get(bb) or {}).get(key), {want}) for bb, _ in sel)
        r.instance("ser:%s-arm" % tag, ok, "%s must be used exactly in the type_size_for_vector() == %s arm" % (suf, "Some" if want else "None"), cs[0].span if cs else sb.span)
    cb = facts.one(r"^scylla_cql_core::serialize::value::serialize_next_constant_length_elem$")
    r.instance("ser:fixed-elements-unsized", bool(cb.calls_to("CellValueBuilder::<'buf>::make_sub_writer_without_size")) and not cb.calls_to("CellValueBuilder::<'buf>::make_sub_writer"),
               "fixed-size vector elements are written without a length prefix", cb.span)
    vb = facts.one(r"^scylla_cql_core::serialize::value::serialize_next_variable_length_elem$")
    r.instance("ser:variable-elements-vint-prefixed", bool(vb.calls_to("frame::types::unsigned_vint_encode")) and bool(vb.calls_to("CellWriter::<'buf>::new_without_size")),
               "variable-size vector elements are written as unsigned-vint length + bytes", vb.span)
    # element order: length prefix appended before the bytes
    ap = vb.calls_to("CellValueBuilder::<'buf>::append_bytes")
    enc = vb.calls_to("frame::types::unsigned_vint_encode")
    okord = False
    if len(ap) == 2 and enc:
        first, second = (ap[0], ap[1]) if vb.dominates(ap[0].bb, ap[1].bb) else (ap[1], ap[0])
        l1, c1, _ = backward_slice(vb, first.args[1])
        okord = any(x in l1 for x in backward_slice(vb, enc[0].args[1])[0])
    r.instance("ser:length-before-bytes", okord, "the vint length must be appended before the element bytes", vb.span)
    # deserializer side
    db = facts.one(r"^<scylla_cql_core::deserialize::value::VectorIterator<'frame, 'metadata, T> as scylla_cql_core::deserialize::value::DeserializeValue<'frame, 'metadata>>::deserialize$")
    r.instance("de:same-size-function", len(db.calls_to(TS)) == 1, "VectorIterator::deserialize must take the element size from the same ColumnType::type_size_for_vector", db.span)
    nb = facts.one(r"^<scylla_cql_core::deserialize::value::VectorIterator<'frame, 'metadata, T> as core::iter::traits::iterator::Iterator>::next$")
    ndf = df_of(nb, facts)
    fx = nb.calls_to("VectorIterator::<'frame, 'metadata, T>::next_constant_length_elem")
    va = nb.calls_to("VectorIterator::<'frame, 'metadata, T>::next_variable_length_elem")
    okk = bool(fx) and bool(va)
    for c, want in [(x, 1) for x in fx] + [(x, 0) for x in va]:
        st = ndf.state_in.get(c.bb) or {}
        if not any(k[0] == "disc" and k[1][1][-1:] == ("element_length",) and in_set(v, {want}) for k, v in st.items()) and \
           not any(k[0] == "disc" and "Option<usize>" in ndf.disc_ty.get(k[1], "") and in_set(v, {want}) for k, v in st.items()):
            okk = False
    r.instance("de:arms-follow-element-size", okk, "next() must use the constant-length reader iff the stored element size is Some", nb.span)
    cf = facts.one(r"^scylla_cql_core::deserialize::value::VectorIterator::<'frame, 'metadata, T>::next_constant_length_elem$")
    r.instance("de:fixed-reads-n-bytes", bool(cf.calls_to("FrameSlice::<'frame>::read_n_bytes")) and not cf.calls_to("frame::types::unsigned_vint_decode"), "fixed-size elements are read as exactly element_length bytes", cf.span)
    vf = facts.one(r"^scylla_cql_core::deserialize::value::VectorIterator::<'frame, 'metadata, T>::next_variable_length_elem$")
    r.instance("de:variable-reads-vint", bool(vf.calls_to("frame::types::unsigned_vint_decode")), "variable-size elements are read as unsigned-vint length + bytes", vf.span)


def r5(ctx, facts):
    r = ctx.rule("R5", "dynamic CqlValue: every variant can be decoded, every variant is serialized through a typed carrier", floor=98)
    CV = "scylla_cql_core::value::CqlValue"
    allv = set(facts.variants(CV))
    made = set()
    pref = "<scylla_cql_core::value::CqlValue as scylla_cql_core::deserialize::value::DeserializeValue<'frame, 'metadata>>::deserialize"
    for p in facts.bodies.keys():
        if p == pref or p.startswith(pref + "::{closure"):
            b = facts.body(p)
            for bb in b.live_blocks:
                for s in b.stmts(bb):
                    if s[0] == "A" and s[2][0] == "agg" and s[2][1][0] == "adt" and s[2][1][1] == CV:
                        made.add(s[2][1][2])
    for v in sorted(allv):
        r.instance("decoder-produces:" + v, v in made, "no arm of the CqlValue decoder constructs CqlValue::%s" % v, nontrivial=False)
    sb = facts.one(r"^scylla_cql_core::serialize::value::serialize_cql_value$")
    df = df_of(sb, facts)
    from ..shapes import shapeflow, param_of_type, CT
    A = Accept(facts)
    U = A.universe
    covered = set()
    ser_shapes = {}
    for bb, c in sb.calls():
        if bb not in sb.live_blocks:
            continue
        takes_writer = any(a[0] in ("c", "m") and "CellWriter" in sb.local_ty(a[1][0]) for a in c.args)
        if not takes_writer:
            continue
        st = df.state_in.get(bb) or {}
        for k, v in st.items():
            if k[0] == "disc" and df.disc_ty.get(k[1], "").endswith("value::CqlValue"):
                names = df.variant_names(k[1], v, CV)
                if names and len(names) <= 3:
                    covered |= names
                    if c.name and facts.body(c.name) is not None and len(names) == 1:
                        acc, marks = A.tc(c.name)
                        if acc == U and "self_ty" in c.callee:
                            # transparent wrapper (&T, Box<T>, ..): look through to the carrier it was instantiated with
                            inner = sb.ty(c.callee["self_ty"])
                            inner = re.sub(r"^&(?:'\w+ )?(?:mut )?", "", inner).strip()
                            for im in facts.impls:
                                if im.get("trait_def") == SV and norm_self(im["self"]) == norm_self(inner):
                                    pth = impl_method(facts, im, "serialize")
                                    if pth and facts.body(pth) is not None:
                                        acc, marks = A.tc(pth)
                        ser_shapes.setdefault(next(iter(names)), set()).update(acc)
    for v in sorted(allv):
        r.instance("serializer-handles:" + v, v in covered, "serialize_cql_value has no arm writing CqlValue::%s" % v, sb.span, nontrivial=False)
    # decode(shape) = X  =>  shape is accepted by the carrier that serializes X (what decodes as X encodes back as the same type)
    db = facts.body(pref)
    tl = param_of_type(db, CT)
    sf = shapeflow(facts, db, tl, U)
    for bb in sorted(db.live_blocks):
        for st_ in db.stmts(bb):
            if st_[0] == "A" and st_[2][0] == "agg" and st_[2][1][0] == "adt" and st_[2][1][1] == CV:
                x = st_[2][1][2]
                dsh = sf.at(bb)
                ssh = ser_shapes.get(x)
                if ssh is None or ssh == U or dsh == U:
                    continue
                bad = dsh - ssh
                r.instance("decode-arm-matches-encoder:" + x, not bad,
                           "column shapes {%s} decode to CqlValue::%s, but the serializer of that variant only accepts {%s}" % (fmt(bad, U), x, fmt(ssh, U)), db.stmt_span(st_))
                # the typed carrier used to decode this arm accepts these shapes
                for c in [c for b2, c in db.calls() if b2 in db.live_blocks and (c.name or "").endswith("::deserialize") and db.dominates(c.bb, bb) and sf.at(c.bb) == dsh]:
                    tcp = c.name[: -len("deserialize")] + "type_check"
                    if facts.body(tcp) is not None:
                        acc, _ = A.tc(tcp)
                        if acc != U:
                            r.instance("decode-arm-carrier:" + x, dsh <= acc, "the carrier decoding this arm (%s) type-checks only {%s} but the arm covers {%s}" % (fn_short(c.name), fmt(acc, U), fmt(dsh, U)), c.span)


def r6(ctx, facts):
    r = ctx.rule("R6", "short tuples and UDTs decode as null-padded", floor=10)
    bodies = []
    cv = "<scylla_cql_core::value::CqlValue as scylla_cql_core::deserialize::value::DeserializeValue<'frame, 'metadata>>::deserialize"
    for p in facts.bodies.keys():
        if p.startswith(cv):
            bodies.append(("CqlValue", facts.body(p)))
    for ar in ("(T0,)", "(T0, T1)"):
        p = "<%s as scylla_cql_core::deserialize::value::DeserializeValue<'frame, 'metadata>>::deserialize" % ar
        if p in facts.bodies:
            bodies.append(("tuple" + str(ar.count("T")), facts.body(p)))
    n = {}
    for tag, b in bodies:
        df = df_of(b, facts)
        for c in b.calls_to("FrameSlice::<'frame>::read_cql_bytes"):
            emp = b.calls_to("FrameSlice::<'frame>::is_empty")
            st = df.state_in.get(c.bb) or {}
            ok = any(k == ("call", e.bb) and in_set(v, {0}) for e in emp for k, v in st.items())
            n[tag] = n.get(tag, 0) + 1
            r.instance("%s:read-only-if-bytes-left#%d" % (tag, n[tag]), ok, "a tuple element must be read only where the slice is non-empty (otherwise it is null: short tuples are padded)", c.span)
            # the empty outcome yields None
            good = False
            for e in emp:
                for sw, ttg, _ff in truth_edges(b, df, ("call", e.bb)):
                    reach = b.reachable_from(ttg, removed_nodes=[c.bb])
                    if any(s[0] == "A" and s[2][0] == "agg" and s[2][1][0] == "adt" and s[2][1][1] == "core::option::Option" and s[2][1][2] == "None" for x in reach for s in b.stmts(x)):
                        good = True
            r.instance("%s:exhausted-is-null#%d" % (tag, n[tag]), good, "when no bytes are left the element must be None", c.span)
    for need in ("CqlValue", "tuple1", "tuple2"):
        if need not in n:
            r.fail(need + ":anchor", "the %s tuple decoder no longer reads its elements with the 'no bytes left => null' guard (short tuples would not be padded)" % need)
    # the dynamic tuple arm iterates over the declared field types (one output per type)
    ub = facts.one(r"^<scylla_cql_core::deserialize::value::UdtIterator<'frame, 'metadata> as core::iter::traits::iterator::Iterator>::next$")
    udf = df_of(ub, facts)
    sf = ub.calls_to("<impl [T]>::split_first")
    somes = [(bb, j, s) for bb in ub.live_blocks for j, s in enumerate(ub.stmts(bb)) if s[0] == "A" and s[1][0] == 0 and s[2][0] == "agg" and s[2][1][0] == "adt" and s[2][1][2] == "Some"]
    r.instance("udt:one-item-per-declared-field", len(sf) == 1 and bool(somes) and all(ub.dominates(sf[0].bb, bb) for bb, _, _ in somes), "UdtIterator::next yields exactly when a declared field remains", ub.span)
    raw = ub.calls_to("Iterator::next")
    oknone = False
    for c in raw:
        for sw in switch_on(ub, udf, ("disc", (c.dest[0], ()))):
            edges, other = switch_edges(ub, sw)
            ntg = edges.get(0, other)
            reach = ub.reachable_from(ntg)
            okv = [s for x in reach for s in ub.stmts(x) if s[0] == "A" and s[2][0] == "agg" and s[2][1][0] == "adt" and s[2][1][2] == "Ok"]
            if okv and ub.term(ntg) is not None:
                oknone = True
    r.instance("udt:missing-field-is-ok-none", oknone, "a field missing from the serialized UDT must be reported as Ok(None), not as end of iteration or error", ub.span)


def r7(ctx, facts):
    r = ctx.rule("R7", "dynamic UDT / tuple serialisation writes one cell per field of the TYPE (null when the value has none)", floor=2)
    for fn, fld, what in (("serialize_udt", "field_types", "UDT field"), ("serialize_tuple_like", None, "tuple element")):
        b = facts.one(r"^scylla_cql_core::serialize::value::%s$" % fn)
        df = df_of(b, facts)
        msw = [c.bb for c in b.calls_to("CellValueBuilder::<'buf>::make_sub_writer")]
        nexts = [c for c in b.calls_to("core::iter::traits::iterator::Iterator::next")]
        if fld:
            nexts = [c for c in nexts if fld in slice_fields(b, c.args[0])]
        if not msw or not nexts:
            raise AnchorLost("%s: make_sub_writer / loop over the type's fields not found (%d/%d)" % (fn, len(msw), len(nexts)))
        dj = dj_of(b, facts)
        ok = True
        for nx in nexts:
            for sw in switch_on(b, df, ("disc", (nx.dest[0], ()))):
                edges, other = switch_edges(b, sw)
                some_tg = edges.get(1, other)
                if nx.bb in dj.feasible_reach_edge(sw, some_tg, removed_nodes=msw):
                    ok = False
        r.instance("%s:cell-per-type-field" % fn, ok,
                   "%s: an iteration of the loop over the type's %ss can reach the next iteration without make_sub_writer(): the cell of that field is not written and every later field shifts (a missing value must be written as null)" % (fn, what),
                   b.span)


# calls through which the carriers of the reference tree obtain the bytes they hand to CellWriter::set_value: plain
# representation accessors. A value-transforming call in that chain (`addr.to_canonical()`, `x.abs()`, `s.trim()` ...) changes
# what is encoded for some values while every round trip through the driver's own decoder may still look fine.
SER_BYTE_CALLS = {
    "alloc::string::String::as_bytes", "alloc::vec::Vec::<T, A>::as_slice", "alloc::vec::Vec::<T>::with_capacity", "core::array::<impl [T; N]>::as_slice",
    "core::convert::AsRef::as_ref", "core::f32::<impl f32>::to_be_bytes", "core::f64::<impl f64>::to_be_bytes", "core::net::ip_addr::Ipv4Addr::octets",
    "core::net::ip_addr::Ipv6Addr::octets", "core::num::<impl i16>::to_be_bytes", "core::num::<impl i32>::to_be_bytes", "core::num::<impl i64>::to_be_bytes",
    "core::num::<impl i8>::to_be_bytes", "core::num::<impl u32>::to_be_bytes", "core::ops::deref::Deref::deref", "core::str::<impl str>::as_bytes",
    "num_bigint::bigint::BigInt::to_signed_bytes_be", "scylla_cql_core::value::CqlTimeuuid::as_bytes", "scylla_cql_core::value::CqlVarint::as_signed_bytes_be_slice",
    "scylla_cql_core::value::CqlVarintBorrowed::<'_>::as_signed_bytes_be_slice", "uuid::Uuid::as_bytes",
    "core::borrow::Borrow::borrow", "core::clone::Clone::clone", "core::slice::<impl [T]>::as_ref", "alloc::vec::Vec::<T, A>::as_ref",
}


# std-library calls that only re-view or copy the same bytes, by method name (receiver type does not matter for these)
STD_VIEW_NAMES = {"as_ref", "as_slice", "as_bytes", "borrow", "deref", "clone", "index", "from_ref", "to_be_bytes", "octets", "to_vec", "to_owned", "as_array",
                  "first_chunk", "copied", "cloned", "into_inner"}
INT_TYPES = {"u8", "i8", "u16", "i16", "u32", "i32", "u64", "i64", "usize", "isize"}


def _std_view(body, call, nm):
    if nm.split("::")[0] not in ("core", "alloc", "std"):
        return False
    last = nm.split("::")[-1]
    if last in STD_VIEW_NAMES:
        return True
    # `u8::from(flag)`, `i64::from(x)`: a lossless widening into a primitive integer
    if last in ("from", "into") and not call.dest[1] and body.local_ty(call.dest[0]) in INT_TYPES:
        return True
    return False


def r8(ctx, facts):
    r = ctx.rule("R8", "carriers hand CellWriter::set_value the value's own bytes (only representation accessors between the value and the bytes)", floor=18)
    for im in [i for i in facts.impls if i.get("trait_def") == SV and i["crate"] == "scylla_cql_core"]:
        p = impl_method(facts, im, "serialize")
        b = facts.body(p) if p else None
        if b is None:
            continue
        odd, n = set(), 0
        for fb in closure_family(facts, b):
            for c in fb.calls_to("CellWriter::<'buf>::set_value"):
                n += 1
                _, calls, _ = backward_slice(fb, c.args[1])
                for x in calls:
                    nm = x.callee.get("def") or x.name or "?"
                    if nm not in SER_BYTE_CALLS and not _std_view(fb, x, nm):
                        odd.add(nm)
        if n:
            r.instance("bytes-of:" + norm_self(im["self"]), not odd,
                       "serialize for %s derives the bytes it writes through %s, which is not a plain representation accessor: some values would be encoded as a different value" % (im["self"], sorted(odd)),
                       "%s:%s" % (im["file"], im["span"][1]))


def r9(ctx, facts):
    r = ctx.rule("R9", "a zero-length vector element decodes as an empty value: read_n_bytes (which reports an exhausted slice as null) is never asked for 0 bytes", floor=1)
    b = facts.one(r"^scylla_cql_core::deserialize::value::VectorIterator::<'frame, 'metadata, T>::next_variable_length_elem$")
    n = 0
    for body in closure_family(facts, b):
        dj = dj_of(body, facts)
        for c in body.calls_to("FrameSlice::<'frame>::read_n_bytes", "FrameSlice::read_n_bytes"):
            n += 1
            op = c.args[1]
            ok = False
            if op[0] in ("c", "m"):
                key = ("val", dj.canon.path(op[1]))
                sts = dj.states.get(c.bb, ())
                ok = bool(sts) and all((lambda v: v is not None and ((v[0] == "notin" and 0 in v[1]) or (v[0] == "in" and 0 not in v[1])))(dict(fs).get(key)) for fs in sts)
            r.instance("no-zero-length-read", ok,
                       "FrameSlice::read_n_bytes(size) is reached with a size that may be 0: for the LAST element of a vector the slice is then empty and the element comes back as null "
                       "(`vector<text, 2>` [\"a\", \"\"] serialized by the driver itself fails to deserialize with ExpectedNonNull); a zero-length element must yield an empty slice", c.span)
    if n == 0:
        raise AnchorLost("VectorIterator::next_variable_length_elem: no FrameSlice::read_n_bytes call found")


NULL_WRITERS = {
    # who may encode "no value": only the carriers whose Rust value says so
    "set_null": ("Option<T>::serialize[SerializeValue]", "value::serialize_tuple_like", "value::serialize_udt"),
    "set_unset": ("MaybeUnset<V>::serialize[SerializeValue]", "Unset::serialize[SerializeValue]"),
}


def r10(ctx, facts):
    r = ctx.rule("R10", "a value that is present is never encoded as null / unset: CellWriter::set_null and set_unset are called only by the carriers of absence", floor=5)
    W = "scylla_cql_core::serialize::writers::CellWriter::<'buf>::"
    for meth, allowed in NULL_WRITERS.items():
        seen = set()
        for b, bb in facts.callers_of(W + meth):
            if b.crate not in ("scylla_cql_core", "scylla_cql", "scylla") or bb not in b.live_blocks:
                continue
            key = fn_short(b.path)
            if key in seen:
                continue
            seen.add(key)
            ok = key.endswith(allowed) or any(key.startswith(a) for a in allowed)
            r.instance("%s-caller:%s" % (meth, key), ok,
                       "%s() is called from %s: only Option / MaybeUnset / Unset and the null-padding of short tuples and UDTs may write an absent cell; an EMPTY collection, "
                       "string or blob is a value of its own (`[0,0,0,0]` / length 0), distinct from null wherever it is nested" % (meth, key), b.term_span(bb))
        if not seen:
            raise AnchorLost("no caller of CellWriter::%s found" % meth)
    # Option: null only for None
    for b in facts.find(r"^<core::option::Option<T> as scylla_cql_core::serialize::value::SerializeValue>::serialize$"):
        dj = dj_of(b, facts)
        for c in b.calls_to(W + "set_null"):
            sts = dj.states_at(c.bb)
            ok = bool(sts) and all(any(k[0] == "disc" and k[1][0] == 1 and in_set(v, {0}) for k, v in st.items()) for st in sts)
            r.instance("option-null-only-for-none", ok, "Option<T>::serialize writes null where `self` is not known to be None", c.span)


def r11(ctx, facts):
    r = ctx.rule("R11", "signed vints: zig-zag is the 64-bit transform (term for term), it has one encoder and one decoder, and duration components reach it widened to i64", floor=5)
    from ..terms import Evaluator, mk, c as C, fmt as tfmt
    T = "scylla_cql_core::frame::types::"
    ev = Evaluator(facts)
    v = ("in", "v")
    eb = facts.one(r"^%szig_zag_encode$" % T)
    got, _ = ev.eval_body(eb, [], 0)
    ref = mk("xor", ("shr", "s", v, C(63)), mk("shl", v, C(1)))
    r.instance("zig-zag-encode", got == ref, "zig_zag_encode(v) = %s; must be (v >> 63) ^ (v << 1) on i64" % tfmt(got), eb.span)
    db = facts.one(r"^%szig_zag_decode$" % T)
    got, _ = ev.eval_body(db, [], 0)
    ref = mk("xor", ("shr", "u", v, C(1)), ("un", "Neg", mk("and", v, C(1))))
    r.instance("zig-zag-decode", got == ref, "zig_zag_decode(v) = %s; must be (v >> 1) ^ -(v & 1)" % tfmt(got), db.span)
    from ..util import callers_keys
    enc = sorted(set(callers_keys(facts, T + "zig_zag_encode", crate_prefix="scylla_cql_core")))
    dec = sorted({fn_short(x.path) for x in facts.bodies.mentioning("zig_zag_decode") if x.crate == "scylla_cql_core" and not x.path.endswith("zig_zag_decode") and "::promoted[" not in x.path})
    r.instance("one-signed-encoder", enc == ["types::vint_encode"], "zig_zag_encode is used by %s (must be vint_encode only)" % enc)
    r.instance("one-signed-decoder", all(x.startswith("types::vint_decode") for x in dec) and bool(dec), "zig_zag_decode is used by %s (must be vint_decode only)" % dec)
    # the duration serializer: three vint_encode calls, the 32-bit components widened first; nothing else produces its bytes
    n = 0
    for b in facts.find(r"^<scylla_cql_core::value::CqlDuration as scylla_cql_core::serialize::value::SerializeValue>::serialize"):
        for body in closure_family(facts, b):
            calls = [x for bb, x in body.calls() if bb in body.live_blocks]
            ve = [x for x in calls if (x.name or "").endswith(T + "vint_encode") or (x.name or "").endswith("types::vint_encode")]
            raw = [x for x in calls if (x.name or "").endswith("unsigned_vint_encode")]
            if not ve and not raw:
                continue
            n += 1
            r.instance("duration-through-vint_encode", len(ve) >= 1 and not raw,
                       "CqlDuration::serialize must emit months, days and nanoseconds through the codec's own 64-bit vint_encode: found %d vint_encode call sites and %d direct unsigned_vint_encode calls "
                       "- a 32-bit zig-zag sign-extends into a 9-byte vint for |value| >= 2^30" % (len(ve), len(raw)), (raw or ve)[0].span)
            # what is handed to vint_encode is an i64 obtained from the fields by widening only (no arithmetic on the way)
            from ..util import field_slice
            for x in ve:
                _, cs, bins = field_slice(body, x.args[0])
                odd = [(c_.decl or c_.name or "").split("::")[-1] for c_ in cs if (c_.decl or c_.name or "").split("::")[-1] not in ("from", "into", "next", "into_iter", "iter", "deref", "clone", "copied")]
                r.instance("duration-term-is-the-field-widened", not bins and not odd, "a duration component reaches vint_encode through %s" % (odd or [b_[1] for b_ in bins]), x.span)
    if n == 0:
        raise AnchorLost("CqlDuration::serialize: no vint encoding found")


def r12(ctx, facts):
    """optional time carriers (chrono-04 / time-03; compiled only in the `full` configuration = thorough tier): a CQL
    timestamp / date is a signed count from the epoch, and the instant is bound as the unit it falls INTO (floor). Rust's
    `/` and `%` truncate toward zero, so a conversion into CqlTimestamp / CqlDate that divides rounds every pre-epoch
    instant with a sub-unit part one unit late (and disagrees with the sibling carrier)."""
    r = ctx.rule("R12", "conversions of foreign date/time types into CqlTimestamp / CqlDate never use truncating `/` or `%` (floor, not round-toward-zero, across the epoch)", floor=0)
    config = ctx.alias.get("default", "default")
    bodies = [b for b in facts.find(r"^<scylla_cql_core::value::Cql(Timestamp|Date) as core::convert::(From|TryFrom)<") if not b.path.endswith("::_")]
    for b in bodies:
        src = b.path.split("<", 2)[2].split(">>::")[0]
        bad = []
        for bb in sorted(b.live_blocks):
            for st in b.stmts(bb):
                if st[0] == "A" and st[2][0] in ("bin", "cbin") and st[2][1] in ("Div", "Rem"):
                    bad.append((st[2][1], b.stmt_span(st)))
        r.instance("floor-not-truncate:%s:%s" % (b.path.split(" as ")[0].split("::")[-1], src), not bad,
                   "`%s` in the conversion from %s: truncation toward zero binds a pre-epoch instant with a sub-unit part one unit late "
                   "(use the floored accessors or div_euclid)" % (bad[0][0] if bad else "", src), bad[0][1] if bad else b.span)
    if config == "full":
        r.instance("population", len(bodies) >= 4, "only %d conversions into CqlTimestamp / CqlDate found under the full feature set (4 confirmed by hand)" % len(bodies), None, nontrivial=False)
    else:
        r.note("%s configuration: %d optional date/time conversions compiled in" % (config, len(bodies)))


NOT_EMPTYABLE = {"Native:Counter", "Native:Duration", "Collection", "UserDefinedType"}


def r13(ctx, facts):
    """the zero-length `empty` cell: every CQL type except counter, duration, collections and UDTs has it (ScyllaDB's set), and
    the writer (`MaybeEmpty`, `CqlValue::Empty`) asks ColumnType::supports_special_empty_value before it writes one. The set of
    column types for which that function answers false is compared with the protocol's (seed C01-k: inet was refused)."""
    from ..util import dj_of
    r = ctx.rule("R13", "supports_special_empty_value is false exactly for counter, duration, collections and UDTs", floor=20)
    b = facts.one(r"^scylla_cql_core::frame::response::result::ColumnType::<'_>::supports_special_empty_value$")
    dj = dj_of(b, facts)
    CT = "scylla_cql_core::frame::response::result::ColumnType"
    NT = "scylla_cql_core::frame::response::result::NativeType"
    ct_names = {int(v["discr"]): v["name"] for v in facts.adts[CT]["variants"]}
    nt_names = {int(v["discr"]): v["name"] for v in facts.adts[NT]["variants"]}
    universe = {n for n in ct_names.values() if n != "Native"} | {"Native:" + n for n in nt_names.values()}
    got = {0: set(), 1: set()}
    n_ret = 0
    # the return place and the locals that are copied into it (a helper's result after inlining), possibly negated (`!matches!(..)`)
    targets, grew = {0: False}, True
    while grew:
        grew = False
        for bb in b.live_blocks:
            for st in b.stmts(bb):
                if not (st[0] == "A" and st[1][0] in targets and not st[1][1]):
                    continue
                src, inv = None, False
                if st[2][0] == "use" and st[2][1][0] in ("c", "m") and not st[2][1][1][1]:
                    src = st[2][1][1][0]
                elif st[2][0] == "un" and st[2][1] == "Not" and st[2][2][0] in ("c", "m") and not st[2][2][1][1]:
                    src, inv = st[2][2][1][0], True
                if src is not None and src not in targets:
                    targets[src] = targets[st[1][0]] ^ inv
                    grew = True
    for bb, c in b.calls():
        if bb in b.live_blocks and c.dest[0] in targets:
            raise AnchorLost("supports_special_empty_value: the result comes from a call that was not inlined (%s)" % (c.name or c.decl))
    for bb in sorted(b.live_blocks):
        for j, st in enumerate(b.stmts(bb)):
            if not (st[0] == "A" and st[1][0] in targets and not st[1][1]):
                continue
            if st[2][0] == "use" and st[2][1][0] in ("c", "m"):
                continue
            if st[2][0] == "un" and st[2][1] == "Not":
                continue
            if not (st[2][0] == "use" and st[2][1][0] == "k" and st[2][1][1] == "int"):
                raise AnchorLost("supports_special_empty_value: a result that is not a constant per column type (%s)" % (st[2][0],))
            val = int(st[2][1][3]) ^ (1 if targets[st[1][0]] else 0)
            n_ret += 1
            for stt in dj.states_before_stmt(bb, j):
                ct = None
                nt = None
                for k, v in stt.items():
                    if k[0] != "disc" or v[0] != "in":
                        continue
                    ty = dj.disc_ty.get(k[1], "")
                    if k[1] == (1, ()) or ty == CT:
                        ct = set(v[1])
                    elif ty == NT or (k[1][1] and k[1][1][0] == "@Native"):
                        nt = set(v[1])
                cts = ct if ct is not None else set(ct_names)
                for c in cts:
                    nm = ct_names.get(c)
                    if nm == "Native":
                        for x in (nt if nt is not None else set(nt_names)):
                            got[val].add("Native:" + nt_names[x])
                    elif nm:
                        got[val].add(nm)
    if not n_ret:
        raise AnchorLost("supports_special_empty_value: no constant result found")
    for shape in sorted(universe):
        want_false = shape in NOT_EMPTYABLE
        is_false, is_true = shape in got[0], shape in got[1]
        ok = (is_false and not is_true) if want_false else (is_true and not is_false)
        r.instance("emptyable:" + shape, ok,
                   "supports_special_empty_value answers %s for %s; the protocol's set says %s (an empty value bound to that type is %s)"
                   % ("false" if is_false and not is_true else "true" if is_true and not is_false else "both/neither", shape,
                      "false" if want_false else "true", "written although the type has none" if want_false else "refused with NotEmptyable"), b.span)


def r14(ctx, facts):
    """shared with C16 (stated there as R6): the derived by-name UDT serializer writes the nulls owed for UDT fields the struct does
    not have exactly once - the cell is the wire encoding of the value, field for field"""
    from .c16 import r6 as c16_r6
    c16_r6(ctx, ctx.facts("family"))


def check(ctx):
    facts = inline_view(ctx.facts("default"))
    A = Accept(facts)
    tabs = None
    try:
        tabs = r1(ctx, facts, A)
    except AnchorLost as ex:
        ctx.rule("R1x", "anchors").fail("anchor-lost", str(ex))
    for fn in ((lambda c, f: r2(c, f, tabs)) if tabs else None, r3, r4, r5, r6, r7, r8, r9, r10, r11, r12, r13, r14):
        if fn is None:
            continue
        try:
            fn(ctx, facts)
        except AnchorLost as ex:
            ctx.rule("ANCHOR%d" % len(ctx.rules), "anchors").fail("anchor-lost", str(ex))
    ctx.assumptions += ["CQL v4 fixed widths and the -1/-2 length sentinels transcribed from the protocol specification"]
