"""C11 — shard of a token and shard-aware source ports follow ScyllaDB's algorithm.

The property is arithmetic; what is decided here are the clauses whose truth is visible in the *expression shape* of the code,
without evaluating anything on concrete values and without a solver:

 R1 `Sharder::shard_of` is, as a term over its inputs (value numbering of its single path), the formula of the property text:
    trunc32( ( zext128( (token + 2^63 mod 2^64) << msb_ignore ) * zext128(nr_shards) ) >> 64 ). Adding 2^63 and flipping the top bit
    are identified; the arithmetic width (u64 bias / shift, u128 product) is part of the term.
 R2 `Sharder::shard_of_source_port` is `port mod nr_shards`.
 R3 `ShardInfo` values are built only by `ShardInfo::new`, whose Ok exit lies where `shard < nr_shards` is known; `TryFrom<&HashMap>`
    hands `new` the values parsed from the three SCYLLA_* entries in their own positions; the count goes through `NonZero::new`.
 R4 lowest port of a shard in a range - symbolic congruence domain (values as linear forms over the inputs modulo nr_shards):
    the offset added to `range_start` is a remainder modulo nr_shards (so 0 <= offset < n) whose class is `shard - range_start`,
    computed without 16-bit additions and without a subtraction that can underflow; the sum is a *checked* u16 addition and is
    handed out only where it is known `<= range_end`.
 R5 every stepped range of the port functions is the *inclusive* range [lowest port, range_end] stepped by nr_shards
    (no arithmetic on either bound or on the stride).
 R6 the port iterator is `skip(k)` of one such stepped range chained with `take(k)` of another, same k; it is empty only
    where no lowest port exists; the drawn port is an element of such a stepped range, `None` only where no lowest port exists.

By the usual arithmetic (stated, not machine-checked): R4-R6 give "in range, congruent to the shard, each such port exactly once,
nothing only if none exists"; R1 is the formula itself, and its value is below nr_shards because biased < 2^64.
Not decided: any rewrite of these functions into a different but equivalent arithmetic form is reported for reading (the
congruence domain of R4 absorbs re-associations and reorderings; R1 absorbs operand order, `wrapping_add`/`^`, constant spelling).
"""
from ..inline import inline_view
from ..mir import AnchorLost
from ..terms import Evaluator, mk, c, fmt
from ..util import df_of, dj_of, fn_short, cmp_truth, creation_site, in_set

S = "scylla::routing::sharding::"
WID = {"i64": 64, "u64": 64, "i32": 32, "u32": 32, "usize": 64, "isize": 64, "i8": 8, "u8": 8, "i16": 16, "u16": 16, "u128": 128, "i128": 128}


# ---------------------------------------------------------------------------------------------------------------------------
# term normalisation shared by R1 / R2 / R4

def norm(t, wrap_as_add=True):
    """fold the spellings that do not change the value: wrapping_add -> add, NonZero::get -> its operand, From/Into between
    integers -> the identity on values (lossless by construction), 1 << 63 -> constant, x + 2^63 == x ^ 2^63 (mod 2^64)"""
    if not isinstance(t, tuple):
        return t
    t = tuple(norm(x, wrap_as_add) if isinstance(x, tuple) else x for x in t)
    k = t[0]
    if k == "call":
        nm = t[1]
        if not wrap_as_add and nm.startswith(("wrapping_", "unchecked_", "saturating_", "overflowing_")):
            return t          # where the exact integer value matters, modular / clamped arithmetic is not addition
        if nm in ("wrapping_add", "unchecked_add") and len(t) == 4:
            return norm(mk("add", t[2], t[3]))
        if nm in ("wrapping_sub",) and len(t) == 4:
            return norm(mk("sub", t[2], t[3]))
        if nm in ("wrapping_mul",) and len(t) == 4:
            return norm(mk("mul", t[2], t[3]))
        if nm in ("wrapping_shl",) and len(t) == 4:
            return norm(("shl", t[2], t[3]))
        if nm == "get" and len(t) == 3:
            return t[2]
        if nm in ("from", "into") and len(t) == 3:
            return ("widen", t[2])
        if nm == "value" and len(t) == 3:           # Token::value(&self)
            a = t[2]
            return ("fld", a, "value")
    if k == "shl" and t[1][0] == "c" and t[2][0] == "c":
        return c(t[1][1] << t[2][1])
    if k in ("add", "xor") and len(t) == 3:
        a, b = t[1], t[2]
        for x, y in ((a, b), (b, a)):
            if y == c(1 << 63):
                return ("flipmsb", x)
    if k == "cast":
        frm, to = WID.get(t[1]), WID.get(t[2])
        if frm and to and to > frm and not t[1].startswith("i"):
            return ("widen", t[3]) if to < 128 else ("widen128", t[3])
        if frm and to and to < frm:
            return ("trunc", t[2], t[3])
    return t


def strip_widen(t):
    while isinstance(t, tuple) and t[0] in ("widen",):
        t = t[1]
    return t


def r1_r2(ctx, facts):
    r = ctx.rule("R1", "shard_of is, term for term, ((token + 2^63) << msb_ignore) * nr_shards >> 64 on u64 / u128", floor=1)
    ev = Evaluator(facts, follow_try=True)
    b = facts.one(r"^%sSharder::shard_of$" % S)
    t, _ = ev.eval_body(b, [], 0)
    got = norm(t) if t is not None else None
    tok = ("fld", ("in", "token"), "value")
    self_ = ("in", "self")
    ref = ("trunc", "u32", ("shr", "u", mk("mul", ("widen128", ("fld", self_, "nr_shards")),
                                           ("widen128", ("shl", ("flipmsb", tok), ("fld", self_, "msb_ignore")))), c(64)))
    ok = got == ref
    if not ok and got is not None:
        # the product's operands may be ordered either way by mk(); compare with the mirrored reference as well
        ref2 = ("trunc", "u32", ("shr", "u", ("mul", ref[2][2][2], ref[2][2][1]), c(64)))
        ok = got == ref2
    r.instance("shard-of-formula", ok, "shard_of(token) = %s; the algorithm of the property is %s" % (fmt(got) if got else "<more than one path>", fmt(ref)), b.span)
    r2 = ctx.rule("R2", "shard_of_source_port is port mod nr_shards", floor=1)
    b2 = facts.one(r"^%sSharder::shard_of_source_port$" % S)
    t2, _ = ev.eval_body(b2, [], 0)
    got2 = strip_widen(norm(t2)) if t2 is not None else None
    ref2 = ("rem", ("in", "source_port"), ("fld", self_, "nr_shards"))
    r2.instance("port-to-shard", got2 == ref2, "shard_of_source_port(p) = %s; must be p %% nr_shards" % (fmt(got2) if got2 else "<more than one path>"), b2.span)


# ---------------------------------------------------------------------------------------------------------------------------
# R3 validated construction

def r3(ctx, facts):
    r = ctx.rule("R3", "ShardInfo is built only by ShardInfo::new, Ok only where shard < nr_shards; SUPPORTED entries wired to their own fields", floor=5)
    nb = facts.one(r"^%sShardInfo::new$" % S)
    # who builds
    n_agg = 0
    for b in facts.bodies.mentioning(S + "ShardInfo"):
        if b.crate != "scylla" or "::promoted[" in b.path:
            continue
        for bb in sorted(b.live_blocks):
            for st in b.stmts(bb):
                if st[0] == "A" and st[2][0] == "agg" and st[2][1][0] == "adt" and st[2][1][1] == S + "ShardInfo":
                    n_agg += 1
                    if (b.impl_trait_def or "").endswith("clone::Clone"):
                        continue      # a copy of an already validated value
                    r.instance("built-in:" + fn_short(b.path), b.path == nb.path, "a ShardInfo is built outside the validating constructor ShardInfo::new", b.stmt_span(st))
    if n_agg == 0:
        raise AnchorLost("no ShardInfo aggregate found")
    dj = dj_of(nb, facts)
    df = df_of(nb, facts)
    shard = ("val", (1, ()))
    n_ok = 0
    for bb in sorted(nb.live_blocks):
        for j, st in enumerate(nb.stmts(bb)):
            if st[0] == "A" and st[2][0] == "agg" and st[2][1][0] == "adt" and st[2][1][1] == S + "ShardInfo":
                n_ok += 1
                sts = dj.states_before_stmt(bb, j)
                # the bound compared against must be nr_shards.get(): find the comparison facts that mention `shard`
                good = bool(sts)
                why = ""
                for stt in sts:
                    found = False
                    for k, v in stt.items():
                        if k[0] == "bin" and k[1] in ("Lt", "Le", "Gt", "Ge") and shard in (k[2], k[3]):
                            other = k[3] if k[2] == shard else k[2]
                            if other[0] == "call" and (nb.term(other[1])[1].get("def") or "").endswith("NonZero::<T>::get"):
                                if cmp_truth(stt, "Lt", shard, other) == 1:
                                    found = True
                    if not found:
                        good = False
                        why = df.fmt_state(stt)
                r.instance("ok-only-below-count", good, "ShardInfo::new builds the value where `shard < nr_shards.get()` is not known to hold: " + why, nb.stmt_span(st))
    # TryFrom wiring
    tb = facts.one(r"<%sShardInfo as core::convert::TryFrom<&.*HashMap<.*>>>::try_from$" % S.replace("::", "::"))
    calls = [c_ for c_ in tb.calls_to(S + "ShardInfo::new")]
    if len(calls) != 1:
        raise AnchorLost("try_from: expected one call of ShardInfo::new, found %d" % len(calls))
    from ..util import backward_slice, field_slice
    want = [("SCYLLA_SHARD", "shard"), ("SCYLLA_NR_SHARDS", "nr_shards"), ("SCYLLA_SHARDING_IGNORE_MSB", "msb_ignore")]
    for i, (entry, nm) in enumerate(want):
        _, cs, _ = field_slice(tb, calls[0].args[i])
        seen = set()
        for c_ in cs:
            if (c_.name or "").endswith("HashMap::<K, V, S>::get") or (c_.decl or "").endswith("::get") and "HashMap" in (c_.name or ""):
                for a in c_.args[1:]:
                    s_ = _const_str(facts, tb, a)
                    if s_:
                        seen.add(s_)
        r.instance("wired:" + nm, seen == {entry}, "argument `%s` of ShardInfo::new derives from the option entries %s; must be exactly %s" % (nm, sorted(seen), entry), calls[0].span)
    locs, cs, _ = backward_slice(tb, calls[0].args[1])
    r.instance("count-through-nonzero", any((c_.name or "").endswith("NonZero::<T>::new") for c_ in cs), "the shard count must pass NonZero::new (zero shards is an error)", calls[0].span)


def _const_str(facts, b, op):
    """string constant an operand refers to (directly, or through a named const / promoted / local copy)"""
    import json
    seen = 0
    while op and seen < 6:
        seen += 1
        if op[0] == "k":
            s = json.dumps(op)
            for e in ("SCYLLA_SHARDING_IGNORE_MSB", "SCYLLA_NR_SHARDS", "SCYLLA_SHARD"):
                if '"%s"' % e in s or "'%s'" % e in s or e + '"' in s:
                    return e
            if len(op) > 4 and op[4]:
                cb = facts.body(op[4])
                if cb is not None:
                    txt = cb.dump() if hasattr(cb, "dump") else ""
                    for e in ("SCYLLA_SHARDING_IGNORE_MSB", "SCYLLA_NR_SHARDS", "SCYLLA_SHARD"):
                        if "'%s'" % e in txt or '"%s"' % e in txt:
                            return e
            return None
        sd = b.single_def(op[1][0])
        if not sd or sd[0] != "stmt":
            return None
        rv = sd[3]
        if rv[0] == "use":
            op = rv[1]
        elif rv[0] in ("ref", "cfd"):
            pl = rv[-1]
            op = ["c", pl]
            if pl[0] == op[1][0] and seen > 4:
                return None
        else:
            return None
    return None


# ---------------------------------------------------------------------------------------------------------------------------
# R4 congruence domain

class Lin(dict):
    """integer linear form: atom -> coefficient, "" -> constant"""

    def add(self, o, k=1):
        out = Lin(self)
        for a, v in o.items():
            out[a] = out.get(a, 0) + k * v
            if out[a] == 0:
                del out[a]
        return out


def lin(t, N):
    """linear form of a term, nr_shards kept as the atom "N"; remainders modulo N are the atom ("rem", form)"""
    t = strip_widen(t)
    if t == N:
        return Lin({"N": 1})
    k = t[0]
    if k == "c":
        return Lin({"": t[1]}) if t[1] else Lin()
    if k in ("add", "sub"):
        return lin(t[1], N).add(lin(t[2], N), 1 if k == "add" else -1)
    if k == "trunc":
        inner = strip_widen(t[2])
        if inner[0] == "rem" and strip_widen(inner[2]) == N:      # < N <= 65535: the truncation to 16 bits is lossless
            return lin(inner, N)
    return Lin({t: 1})


def cls(form, N):
    """class modulo N of a linear form: N ~ 0, (x mod N) ~ x"""
    out = Lin()
    for a, v in form.items():
        if a == "N":
            continue
        if isinstance(a, tuple) and a[0] == "rem" and strip_widen(a[2]) == N:
            out = out.add(cls(lin(a[1], N), N), v)
        else:
            out = out.add(Lin({a: 1}), v)
    return out


def below_n(t, N, shard):
    t = strip_widen(t)
    return t == shard or (t[0] == "rem" and strip_widen(t[2]) == N)


def sub_safe(t, N, shard, bad):
    """every subtraction inside t has the shape (.. + N + ..) - (something < N): it cannot underflow"""
    t = strip_widen(t)
    if not isinstance(t, tuple):
        return
    if t[0] == "sub":
        a = lin(t[1], N)
        if not (a.get("N", 0) >= 1 and all(v >= 0 for v in a.values()) and below_n(t[2], N, shard)):
            bad.append(fmt(t))
    for x in t[1:]:
        if isinstance(x, tuple):
            sub_safe(x, N, shard, bad)


def _resolve_caps(t, env, ev, body):
    """closure term with by-reference captures replaced by the captured values"""
    caps = []
    for x in t[2:]:
        if isinstance(x, tuple) and x[0] == "ref":
            caps.append(ev.read_key(env, body, x[1]))
        else:
            caps.append(x)
    return caps


def r4(ctx, facts):
    r = ctx.rule("R4", "lowest port = range_start + ((shard - range_start) mod n), no overflow, handed out exactly where it is <= range_end", floor=6)
    b = facts.one(r"^%sSharder::calculate_lowest_port_for_shard_in_range$" % S)
    ev = Evaluator(facts, follow_try=True)
    ret, env = ev.eval_body(b, [], 0)
    df = df_of(b, facts)
    dj = dj_of(b, facts)
    N = ("fld", ("in", "self"), "nr_shards")
    shard = ("in", "shard")
    up16 = []
    for bb in sorted(b.live_blocks):
        for st in b.stmts(bb):
            if st[0] == "A" and st[2][0] == "bin" and st[2][1] in ("Add", "AddWithOverflow", "AddUnchecked", "Mul", "MulWithOverflow", "MulUnchecked") \
                    and WID.get(b.ty(st[2][4]), 64) <= 16:
                up16.append(st)
    r.instance("no-16-bit-addition", not up16, "a u16 addition / multiplication on ports or shard numbers overflows for shard counts or ports near 65535 (%d found); widen first or use checked_add" % len(up16),
               b.stmt_span(up16[0]) if up16 else b.span)

    def is_start(t):
        return isinstance(t, tuple) and t[0] == "call" and t[1] == "start"

    def is_end(t):
        return isinstance(t, tuple) and t[0] == "call" and t[1] == "end"

    def plin(t):
        """linear form of a port-valued term; the success value of a checked addition is the sum"""
        t = strip_widen(t)
        if t[0] == "fld" and t[2] == "0" and t[1][0] == "fld":
            t = t[1]                       # `.0` of the Continue payload (kept or dropped by the evaluator's wrapper rule)
        if t[0] == "fld" and "Continue" in str(t[2]) and t[1][0] == "call" and t[1][1] == "branch":
            return plin(t[1][2])
        if t[0] == "call" and t[1] in ("checked_add",) and len(t) == 4:
            return plin(t[2]).add(plin(t[3]))
        if t[0] in ("add", "sub"):
            return plin(t[1]).add(plin(t[2]), 1 if t[0] == "add" else -1)
        if t[0] == "trunc":
            inner = strip_widen(t[2])
            if inner[0] == "rem" and strip_widen(inner[2]) == N:
                return Lin({inner: 1})
        if t[0] == "c":
            return Lin({"": t[1]}) if t[1] else Lin()
        return Lin({t: 1})

    def check_port(P, span):
        form = plin(P)
        starts = [a for a in form if is_start(a)]
        offs = [a for a in form if isinstance(a, tuple) and a[0] == "rem" and strip_widen(a[2]) == N]
        rest = [a for a in form if a not in starts and a not in offs]
        shape = len(starts) == 1 and form[starts[0]] == 1 and len(offs) == 1 and form[offs[0]] == 1 and not rest
        r.instance("port-is-start-plus-offset", shape,
                   "the port handed out is %s; it must be range_start + (a remainder modulo nr_shards), added without wrapping: with an offset that is not reduced modulo n the port is not the lowest one, and a later one of the range is skipped" % fmt(P), span)
        if not shape:
            return None
        S0, off = starts[0], offs[0]
        got = cls(lin(off[1], N), N)
        want = Lin({shard: 1, S0: -1})
        r.instance("offset-class", got == want, "offset = %s (mod n), i.e. %s; it must be congruent to shard - range_start" % (
            fmt(off[1]), " ".join("%+d*%s" % (v, fmt(a) if isinstance(a, tuple) else (a or "1")) for a, v in got.items()) or "0"), span)
        bad = []
        sub_safe(off[1], N, shard, bad)
        r.instance("no-underflow", not bad, "a subtraction inside the offset can go below zero: %s (needs the shape (.. + n) - (value < n))" % "; ".join(bad), span)
        return form

    if ret is not None and ret[0] == "call" and ret[1] == "filter" and len(ret) == 4 and isinstance(ret[3], tuple) and ret[3][0] == "closure":
        # `checked_add(..).filter(|&p| p <= end)`: the port is the sum on its success path, the guard is the closure's answer for it
        cbf = facts.body(ret[3][1])
        gr, _ = ev.eval_body(cbf, [("tuple",) + tuple(_resolve_caps(ret[3], env, ev, b)), ret[2]], 1) if cbf is not None else (None, None)
        if gr is None:
            raise AnchorLost("calculate_lowest_port_for_shard_in_range: the predicate of Option::filter is not straight-line")
        ret = ("call", "then_some", gr, ret[2])
    if ret is not None and ret[0] == "call" and ret[1] in ("then_some", "then") and len(ret) == 4:
        G, X = norm(ret[2], False), ret[3]
        if ret[1] == "then":
            if not (isinstance(X, tuple) and X[0] == "closure"):
                raise AnchorLost("calculate_lowest_port_for_shard_in_range: bool::then with something that is not a closure")
            cb = facts.body(X[1])
            pr, _ = ev.eval_body(cb, [("tuple",) + tuple(_resolve_caps(X, env, ev, b))], 1) if cb is not None else (None, None)
            if pr is None:
                raise AnchorLost("calculate_lowest_port_for_shard_in_range: the closure of bool::then is not straight-line")
            P = norm(pr, False)
        else:
            P = norm(X, False)
        form = check_port(P, b.span)
        if form is not None:
            ok, why = False, "condition %s" % fmt(G)
            if G[0] == "cmp" and G[1] in ("Le", "Lt", "Ge", "Gt"):
                A, B = plin(G[2]), plin(G[3])
                d = A.add(B, -1) if G[1] in ("Le", "Lt") else B.add(A, -1)      # d <= 0 or d < 0
                strict = G[1] in ("Lt", "Gt")
                ends = [a for a in d if is_end(a)]
                want = Lin(form)
                if len(ends) == 1:
                    want = want.add(Lin({ends[0]: 1}), -1)
                if d == want and not strict and len(ends) == 1:
                    ok = True
                elif d == want and strict:
                    why = "the condition %s is strict: the port equal to range_end is refused although it is a valid port of the shard" % fmt(G)
                else:
                    why = "the condition %s is not `port <= range_end` for the port %s" % (fmt(G), fmt(P))
            r.instance("guard-le-range-end", ok, why, b.span)
        return
    # branching exit (`if port <= end { Some(port) } else { None }`): the straight-line prefix gives the port, the dataflow the guard
    adds = [v for k, v in env.items() if isinstance(v, tuple) and v[0] == "call" and v[1] == "checked_add" and len(v) == 4]
    if len(adds) != 1:
        raise AnchorLost("calculate_lowest_port_for_shard_in_range: neither a then_some / then exit nor exactly one checked_add on the straight-line prefix (found %d)" % len(adds))
    check_port(norm(adds[0], False), b.span)
    n_exit = 0
    for bb in sorted(b.live_blocks):
        for j, st in enumerate(b.stmts(bb)):
            if st[0] == "A" and st[1][0] == 0 and not st[1][1] and st[2][0] == "agg" and st[2][1][0] == "adt" and st[2][1][1] == "core::option::Option" and st[2][1][2] == "Some":
                n_exit += 1
                port = df.expr_of_operand(st[2][2][0])
                ok = True
                for stt in dj.states_before_stmt(bb, j):
                    good = False
                    for kk, vv in stt.items():
                        if kk[0] == "bin" and kk[1] in ("Le", "Ge", "Lt", "Gt") and port in (kk[2], kk[3]):
                            other = kk[3] if kk[2] == port else kk[2]
                            if _is_end(b, df, other) and cmp_truth(stt, "Le", port, other) == 1:
                                good = True
                    ok = ok and good
                r.instance("guard-le-range-end", ok, "Some(port) is returned where `port <= range_end` is not known to hold", b.stmt_span(st))
    if n_exit == 0:
        raise AnchorLost("calculate_lowest_port_for_shard_in_range: no Some / then_some exit found")


def _is_end(b, df, e):
    """expression is `*port_range.0.end()` (a call of RangeInclusive::end, possibly dereferenced / copied / carried in a tuple)"""
    if e and e[0] == "call":
        return (b.term(e[1])[1].get("def") or "").endswith("RangeInclusive::<Idx>::end")
    if e and e[0] == "val":
        from ..util import field_slice
        proj = [["f", int(x), "", 0] for x in e[1][1] if str(x).isdigit()]
        _, cs, bins = field_slice(b, ["c", [e[1][0], proj]])
        names = {(c_.name or "").split("::")[-1] for c_ in cs}
        return "end" in names and "start" not in names and not ({"checked_add", "from"} & names) and not bins
    return False


def _le_end(b, df, e, port_op):
    port = df.expr_of_operand(port_op)
    op, x, y = e[1], e[2], e[3]
    if op == "Le" and x == port and _is_end(b, df, y):
        return True
    if op == "Ge" and y == port and _is_end(b, df, x):
        return True
    return False


# ---------------------------------------------------------------------------------------------------------------------------
# R5 / R6 stepped ranges, iterator and draw

def xslice(facts, body, op, acc=None, depth=0, want=()):
    """calls and binary operations the value of `op` may derive from - field-sensitive (util.field_slice), followed through
    closure captures (into the creator) and through calls of local closures (into their return value).
    -> {"calls": [(body, Call)], "bins": [(body, rvalue)], "seen": {(body path, local, fields)}}"""
    acc = acc if acc is not None else {"calls": [], "bins": [], "seen": set()}
    if op[0] not in ("c", "m") or depth > 6:
        return acc
    work = []

    def fields_of(proj):
        return tuple(e[1] for e in proj if isinstance(e, list) and e[0] == "f")

    def push_place(pl, w=()):
        work.append((pl[0], fields_of(pl[1]) + tuple(w)))

    def push_rv(rv, w):
        k = rv[0]
        if k == "agg" and w and rv[1][0] in ("tuple", "adt", "closure", "array"):
            if w[0] < len(rv[2]) and rv[2][w[0]][0] in ("c", "m"):
                push_place(rv[2][w[0]][1], w[1:])
            return
        if k == "bin":
            acc["bins"].append((body, rv))
        for x in _places(rv):
            push_place(x, w if k in ("use", "ref", "addr", "cfd", "cast") else ())
    push_place(op[1], want)
    while work:
        l, w = work.pop()
        if (body.path, l, w) in acc["seen"]:
            continue
        acc["seen"].add((body.path, l, w))
        if l == 1 and body.kind == "Closure" and w:
            site = creation_site(facts, body)
            if site is not None and w[0] < len(site[3][2][2]):
                xslice(facts, site[0], site[3][2][2][w[0]], acc, depth + 1, w[1:])
            continue
        if body.kind == "Closure" and 2 <= l <= body.argc:
            # the parameter of a closure handed to an Option / Result combinator is the payload of that call's receiver
            site = creation_site(facts, body)
            if site is not None:
                par, cl_local = site[0], site[3][1][0]
                for bbp, cp in par.calls():
                    if bbp not in par.live_blocks or len(cp.args) < 2:
                        continue
                    nmp = (cp.decl or cp.name or "").split("::")[-1]
                    if nmp not in ("map", "and_then", "map_or", "map_or_else", "filter", "is_some_and", "is_none_or", "inspect", "then"):
                        continue
                    for a in cp.args[1:]:
                        if a[0] in ("c", "m"):
                            la = a[1][0]
                            for _ in range(4):
                                sdp = par.single_def(la)
                                if sdp and sdp[0] == "stmt" and sdp[3][0] == "use" and sdp[3][1][0] in ("c", "m"):
                                    la = sdp[3][1][1][0]
                            if la == cl_local:
                                xslice(facts, par, cp.args[0], acc, depth + 1)
            continue
        for d in body.defs.get(l, []):
            if d[0] == "call":
                cl = d[2]
                acc["calls"].append((body, cl))
                res = cl.callee.get("res") or cl.callee.get("def") or ""
                cb = facts.body(res) if "{closure" in res.split("::")[-1] else None
                if cb is not None and cb.kind == "Closure":
                    xslice(facts, cb, ["c", [0, []]], acc, depth + 1, w)
                    continue
                for a in cl.args:
                    if a[0] in ("c", "m"):
                        push_place(a[1])
            elif d[0] == "stmt":
                push_rv(d[3], w)
            elif d[0] in ("part", "dpart"):
                pf = fields_of(d[3][1])
                n = min(len(pf), len(w))
                if pf[:n] != w[:n]:
                    continue
                rv = d[4]
                if rv and rv[0] not in ("call", "setdisc"):
                    push_rv(rv, w[len(pf):] if len(w) > len(pf) else ())
    return acc


def _places(rv):
    out = []

    def walk(x):
        if isinstance(x, list):
            if len(x) == 2 and isinstance(x[0], int) and not isinstance(x[0], bool) and isinstance(x[1], list):
                out.append(x)
                return
            for y in x:
                walk(y)
    walk(rv)
    return out


def _names(sl):
    return [(c_.name or c_.decl or "") for _, c_ in sl["calls"]]


ARITH = ("Add", "Sub", "Mul", "Div", "Rem", "Shl", "Shr", "AddWithOverflow", "SubWithOverflow", "MulWithOverflow", "AddUnchecked", "SubUnchecked", "MulUnchecked", "BitAnd", "BitOr", "BitXor")


def _arith(sl):
    return [rv[1] for _, rv in sl["bins"] if rv[1] in ARITH]


def port_family(facts):
    out = []
    for b in facts.bodies.mentioning("Sharder"):
        if b.crate == "scylla" and b.path.startswith(S + "Sharder::") and "::promoted[" not in b.path:
            out.append(b)
    return out


def step_sites(facts):
    sites = []
    for b in port_family(facts):
        for bb, cl in b.calls():
            if bb in b.live_blocks and (cl.decl or cl.name or "").endswith("Iterator::step_by"):
                sites.append((b, cl))
    return sites


def r5(ctx, facts):
    r = ctx.rule("R5", "every stepped port range is [lowest port ..= range_end] stepped by nr_shards, bounds and stride untouched", floor=6)
    sites = step_sites(facts)
    if not sites:
        raise AnchorLost("no Iterator::step_by call in the Sharder port functions")
    for b, cl in sites:
        key = fn_short(b.path)
        recv = xslice(facts, b, cl.args[0])
        news = [(bd, c_) for bd, c_ in recv["calls"] if (c_.name or "").endswith("RangeInclusive::<Idx>::new")]
        excl = [(bd, rv) for bd in [b] for bb in bd.live_blocks for st in bd.stmts(bb) if st[0] == "A" and st[2][0] == "agg" and st[2][1][0] == "adt" and st[2][1][1] == "core::ops::range::Range"
                and any(x[0] == bd.path and x[1] == st[1][0] for x in recv["seen"]) for rv in [st[2]]]
        r.instance("inclusive-range:" + key, len(news) == 1 and not excl,
                   "the stepped range must be one inclusive range `lowest..=range_end` (found %d RangeInclusive::new, %d exclusive ranges): with an exclusive end the last port of the range is never used" % (len(news), len(excl)), cl.span)
        if len(news) == 1:
            nb_, nc = news[0]
            lo = xslice(facts, nb_, nc.args[0])
            hi = xslice(facts, nb_, nc.args[1])
            lo_n, hi_n = _names(lo), _names(hi)
            r.instance("low-bound-is-lowest-port:" + key, any(n.endswith("calculate_lowest_port_for_shard_in_range") for n in lo_n) and not _arith(lo),
                       "the range must start at calculate_lowest_port_for_shard_in_range's result, unchanged (derives from %s; arithmetic: %s)" % (sorted({n.split('::')[-1] for n in lo_n}), _arith(lo)), nc.span)
            r.instance("high-bound-is-range-end:" + key, any(n.endswith("RangeInclusive::<Idx>::end") for n in hi_n) and not any(n.endswith("RangeInclusive::<Idx>::start") for n in hi_n) and not _arith(hi),
                       "the range must end at the port range's end, unchanged (derives from %s; arithmetic: %s)" % (sorted({n.split('::')[-1] for n in hi_n}), _arith(hi)), nc.span)
        st = xslice(facts, b, cl.args[1])
        st_n = _names(st)
        ok = any(n.endswith("NonZero::<T>::get") for n in st_n) and not _arith(st) and all(n.endswith(("NonZero::<T>::get", "Into::into", "From::from", "::into", "::from")) for n in st_n)
        r.instance("stride-is-nr-shards:" + key, ok, "the stride must be nr_shards itself (derives from %s; arithmetic: %s)" % (sorted({n.split('::')[-1] for n in st_n}), _arith(st)), cl.span)


def r6(ctx, facts):
    r = ctx.rule("R6", "iterator = skip(k) of a stepped range ++ take(k) of a stepped range (same k), empty only without a lowest port; drawn port is an element of a stepped range", floor=6)
    ib = facts.one(r"^%sSharder::iter_source_ports_for_shard_from_range$" % S)
    df = df_of(ib, facts)
    dj = dj_of(ib, facts)
    chains = [cl for cl in ib.calls_to("Iterator::chain")]
    if len(chains) != 1:
        raise AnchorLost("iter_source_ports_for_shard_from_range: expected one Iterator::chain, found %d" % len(chains))
    ch = chains[0]

    def direct(op):
        if op[0] not in ("c", "m"):
            return None
        l = op[1][0]
        for _ in range(6):
            ds = ib.defs.get(l, [])
            if len(ds) != 1:
                return None
            d = ds[0]
            if d[0] == "call":
                return d[2]
            if d[0] == "stmt" and d[3][0] == "use" and d[3][1][0] in ("c", "m"):
                l = d[3][1][1][0]
                continue
            return None
        return None
    parts = [direct(a) for a in ch.args[:2]]
    kinds = [((p.decl or p.name or "").split("::")[-1] if p else None) for p in parts]
    r.instance("wrap-around-shape", sorted(k or "?" for k in kinds) == ["skip", "take"], "the two halves of the iterator are %s; must be one skip(k) and one take(k)" % kinds, ch.span)
    if sorted(k or "?" for k in kinds) == ["skip", "take"]:
        k0, k1 = df.expr_of_operand(parts[0].args[1]), df.expr_of_operand(parts[1].args[1])
        r.instance("same-pivot", k0 == k1 and k0 is not None, "skip(%s) and take(%s): with different counts a port is visited twice or never" % (df.fmt_expr(k0), df.fmt_expr(k1)), ch.span)
        for p in parts:
            sl = xslice(facts, ib, p.args[0])
            nm = (p.decl or p.name or "").split("::")[-1]
            others = [n.split("::")[-1] for n in _names(sl) if n.split("::")[-1] in ("skip", "take", "filter", "rev", "skip_while", "take_while", "step_by", "map", "chain", "cycle")]
            r.instance("half-is-a-stepped-range:" + nm, others == ["step_by"], "the receiver of %s(k) must be a freshly made stepped range (adapters in its history: %s)" % (nm, others), p.span)
    # empty only where there is no lowest port
    n_empty = 0
    for bb, cl in ib.calls():
        if bb in ib.live_blocks and (cl.name or "").endswith("iter::sources::empty::empty"):
            n_empty += 1
            sts = dj.states_at(bb)
            lows = [c_ for c_ in ib.calls_to("calculate_lowest_port_for_shard_in_range")]
            ok = bool(lows) and bool(sts)
            for stt in sts:
                v = stt.get(("disc", (lows[0].dest[0], ()))) if lows else None
                if not in_set(v, {0}):
                    ok = False
            r.instance("empty-only-without-lowest-port", ok, "the empty iterator is returned where calculate_lowest_port_for_shard_in_range is not known to have answered None", cl.span)
    # draw
    db = facts.one(r"^%sSharder::draw_source_port_for_shard_from_range$" % S)
    lows_db = db.calls_to("calculate_lowest_port_for_shard_in_range")
    ELEM = ("nth", "next", "last", "choose", "nth_back", "next_back")
    state = {"n": 0}

    def port_from(body, op, span, what):
        sl = xslice(facts, body, op)
        nms = [n.split("::")[-1] for n in _names(sl)]
        elem = [n for n in nms if n in ELEM]
        state["n"] += 1
        r.instance("drawn-port-is-an-element", bool(elem) and "step_by" in nms and not _arith(sl_without_index(facts, body, op)),
                   "the drawn port (%s) must be an element taken from a stepped range, unchanged (derives from %s)" % (what, sorted(set(nms))), span)

    def draw_body(body, depth=0):
        ddj = dj_of(body, facts)
        for bb in sorted(body.live_blocks):
            for j, st in enumerate(body.stmts(bb)):
                if not (st[0] == "A" and st[1][0] == 0 and not st[1][1]):
                    continue
                if st[2][0] == "agg" and st[2][1][0] == "adt" and st[2][1][1] == "core::option::Option":
                    if st[2][1][2] == "Some":
                        port_from(body, st[2][2][0], body.stmt_span(st), "Some(port)")
                    elif body.path == db.path:
                        ok = bool(lows_db)
                        for stt in ddj.states_before_stmt(bb, j):
                            if not in_set(stt.get(("disc", (lows_db[0].dest[0], ()))) if lows_db else None, {0}):
                                ok = False
                        r.instance("none-only-without-lowest-port", ok, "None is returned where a lowest port may exist", body.stmt_span(st))
                elif st[2][0] == "use" and body.local_ty(0) in ("u16",) and st[2][1][0] in ("c", "m"):
                    port_from(body, st[2][1], body.stmt_span(st), "returned port")
            t = body.term(bb)
            if t[0] == "call" and t[3][0] == 0 and not t[3][1]:
                cl = next(x for b2, x in body.calls() if b2 == bb)
                nm = (cl.decl or cl.name or "").split("::")[-1]
                if (cl.decl or "").endswith("FromResidual::from_residual"):
                    continue
                if nm in ELEM and cl.args:
                    sl = xslice(facts, body, cl.args[0])
                    nms = [n.split("::")[-1] for n in _names(sl)]
                    state["n"] += 1
                    r.instance("drawn-port-is-an-element", "step_by" in nms, "the drawn port must be an element taken from a stepped range (receiver derives from %s)" % sorted(set(nms)), cl.span)
                    continue
                if nm in ("unwrap", "expect", "unwrap_unchecked") and cl.args and body.local_ty(0) == "u16":
                    port_from(body, cl.args[0], cl.span, "unwrapped element")
                    continue
                if nm in ("map", "and_then") and len(cl.args) == 2 and depth < 3:
                    # `lowest?` written as `lowest.map(|p| ..)`: the closure is the rest of the function
                    sd = body.single_def(cl.args[1][1][0]) if cl.args[1][0] in ("c", "m") else None
                    cbd = facts.body(sd[3][1][1]) if sd and sd[0] == "stmt" and sd[3][0] == "agg" and sd[3][1][0] == "closure" else None
                    _, csr, _ = field_slice_(body, cl.args[0])
                    if cbd is not None and any((x.name or "").endswith("calculate_lowest_port_for_shard_in_range") for x in csr):
                        draw_body(cbd, depth + 1)
                        continue
                r.fail("draw-exit-shape", "draw returns the result of %s(..) directly: not recognised as an element of a stepped range" % fn_short(cl.name or "?"), cl.span)
    draw_body(db)
    if state["n"] == 0:
        raise AnchorLost("draw_source_port_for_shard_from_range: no exit that hands out a port")


def field_slice_(body, op):
    from ..util import field_slice
    return field_slice(body, op)


def sl_without_index(facts, body, op):
    """slice of the drawn port that follows element-yielding calls through their receiver only (the random index is arithmetic-free
    anyway, but `% len` spellings of the index must not count as arithmetic on the port)"""
    acc = {"calls": [], "bins": [], "seen": set()}
    work = [op[1]] if op[0] in ("c", "m") else []
    while work:
        pl = work.pop()
        l = pl[0]
        if l in acc["seen"]:
            continue
        acc["seen"].add(l)
        for d in body.defs.get(l, []):
            if d[0] == "call":
                cl = d[2]
                acc["calls"].append((body, cl))
                nm = (cl.decl or cl.name or "").split("::")[-1]
                args = cl.args[:1] if nm in ("nth", "next", "last", "choose", "nth_back", "next_back", "unwrap", "expect") else cl.args
                if nm == "step_by":
                    args = []
                for a in args:
                    if a[0] in ("c", "m"):
                        work.append(a[1])
            elif d[0] in ("stmt", "part", "dpart"):
                rv = d[3] if d[0] == "stmt" else d[4]
                if rv and rv[0] == "bin":
                    acc["bins"].append((body, rv))
                for p in _places(rv):
                    work.append(p)
    return acc


def r7(ctx, facts):
    r = ctx.rule("R7", "a shard-aware connection is only ever opened from a source port the port iterator produced for that shard; when the iterator is exhausted the attempt fails", floor=1)
    from ..util import field_slice
    b = facts.one(r"^scylla::network::connection::open_connection_to_shard_aware_port::\{closure#0\}$")
    opens = [c for c in b.calls_to("scylla::network::connection::open_connection")]
    if not opens:
        raise AnchorLost("open_connection_to_shard_aware_port does not call open_connection")
    for c in opens:
        op = c.args[1]
        sd = b.single_def(op[1][0]) if op[0] in ("c", "m") else None
        for _ in range(3):
            if sd and sd[0] == "stmt" and sd[3][0] == "use" and sd[3][1][0] in ("c", "m"):
                sd = b.single_def(sd[3][1][1][0])
        ok = False
        why = "its source port is not `Some(port)`"
        if sd and sd[0] == "stmt" and sd[3][0] == "agg" and sd[3][1][0] == "adt" and sd[3][1][2] == "Some":
            _, cs, bins = field_slice(b, sd[3][2][0])
            nms = [(x.decl or x.name or "").split("::")[-1] for x in cs]
            ok = "next" in nms and any((x.name or "").endswith(("iter_source_ports_for_shard_from_range", "iter_source_ports_for_shard")) for x in cs) and not bins
            why = "its source port derives from %s" % sorted(set(nms))
        r.instance("source-port-from-the-shard-iterator", ok,
                   "open_connection_to_shard_aware_port opens a connection whose source port is not one the shard's port iterator produced (%s): the node derives the shard from the source port, "
                   "so a port chosen by the OS lands on an arbitrary shard and lies outside the configured range" % why, c.span)
    errs = [bb for bb in b.live_blocks for st in b.stmts(bb) if st[0] == "A" and st[2][0] == "agg" and st[2][1][0] == "adt" and st[2][1][2] == "NoSourcePortForShard"]
    r.instance("exhausted-iterator-is-an-error", bool(errs), "when no source port of the shard can be used the function must fail with NoSourcePortForShard", b.span)


def check(ctx):
    facts = inline_view(ctx.facts("default"))
    for fn in (r1_r2, r3, r4, r5, r6, r7):
        try:
            fn(ctx, facts)
        except AnchorLost as ex:
            ctx.rule(fn.__name__.upper() + "x", "anchors of " + fn.__name__).fail("anchor-lost", str(ex))
    ctx.assumptions += ["ScyllaDB's shard algorithm and shard-aware port rule transcribed from the property text",
                        "the arithmetic step from the checked shapes (R4-R6) to 'in range, congruent, exactly once' is the textbook one and is stated, not machine-checked"]
