"""C12 — token-aware requests go first to an owning replica and shard (composition only).

Decided statically (the glue the unit tests of the pieces never see):
 R1 token provenance: at every RoutingInfo aggregate, `token` is None (then `table` is None too, or the statement is not
    routable) or derives from a token computation on the same statement whose get_table_spec() feeds `table`
    (extract_partition_key_and_calculate_token / calculate_token / peek_first_token), and is_confirmed_lwt comes from that
    statement or is the constant false.
 R2 tablets first: in ReplicaLocator::replicas_for_token every strategy-based lookup is in the region where
    tablets_for_table(table_spec) returned None.
 R3 shard from the node's own sharder: Sharder::shard_of is called only by with_computed_shard, on node.sharder() of the node
    it is paired with.
 R4 the pool buckets a connection under the shard the server reported (connection.get_shard_info()), not the requested one;
    NodeAttemptTarget::get_connection passes the plan's shard to connection_for_shard.
 R5 tablet feedback: every EXECUTE response is passed to update_tablets_from_response with the statement's table spec.
Not decided: that the pieces are right (token C03, replicas C04, plan C05, shard arithmetic C11); reachability at run time.
"""
from ..inline import inline_view
from ..mir import AnchorLost
from ..util import uses_of_local, dj_of, df_of, fn_short, in_set, backward_slice, operand_path, path_last, callers_keys
from .c20 import slice_fields

RI = "scylla::policies::load_balancing::RoutingInfo"
TOKEN_FNS = ("extract_partition_key_and_calculate_token", "calculate_token", "peek_first_token", "calculate_token_untyped")


def r1(ctx, facts):
    r = ctx.rule("R1", "RoutingInfo.token / table / is_confirmed_lwt come from the same prepared statement", floor=18)
    n = 0
    for b in facts.bodies.mentioning('"' + RI + '"'):
        if b.crate != "scylla" or b.path.endswith("as core::clone::Clone>::clone"):
            continue
        df = None
        for bb in sorted(b.live_blocks):
            for s in b.stmts(bb):
                if not (s[0] == "A" and s[2][0] == "agg" and s[2][1][0] == "adt" and s[2][1][1] == RI):
                    continue
                df = df or df_of(b, facts)
                n += 1
                fields = s[2][1][4]
                ops = dict(zip(fields, s[2][2]))
                key = "%s#%d" % (fn_short(b.path), n)
                tlocs, tcalls, _ = backward_slice(b, ops["token"])
                blocs, bcalls, _ = backward_slice(b, ops["table"])
                tnames = [c.name or c.decl or "" for c in tcalls]
                bnames = [c.name or c.decl or "" for c in bcalls]
                tok_none = _is_none(b, ops["token"])
                tab_none = _is_none(b, ops["table"])
                comp = [c for c in tcalls if any((c.name or c.decl or "").endswith(x) for x in TOKEN_FNS)]
                spec = [c for c in bcalls if (c.name or c.decl or "").endswith("get_table_spec")]
                tok_field = "token" in slice_fields(b, ops["token"]) and not comp   # copied from a struct that was filled elsewhere (pager)
                if tok_none:
                    r.instance("token-none:" + key, True, "unrouted request: token = None (table %s)" % ("None" if tab_none else "set"), b.stmt_span(s), nontrivial=False)
                elif comp:
                    # same statement on both sides: the receiver (or the statement argument) of the token computation and of get_table_spec
                    recv_t = set()
                    for c in comp:
                        for a in c.args:
                            recv_t |= backward_slice(b, a)[0] | ({a[1][0]} if a[0] in ("c", "m") else set())
                    recv_s = set()
                    for c in spec:
                        recv_s |= backward_slice(b, c.args[0])[0] | ({c.args[0][1][0]} if c.args[0][0] in ("c", "m") else set())
                    r.instance("token-and-table-same-statement:" + key, bool(spec) and bool(recv_t & recv_s),
                               "token is computed by %s but `table` does not come from get_table_spec() of the same statement" % [x.split("::")[-1] for x in tnames if any(x.endswith(y) for y in TOKEN_FNS)], b.stmt_span(s))
                elif tok_field:
                    r.instance("token-from-executor-field:" + key, bool(spec), "token copied from the pager's stored token; table must come from the stored prepared statement's get_table_spec()", b.stmt_span(s))
                elif _captured_token_ok(facts, b, ops["token"], spec):
                    r.instance("token-captured-from-creator:" + key, True, "token captured from the enclosing function, where it was computed on the same captured statement", b.stmt_span(s))
                else:
                    r.fail("token-origin:" + key, "RoutingInfo.token has an unrecognised origin (calls: %s)" % [x.split("::")[-1] for x in tnames][:6], b.stmt_span(s))
                # lwt
                lw = ops["is_confirmed_lwt"]
                if lw[0] == "k":
                    r.instance("lwt-const:" + key, int(lw[3]) == 0, "a constant is_confirmed_lwt must be false", b.stmt_span(s), nontrivial=False)
                else:
                    _, lc, _ = backward_slice(b, lw)
                    r.instance("lwt-from-statement:" + key, any((c.name or "").endswith("is_confirmed_lwt") for c in lc), "is_confirmed_lwt must come from the statement", b.stmt_span(s))
    if n == 0:
        raise AnchorLost("no RoutingInfo aggregate found")


def _upvar_indices(b, op):
    """indices k of captured variables `_1.k` an operand derives from (closure / coroutine bodies)"""
    locs, calls, _ = backward_slice(b, op)
    out = set()

    def scan(x):
        if isinstance(x, list):
            if len(x) == 2 and x[0] == 1 and isinstance(x[1], list) and x[1] and isinstance(x[1][0], list) and x[1][0][0] == "f":
                out.add(x[1][0][1])
            for y in x:
                scan(y)
    scan(op)
    for l in locs:
        for d in b.defs.get(l, []):
            if d[0] == "stmt":
                scan(d[3])
            elif d[0] == "call":
                for a in d[2].args:
                    scan(a)
    return out


def _captured_token_ok(facts, b, token_op, spec_calls):
    if b.kind != "Closure":
        return False
    parent = facts.body(b.parent)
    if parent is None:
        return False
    agg = None
    for bb in parent.live_blocks:
        for s in parent.stmts(bb):
            if s[0] == "A" and s[2][0] == "agg" and s[2][1][0] in ("closure", "coroutine") and s[2][1][1] == b.path:
                agg = s
    if agg is None:
        return False
    tk = _upvar_indices(b, token_op)
    sk = set()
    for c in spec_calls:
        sk |= _upvar_indices(b, c.args[0])
    if not tk or not sk:
        return False
    ops = agg[2][2]
    tslice, sslice = set(), set()
    comp = False
    for k in tk:
        if k < len(ops):
            locs, calls, _ = backward_slice(parent, ops[k])
            for c in calls:
                if any((c.name or c.decl or "").endswith(x) for x in TOKEN_FNS):
                    comp = True
                    for a in c.args:
                        tslice |= backward_slice(parent, a)[0] | ({a[1][0]} if a[0] in ("c", "m") else set())
    for k in sk:
        if k < len(ops):
            sslice |= backward_slice(parent, ops[k])[0] | ({ops[k][1][0]} if ops[k][0] in ("c", "m") else set())
    return comp and bool(tslice & sslice)


def _is_none(b, op):
    if op[0] in ("c", "m") and not op[1][1]:
        sd = b.single_def(op[1][0])
        return bool(sd and sd[0] == "stmt" and sd[3][0] == "agg" and sd[3][1][0] == "adt" and sd[3][1][1] == "core::option::Option" and sd[3][1][2] == "None")
    return False


def r2(ctx, facts):
    r = ctx.rule("R2", "tablet information takes precedence over the replication strategy", floor=6)
    b = facts.one(r"^scylla::routing::locator::ReplicaLocator::replicas_for_token$")
    df = df_of(b, facts)
    tf = b.calls_to("TabletsInfo::tablets_for_table")
    if len(tf) != 1:
        raise AnchorLost("replicas_for_token: tablets_for_table call not found")
    key = ("disc", (tf[0].dest[0], ()))
    strat = [c for bb, c in b.calls() if bb in b.live_blocks and (c.name or "").split("::")[-1] in ("get_simple_strategy_replicas", "get_network_strategy_replicas", "simple_strategy_replicas", "nts_replicas_in_datacenter")]
    for i, c in enumerate(strat):
        st = df.state_in.get(c.bb) or {}
        r.instance("strategy-lookup-only-without-tablets#%d" % i, in_set(st.get(key), {0}), "a strategy-based lookup must be in the tablets_for_table(..) == None region", c.span)
    tl = [c for bb, c in b.calls() if bb in b.live_blocks and (c.name or "").split("::")[-1] in ("replicas_for_token", "dc_replicas_for_token") and "TableTablets" in (c.name or "")]
    for i, c in enumerate(tl):
        st = df.state_in.get(c.bb) or {}
        r.instance("tablet-lookup-when-known#%d" % i, in_set(st.get(key), {1}), "tablet lookups happen where the table has tablets", c.span, nontrivial=False)
    # ChainedNTS / other strategy aggregates only on the None side
    sw_ok = True
    for bb in b.live_blocks:
        for j, s in enumerate(b.stmts(bb)):
            if s[0] == "A" and s[2][0] == "agg" and s[2][1][0] == "adt" and s[2][1][1].endswith("ReplicaSetInner") and s[2][1][2] != "PlainSharded":
                st = df.state_before_stmt(bb, j) or {}
                if not in_set(st.get(key), {0}):
                    sw_ok = False
    r.instance("strategy-sets-only-without-tablets", sw_ok, "every strategy-derived ReplicaSet must be built in the no-tablets region", b.span)


def r3(ctx, facts):
    r = ctx.rule("R3", "the shard is computed with the sharder of the node it is paired with", floor=2)
    cs = callers_keys(facts, "scylla::routing::sharding::Sharder::shard_of")
    r.instance("shard_of-callers", bool(cs) and all(c.startswith("locator::with_computed_shard") for c in cs), "Sharder::shard_of callers: %s" % cs)
    b = facts.one(r"^scylla::routing::locator::with_computed_shard$")
    sh = b.calls_to("Node::sharder")
    ok = False
    if len(sh) == 1:
        # receiver of sharder() is the node parameter that is also returned in the tuple
        locs, _, _ = backward_slice(b, sh[0].args[0])
        ret = [s for bb in b.live_blocks for s in b.stmts(bb) if s[0] == "A" and s[1][0] == 0 and s[2][0] == "agg" and s[2][1][0] == "tuple"]
        if ret:
            l2, _, _ = backward_slice(b, ret[0][2][2][0])
            ok = 1 in (locs | {sh[0].args[0][1][0]}) and (1 in l2 or ret[0][2][2][0][1][0] == 1)
    r.instance("sharder-of-same-node", ok, "with_computed_shard must pair node with node.sharder().shard_of(token)", b.span)


def r4(ctx, facts):
    r = ctx.rule("R4", "connections are bucketed by the server-reported shard; the plan's shard selects the connection", floor=3)
    b = facts.one(r"^scylla::network::connection_pool::PoolRefiller::handle_ready_connection$")
    df = df_of(b, facts)
    idx_calls = [c for c in b.calls_to("core::ops::index::IndexMut::index_mut") if "conns" in slice_fields(b, c.args[0])]
    if not idx_calls:
        raise AnchorLost("handle_ready_connection: indexing of self.conns not found")
    for i, c in enumerate(idx_calls):
        locs, calls, _ = backward_slice(b, c.args[1])
        names = [x.name or x.decl or "" for x in calls]
        from_conn = any(n.endswith("Connection::get_shard_info") for n in names)
        from_req = "requested_shard" in slice_fields(b, c.args[1])
        r.instance("bucket-index-from-server-shard#%d" % i, from_conn and not from_req,
                   "the bucket index must derive from connection.get_shard_info() (server-reported), not evt.requested_shard; calls: %s" % [n.split("::")[-1] for n in names][:6], c.span)
    ctor = callers_keys(facts, "scylla::routing::sharding::ShardInfo::new")
    r.note("ShardInfo::new callers: %s" % ctor)
    gb = facts.find(r"^<scylla::client::execution::NodeAttemptTarget<'_> as scylla::client::execution::AttemptTarget>::get_connection::\{closure#0\}$")
    if len(gb) != 1:
        raise AnchorLost("NodeAttemptTarget::get_connection not found")
    g = gb[0]
    cf = g.calls_to("Node::connection_for_shard")
    ok = len(cf) == 1 and "shard" in slice_fields(g, cf[0].args[1]) and "node" in slice_fields(g, cf[0].args[0])
    r.instance("plan-shard-selects-connection", ok, "get_connection must call self.node.connection_for_shard(self.shard)", g.span)
    # only ShardInfo::new builds ShardInfo
    SI = "scylla::routing::sharding::ShardInfo"
    makers = sorted({fn_short(x.path) for x in facts.bodies.mentioning('"' + SI + '"') for bb in x.live_blocks for s in x.stmts(bb)
                     if s[0] == "A" and s[2][0] == "agg" and s[2][1][0] == "adt" and s[2][1][1] == SI} - {"ShardInfo::clone[Clone]"})
    r.instance("shardinfo-single-constructor", makers == ["ShardInfo::new"], "ShardInfo values are built in %s (validation shard < nr_shards lives in ShardInfo::new)" % makers)


def r5(ctx, facts):
    r = ctx.rule("R5", "every EXECUTE response feeds the tablet map", floor=3)
    b = facts.one(r"^scylla::network::connection::Connection::execute_raw_with_consistency::\{closure#0\}$")
    sends = b.calls_to("scylla::network::connection::Connection::send_request")
    ups = b.calls_to("Connection::update_tablets_from_response")
    # the post-processing of a response may live in a NEW `async fn` (a coroutine of its own, not spliced by the inliner): the
    # places where such a helper's future is built count as the call, if the helper itself feeds the tablet map with the
    # prepared statement's table spec
    from ..util import new_async_helpers
    helper_sites = []
    for hb, _ops in new_async_helpers(facts, b):
        hups = hb.calls_to("Connection::update_tablets_from_response")
        if hups and all(any((c.name or "").endswith("get_table_spec") for c in backward_slice(hb, u.args[1])[1]) for u in hups):
            for bb0 in sorted(b.live_blocks):
                for st0 in b.stmts(bb0):
                    if st0[0] == "A" and st0[2][0] == "agg" and st0[2][1][0] == "coroutine" and st0[2][1][1] == hb.path:
                        helper_sites.append(bb0)
    for i, s in enumerate(sorted(sends, key=lambda c: c.bb)):
        mine = [u for u in ups if b.dominates(s.bb, u.bb)]
        ok = bool(mine)
        if ok:
            # table spec argument from get_table_spec of the prepared statement
            ok = any(any((c.name or "").endswith("get_table_spec") for c in backward_slice(b, u.args[1])[1]) for u in mine)
        if not ok:
            ok = any(b.dominates(s.bb, hbb) for hbb in helper_sites)
        r.instance("execute-response-updates-tablets#%d" % i, ok, "after each EXECUTE the response must be passed to update_tablets_from_response with prepared.get_table_spec()", s.span)
    ub = facts.one(r"^scylla::network::connection::Connection::update_tablets_from_response::\{closure#0\}$")
    r.instance("tablet-payload-parsed", bool(ub.calls_to("RawTablet::from_custom_payload")), "update_tablets_from_response parses the tablets-routing-v1 payload", ub.span, nontrivial=False)


def r6(ctx, facts):
    r = ctx.rule("R6", "replica selection uses the effective location preference (policy-level or inherited from the session)", floor=6)
    DPT = "scylla::policies::load_balancing::default::DefaultPolicy"
    n = 0
    for meth in ("pick", "fallback"):
        bs = facts.find(r"^<%s as scylla::policies::load_balancing::LoadBalancingPolicy>::%s$" % (DPT, meth))
        if len(bs) != 1:
            raise AnchorLost("DefaultPolicy::%s not found" % meth)
        b = bs[0]
        ri = b.calls_to("DefaultPolicy::routing_info")
        if len(ri) != 1:
            raise AnchorLost("DefaultPolicy::%s: expected one routing_info() call, found %d" % (meth, len(ri)))
        ril = ri[0].dest[0]
        for bb in sorted(b.live_blocks):
            for st in b.stmts(bb):
                if not (st[0] == "A" and st[2][0] == "agg" and st[2][1][0] == "adt" and st[2][1][1].endswith("::NodeLocationCriteria") and st[2][2]):
                    continue
                n += 1
                locs = set()
                for op in st[2][2]:
                    locs |= backward_slice(b, op)[0]
                r.instance("%s:criteria#%d:%s" % (meth, n, st[2][1][2]), ril in locs,
                           "the datacenter/rack given to the replica selection must come from the effective preference computed by routing_info() (policy-level preference, else the one inherited from the session); "
                           "this NodeLocationCriteria::%s is built from something else" % st[2][1][2], b.stmt_span(st))
    if n == 0:
        raise AnchorLost("no NodeLocationCriteria built in pick/fallback")


def r7(ctx, facts):
    r = ctx.rule("R7", "the pool adopts the sharder its node reports: it keeps the old one only if the two are equal", floor=2)
    b = facts.one(r"^scylla::network::connection_pool::PoolRefiller::maybe_reshard$")
    df = df_of(b, facts)
    dj = dj_of(b, facts)
    ups = [c.bb for c in b.calls_to("core::clone::Clone::clone_from", "core::clone::Clone::clone") if False]
    ups = []
    for bb, c in b.calls():
        if bb in b.live_blocks and c.decl == "core::clone::Clone::clone_from" and path_last(operand_path(df, c.args[0])) == "sharder":
            ups.append(bb)
    for bb in b.live_blocks:
        for st in b.stmts(bb):
            if st[0] == "A" and st[1][1] and path_last(df.canon.path(st[1])) == "sharder":
                ups.append(bb)
    r.instance("sharder-is-updated", bool(ups), "maybe_reshard must store the reported sharder into self.sharder", b.span)
    cmps = []
    for bb, c in b.calls():
        if bb in b.live_blocks and c.decl in ("core::cmp::PartialEq::eq", "core::cmp::PartialEq::ne") and len(c.args) == 2:
            pa, pb = operand_path(df, c.args[0]), operand_path(df, c.args[1])
            if {pa, pb} == {(1, ("sharder",)), (2, ())}:
                cmps.append(c)
    reach = dj.feasible_reach(0, removed_nodes=ups, with_states=True)
    bad = []
    for e in sorted(set(b.exits) & set(reach)):
        for stt in reach[e] or [{}]:
            eq = any(in_set(stt.get(("call", c.bb)), {1 if c.decl.endswith("::eq") else 0}) for c in cmps)
            if not eq:
                bad.append(e)
    r.instance("kept-only-if-equal", bool(cmps) and not bad,
               "maybe_reshard can return without adopting the reported sharder although `self.sharder == new_sharder` (the whole sharders: shard count AND msb_ignore) is not established on that path; "
               "the shard of a token would then be computed with stale parameters", b.span)


def r8(ctx, facts):
    r = ctx.rule("R8", "NTS deterministic order: the replica yielded first is a node of a datacenter the keyspace replicates to", floor=2)
    b = facts.one(r"^<scylla::routing::locator::ReplicasOrderedNTSIterator<'a> as core::iter::traits::iterator::Iterator>::next$")
    dj = dj_of(b, facts)
    gets = []
    for bb, c in b.calls():
        if bb in b.live_blocks and (c.decl or "").split("::")[-1] in ("get", "contains_key", "get_key_value") and "HashMap" in (c.decl or ""):
            locs, _, _ = backward_slice(b, c.args[0], data_only=True)
            if any(b.local_name(l) == "datacenter_repfactors" for l in locs) or "datacenter_repfactors" in slice_fields(b, c.args[0]):
                gets.append(c)
    picks = [(bb, j, st) for bb in sorted(b.live_blocks) for j, st in enumerate(b.stmts(bb))
             if st[0] == "A" and st[2][0] == "agg" and st[2][1][0] == "adt" and st[2][1][1].endswith("ReplicasOrderedNTSIteratorInner") and st[2][1][2] == "Picked"]
    if not picks:
        raise AnchorLost("ReplicasOrderedNTSIterator::next: no Picked state is built")

    some_tests = []     # `get(dc).is_some()` / `.is_some_and(..)`: true only where the lookup succeeded
    for bbc, c in b.calls():
        if bbc in b.live_blocks and (c.decl or c.name or "").split("::")[-1] in ("is_some", "is_some_and") and c.args and c.args[0][0] in ("c", "m"):
            src = backward_slice(b, c.args[0])[0] | {c.args[0][1][0]}
            if any(g.dest[0] in src for g in gets):
                some_tests.append(c)

    def known_dc(stt):
        for g in gets:
            if g.decl.endswith("contains_key"):
                if in_set(stt.get(("call", g.bb)), {1}):
                    return True
            else:
                root = dj.disc_root(dj.canon.path(g.dest))
                if in_set(stt.get(("disc", root)), {1}):
                    return True
        return any(in_set(stt.get(("call", c.bb)), {1}) for c in some_tests)
    def selected_by_lookup(st):
        """`picked` is what `ring.find(|node| ..)` returned, and that predicate is true only where the lookup succeeded"""
        fields = st[2][1][4]
        if "picked" not in fields:
            return False
        _, calls, _ = backward_slice(b, st[2][2][fields.index("picked")])
        for fc in calls:
            if not (fc.decl or "").endswith(("Iterator::find", "Iterator::find_map")) or len(fc.args) < 2:
                continue
            for l in backward_slice(b, fc.args[1])[0]:
                for d in b.defs.get(l, []):
                    if not (d[0] == "stmt" and d[3][0] == "agg" and d[3][1][0] == "closure"):
                        continue
                    cb = facts.body(d[3][1][1])
                    if cb is None:
                        continue
                    cdj = dj_of(cb, facts)
                    look = [c for bbc, c in cb.calls() if bbc in cb.live_blocks and (c.decl or "").split("::")[-1] in ("get", "contains_key") and "HashMap" in (c.decl or "")]
                    if not look:
                        continue

                    def known(stt):
                        for g in look:
                            if g.decl.endswith("contains_key"):
                                if in_set(stt.get(("call", g.bb)), {1}):
                                    return True
                            elif in_set(stt.get(("disc", cdj.disc_root(cdj.canon.path(g.dest)))), {1}):
                                return True
                        return False
                    good, n = True, 0
                    for bbc in sorted(cb.live_blocks):
                        for jc, sc in enumerate(cb.stmts(bbc)):
                            if not (sc[0] == "A" and sc[1] == [0, []]):
                                continue
                            n += 1
                            e = cdj.expr_of_rvalue(sc[2])
                            for stt in cdj.states_before_stmt(bbc, jc):
                                v = cdj.eval_in(stt, e) if e is not None else None
                                if v == 0:
                                    continue
                                # true, or the very outcome of `get(..).is_some()` / `contains_key(..)`
                                is_lookup_outcome = e is not None and e[0] == "call" and any(
                                    e[1] == g.bb or (cb.term(e[1])[0] == "call" and g.dest[0] in backward_slice(cb, cb.term(e[1])[2][0])[0]) for g in look)
                                if not (known(stt) or is_lookup_outcome):
                                    good = False
                    if good and n:
                        return True
        return False
    def _cmp_positive(body, parent_has_get):
        """does `body` compare a looked-up replication factor (or, in a closure handed such a factor, its parameter) with 0 / 1?"""
        for bbx in body.live_blocks:
            for sx in body.stmts(bbx):
                if not (sx[0] == "A" and sx[2][0] == "bin" and sx[2][1] in ("Gt", "Ne", "Ge", "Lt", "Le", "Eq")):
                    continue
                ops = sx[2][2:4]
                ks = [o for o in ops if o[0] == "k" and o[1] == "int" and int(o[3]) in (0, 1)]
                vs = [o for o in ops if o[0] in ("c", "m")]
                if len(ks) != 1 or len(vs) != 1:
                    continue
                locs, cs_, _ = backward_slice(body, vs[0])
                locs = locs | {vs[0][1][0]}
                if any((c.decl or c.name or "").split("::")[-1] in ("get", "get_key_value") and "HashMap" in (c.decl or c.name or "") for c in cs_):
                    return True
                if parent_has_get and any(2 <= l <= body.argc for l in locs) and body.kind == "Closure":
                    return True
        return False

    def positive_rf_guard(pick_bb):
        """the branch that leads to the pick depends on a comparison `rf > 0` of the factor looked up for the node's datacenter -
        directly, through a helper, or inside the predicate (and its nested closures) of the `find` that selected the node"""
        for sw in sorted(b.live_blocks):
            t = b.term(sw)
            if t[0] != "switch" or t[1][0] not in ("c", "m") or sw == pick_bb or not b.dominates(sw, pick_bb):
                continue
            succs = [tg for _, tg in t[2]] + [t[3]]
            if all(pick_bb in (b.reachable_from(tg, removed_nodes=[sw]) | {tg}) for tg in succs):
                continue        # not a guard of the pick
            locs, cs_, _ = backward_slice(b, t[1])
            locs = locs | {t[1][1][0]}
            bins_ = [d[3] for l in locs for d in b.defs.get(l, []) if d[0] == "stmt" and d[3][0] == "bin"]
            # in this body: a comparison in the slice
            for x in bins_:
                if x[1] in ("Gt", "Ne", "Ge", "Lt", "Le", "Eq"):
                    ops = x[2:4]
                    ks = [o for o in ops if o[0] == "k" and o[1] == "int" and int(o[3]) in (0, 1)]
                    vs = [o for o in ops if o[0] in ("c", "m")]
                    if len(ks) == 1 and len(vs) == 1:
                        _, c2, _ = backward_slice(b, vs[0])
                        if any((c.decl or c.name or "").split("::")[-1] in ("get", "get_key_value") and "HashMap" in (c.decl or c.name or "") for c in c2):
                            return True
            # closures created for the calls in the slice (find / is_some_and predicates), and the closures nested in them
            work, seen_c = [], set()
            for l in locs:
                for d in b.defs.get(l, []):
                    if d[0] == "stmt" and d[3][0] == "agg" and d[3][1][0] == "closure":
                        work.append((d[3][1][1], bool(gets)))
            for c in cs_:
                for a in c.args:
                    if a[0] in ("c", "m"):
                        for l in backward_slice(b, a)[0] | {a[1][0]}:
                            for d in b.defs.get(l, []):
                                if d[0] == "stmt" and d[3][0] == "agg" and d[3][1][0] == "closure":
                                    work.append((d[3][1][1], bool(gets)))
            def bad_receiver(body, cpath):
                """is the closure `cpath`, created in `body`, handed to a combinator that answers TRUE for an absent value
                (`is_none_or`, `map_or(true, ..)`)? Then `rf > 0` inside it does not establish that the datacenter is listed"""
                for l in range(len(body.locals)):
                    for d in body.defs.get(l, []):
                        if d[0] == "stmt" and d[3][0] == "agg" and d[3][1][0] == "closure" and d[3][1][1] == cpath:
                            holders, wk = {l}, [l]
                            while wk:
                                x = wk.pop()
                                for ubb, kind, op in uses_of_local(body, x):
                                    if kind[0] == "stmt" and kind[1][2][0] in ("use", "ref") and not kind[1][1][1] and kind[1][1][0] not in holders:
                                        holders.add(kind[1][1][0])
                                        wk.append(kind[1][1][0])
                                    elif kind[0] == "arg":
                                        t2 = body.term(ubb)
                                        nm2 = (t2[1].get("def") or "").split("::")[-1]
                                        if nm2 in ("is_none_or", "map_or_else"):
                                            return True
                                        if nm2 == "map_or" and t2[2] and t2[2][1][0] == "k" and str(t2[2][1][3]) in ("1", "true"):
                                            return True
                return False
            work = [(cp, hg) for cp, hg in work if not bad_receiver(b, cp)]
            while work:
                cp, has_get = work.pop()
                if cp in seen_c:
                    continue
                seen_c.add(cp)
                cb = facts.body(cp)
                if cb is None:
                    continue
                own_get = any((c.decl or c.name or "").split("::")[-1] in ("get", "get_key_value") and "HashMap" in (c.decl or c.name or "")
                              for bbc, c in cb.calls() if bbc in cb.live_blocks)
                if _cmp_positive(cb, has_get):
                    return True
                for bbx in cb.live_blocks:
                    for sx in cb.stmts(bbx):
                        if sx[0] == "A" and sx[2][0] == "agg" and sx[2][1][0] == "closure" and not bad_receiver(cb, sx[2][1][1]):
                            work.append((sx[2][1][1], has_get or own_get))
        return False

    for bb, j, st in picks:
        sts = dj.states_before_stmt(bb, j)
        ok = (bool(gets) and bool(sts) and all(known_dc(x) for x in sts)) or selected_by_lookup(st) or positive_rf_guard(bb)
        r.instance("primary-is-in-replicating-dc", ok,
                   "the node recorded as `picked` (and yielded as the primary replica) must come from the region where datacenter_repfactors has an entry for the node's "
                   "datacenter; otherwise the owner of the next vnode - possibly in a datacenter without replicas - is the first target of LWT plans", b.stmt_span(st))
    # ... and the keyspace really has replicas there: a datacenter listed with replication factor 0 (`'dc2': 0`, the way a
    # datacenter is taken out of a keyspace) owns vnodes on the global ring but holds no replica
    for bb, j, st in picks:
        ok = False
        why = "no test of the replication factor found"
        get_dests = {g.dest[0] for g in gets}
        # (a) get(dc).is_some_and(|rf| *rf > 0) known true here
        for bbc, c in b.calls():
            if bbc not in b.live_blocks or (c.decl or c.name or "").split("::")[-1] not in ("is_some_and", "map_or", "filter") or len(c.args) < 2:
                continue
            if not (get_dests & (backward_slice(b, c.args[0])[0] | ({c.args[0][1][0]} if c.args[0][0] in ("c", "m") else set()))):
                continue
            positive = False
            for l in backward_slice(b, c.args[-1])[0] | ({c.args[-1][1][0]} if c.args[-1][0] in ("c", "m") else set()):
                for d in b.defs.get(l, []):
                    if d[0] == "stmt" and d[3][0] == "agg" and d[3][1][0] == "closure":
                        cb = facts.body(d[3][1][1])
                        if cb is None:
                            continue
                        for bbx in cb.live_blocks:
                            for sx in cb.stmts(bbx):
                                if sx[0] == "A" and sx[2][0] == "bin" and sx[2][1] in ("Gt", "Ne", "Ge", "Lt", "Le") and any(
                                        o[0] == "k" and o[1] == "int" and int(o[3]) in (0, 1) for o in sx[2][2:4]):
                                    positive = True
            sts = dj.states_before_stmt(bb, j)
            if positive and sts and all(in_set(x.get(("call", bbc)), {1}) for x in sts):
                ok = True
        # (b) an explicit comparison of the looked-up factor with 0 whose true edge leads here
        if not ok:
            for sw in sorted(b.live_blocks):
                t = b.term(sw)
                if t[0] != "switch" or t[1][0] not in ("c", "m") or not b.dominates(sw, bb):
                    continue
                sd = b.single_def(t[1][1][0])
                if not (sd and sd[0] == "stmt" and sd[3][0] == "bin" and sd[3][1] in ("Gt", "Ne", "Ge")):
                    continue
                ops = sd[3][2:4]
                ks = [o for o in ops if o[0] == "k" and o[1] == "int"]
                vs = [o for o in ops if o[0] in ("c", "m")]
                if len(ks) == 1 and len(vs) == 1 and int(ks[0][3]) in (0, 1) and (get_dests & backward_slice(b, vs[0])[0]):
                    edges = {int(v): tg for v, tg in t[2]}
                    true_tg = t[3] if 0 in edges else edges.get(1, t[3])
                    false_tg = edges.get(0, t[3])
                    if bb in (b.reachable_from(true_tg) | {true_tg}) and bb not in (b.reachable_from(false_tg, removed_nodes=[sw]) | {false_tg}):
                        ok = True
        if not ok and positive_rf_guard(bb):
            ok = True
        r.instance("primary-dc-has-a-positive-rf", ok,
                   "the node recorded as `picked` comes from a datacenter that merely has an ENTRY in datacenter_repfactors (%s): with `'dc': 0` the owner of the next "
                   "vnode in that datacenter - which holds no replica - is yielded first and the ordered view has one node more than the replica set" % why, b.stmt_span(st))
    r.instance("repfactor-lookups", True, "%d lookups of the node's datacenter in datacenter_repfactors" % len(gets), b.span, nontrivial=False)


def r9(ctx, facts):
    r = ctx.rule("R9", "every (replica, shard) pair a replica set hands out pairs the node with ITS OWN shard: computed by with_computed_shard for that node, or read from the same tablet replica entry", floor=3)
    from ..util import field_slice
    NODE = "alloc::sync::Arc<scylla::cluster::node::Node>"
    ELEM_OK = ("get", "deref", "index", "next", "iter", "as_ref", "get_unchecked", "first", "nth", "as_slice")
    n = 0
    for b in facts.bodies.values():
        if b.crate != "scylla" or "::promoted[" in b.path or not b.path.startswith("scylla::routing::locator::") \
                or b.path.startswith(("scylla::routing::locator::tablets::", "scylla::routing::locator::test", "scylla::routing::locator::precomputed_replicas::",
                                      "scylla::routing::locator::replication_info::", "scylla::routing::locator::token_ring::")):
            continue
        for bb in sorted(b.live_blocks):
            for st in b.stmts(bb):
                if not (st[0] == "A" and st[2][0] == "agg" and st[2][1][0] == "tuple" and len(st[2][2]) == 2 and not st[1][1]):
                    continue
                ty = b.local_ty(st[1][0])
                if not (ty.startswith("(&" + NODE) and ty.rstrip(")").endswith("u32")):
                    continue
                n += 1
                key = fn_short(b.path)
                node_op, shard_op = st[2][2]
                s_seen, s_calls, s_bins = field_slice(b, shard_op)
                n_seen, n_calls, _ = field_slice(b, node_op)
                names = [(c.decl or c.name or "").split("::")[-1] for c in s_calls]
                if b.path == "scylla::routing::locator::with_computed_shard":
                    ok = any((c.name or "").endswith("Node::sharder") for c in s_calls) and not s_bins
                    # the sharder consulted is the paired node's
                    shr = [c for c in s_calls if (c.name or "").endswith("Node::sharder")]
                    if shr:
                        a_seen, _, _ = field_slice(b, shr[0].args[0])
                        ok = ok and bool({l for l, _ in a_seen} & {l for l, _ in n_seen})
                    r.instance("pair:" + key, ok, "with_computed_shard must compute the shard with the sharder of the node it returns", b.stmt_span(st))
                    continue
                same_elem = bool({l for l, _ in s_seen if "u32)" in b.local_ty(l) or "u32)]" in b.local_ty(l)} & {l for l, _ in n_seen})
                ok = all(nm in ELEM_OK for nm in names) and not s_bins and same_elem
                r.instance("pair:" + key, ok,
                           "a (node, shard) pair is assembled from a shard that is not this node's own (derives from %s): a shard remembered from another replica, or a default, "
                           "sends the request to the right node on the wrong shard" % (sorted(set(names)) or "a local / field"), b.stmt_span(st))
    if n < 2:
        raise AnchorLost("expected the (node, shard) pairs of with_computed_shard and of the tablet arms in routing::locator, found %d" % n)


def r10(ctx, facts):
    """shared with C15 (the tablet map's side of it): tablet replicas must follow a node whose Node object was re-created, else routing keeps seeing the old, pool-less object"""
    from .c15 import r10 as c15_r10
    c15_r10(ctx, facts)


def r11(ctx, facts):
    """shared with C04 (stated there): the replica lists the first attempt is picked from are the walkers' own, whether precomputed or not"""
    from .c04 import r3 as c04_r3
    c04_r3(ctx, facts)


def r12(ctx, facts):
    """shared with C15 (stated there): every tablet learnt replaces what it overlaps - a re-delivered range with new replicas is never ignored, so the tablet that routes a token is the latest one"""
    from .c15 import r1 as c15_r1
    c15_r1(ctx, facts)


def r13(ctx, facts):
    """shared with C04 (stated there as R5): the replica set of an NTS keyspace walks every datacenter - an empty one in the
    middle does not end it - so a live replica in a later datacenter is found when the first-drawn replica is down"""
    from .c04 import r5 as c04_r5
    c04_r5(ctx, facts)


def check(ctx):
    facts = inline_view(ctx.facts("default"))
    for fn in (r1, r2, r3, r4, r5, r6, r7, r8, r9, r10, r11, r12, r13):
        try:
            fn(ctx, facts)
        except AnchorLost as ex:
            ctx.rule(fn.__name__.upper() + "x", "anchors of " + fn.__name__).fail("anchor-lost", str(ex))
