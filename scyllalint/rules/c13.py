"""C13 — speculative execution is idempotent-only, bounded, and returns.

Decided statically:
 R1 gate: speculative_execution::execute is called only from run_request_no_side_effects, in the region where
    self.is_idempotent is true (the same field the retry policy is shown, C06.R5).
 R2 counter discipline: exactly one non-speculative start, outside the loop; every speculative start is in the
    `retries_remaining > 0` region and cannot be repeated without passing `retries_remaining -= 1`; the counter is otherwise
    only initialised from the policy and assigned 0  =>  at most 1 + max executions are started.
 R4 exits: execute returns only (a) a result for which can_be_ignored() was false, or (b) where no execution is running
    (async_tasks.is_empty()) and none may still be started (retries_remaining == 0).
Not decided: that the select loop always makes progress (liveness over timer/completion orderings); distinct plan targets
(guaranteed by the single shared plan iterator, a type-level fact).
"""
from ..inline import inline_view
from ..mir import AnchorLost
from ..util import truth_edges, closure_family, captured_context, creation_site, dj_of, cmp_truth, df_of, fn_short, in_set, callers_keys, backward_slice

SE = "scylla::policies::speculative_execution::"


def bool_arg(b, call):
    a = call.args[1]
    if a[0] in ("c", "m"):
        sd = b.single_def(a[1][0])
        if sd and sd[0] == "stmt" and sd[3][0] == "agg" and sd[3][1][0] == "tuple" and sd[3][2] and sd[3][2][0][0] == "k":
            return int(sd[3][2][0][3])
    return None


def r1(ctx, facts):
    r = ctx.rule("R1", "speculative execution is entered only for idempotent requests", floor=2)
    callers = [(b, bb) for b, bb in facts.callers_of(SE + "execute") if bb in b.live_blocks and b.crate == "scylla"]
    names = sorted({fn_short(b.path) for b, _ in callers})
    r.instance("execute-callers", bool(names) and all(n.startswith("RequestExecutionParams::run_request_no_side_effects") for n in names), "speculative_execution::execute is called from %s" % names)
    for b, bb in callers:
        df = df_of(b, facts)
        st = df.state_in.get(bb) or {}
        def idem(state):
            return any(k[0] == "val" and k[1][1][-1:] == ("is_idempotent",) and in_set(v, {1}) for k, v in state.items())
        ok = idem(st)
        if not ok:
            # the guard may test a captured copy (`let allowed = self.is_idempotent;` in the enclosing future)
            site = creation_site(facts, b)
            if site is not None:
                par, pbb, pj, stmt = site
                pdj = dj_of(par, facts)
                for k, v in st.items():
                    if k[0] == "val" and k[1][0] == 1 and k[1][1] and k[1][1][0].isdigit() and in_set(v, {1}):
                        i = int(k[1][1][0])
                        ops = stmt[2][2]
                        if i < len(ops) and ops[i][0] in ("c", "m"):
                            pp = pdj.canon.path(ops[i][1])
                            if pp[1][-1:] == ("is_idempotent",) and len(k[1][1]) == 1:
                                ok = True
        if not ok:
            # the gate may have been evaluated where the enclosing future was built (`let spec = if self.is_idempotent
            # { .. } else { None }`) and only its outcome captured: combine with the creator's states, outwards
            cur, cst = b, st
            for _ in range(3):
                ctxs = captured_context(facts, cur, cst)
                if not ctxs:
                    break
                if all(idem(x) for x in ctxs):
                    ok = True
                    break
                site = creation_site(facts, cur)
                cur, cst = site[0], dj_of(site[0], facts)._join_all([frozenset(x.items()) for x in ctxs])
        r.instance("idempotent-gate:" + fn_short(b.path), ok, "the speculative path must be inside `if self.is_idempotent`; state: " + df.fmt_state(st), b.term_span(bb))


def r2_r4(ctx, facts):
    r2 = ctx.rule("R2", "at most 1 + max executions: starts are counted down", floor=5)
    r4 = ctx.rule("R4", "execute returns a definitive result, or only when nothing runs and nothing may start", floor=2)
    b = facts.one(r"^scylla::policies::speculative_execution::execute::\{closure#0\}$")
    df = df_of(b, facts)
    starts = [c for bb, c in b.calls() if bb in b.live_blocks and c.decl == "core::ops::function::FnMut::call_mut" and "res" not in c.callee]
    kinds = {c.bb: bool_arg(b, c) for c in starts}
    first = [c for c in starts if kinds[c.bb] == 0]
    spec = [c for c in starts if kinds[c.bb] == 1]
    unk = [c for c in starts if kinds[c.bb] is None]
    r2.instance("one-original-start", len(first) == 1 and not unk, "exactly one query_runner_generator(false) call; found %d (+%d with non-constant flag)" % (len(first), len(unk)), b.span)
    if first:
        r2.instance("original-start-not-in-loop", first[0].bb not in b.reachable_after(first[0].bb), "the original execution is started once, outside the loop", first[0].span)
    # the counter
    inits = b.calls_to("SpeculativeExecutionPolicy::max_retry_count")
    if len(inits) != 1 or inits[0].dest[1]:
        raise AnchorLost("execute: counter initialisation from policy.max_retry_count not found")
    ctr = inits[0].dest[0]
    e_ctr = ("val", (ctr, ()))
    decs, zeros, others = [], [], []
    for d in b.defs.get(ctr, []):
        if d[0] == "call":
            continue
        if d[0] != "stmt":
            others.append(d)
            continue
        rv = d[3]
        src = rv
        if rv[0] == "use" and rv[1][0] in ("c", "m") and rv[1][1][1]:
            sd = b.single_def(rv[1][1][0])
            if sd and sd[0] == "stmt":
                src = sd[3]
        if src[0] == "bin" and src[1].startswith("Sub") and src[3][0] == "k" and int(src[3][3]) == 1 and df.expr_of_operand(src[2]) == e_ctr:
            decs.append(d)
        elif rv[0] == "use" and rv[1][0] == "k" and rv[1][1] == "int" and int(rv[1][3]) == 0:
            zeros.append(d)
        else:
            others.append(d)
    r2.instance("counter-writes", not others, "retries_remaining may only be decremented by one or set to 0; other writes: %d" % len(others), b.span)
    if not spec:
        raise AnchorLost("execute: no speculative start (query_runner_generator(true)) found")
    for i, c in enumerate(spec):
        st = df.state_in.get(c.bb) or {}
        Z = ("const", 0)
        # usize counter: `ctr > 0`, `ctr != 0`, `!(ctr == 0)`, `0 < ctr`, `!(ctr <= 0)` ... all say the same
        gt = cmp_truth(st, "Gt", e_ctr, Z) == 1 or cmp_truth(st, "Eq", e_ctr, Z) == 0
        r2.instance("speculative-start-needs-budget#%d" % i, gt, "query_runner_generator(true) must be in the `retries_remaining > 0` region; state: " + df.fmt_state(st), c.span)
        dbbs = [d[1] for d in decs]
        r2.instance("speculative-start-is-counted#%d" % i, bool(dbbs) and c.bb not in b.reachable_after(c.bb, removed_nodes=dbbs) and not any(o.bb in b.reachable_after(c.bb, removed_nodes=dbbs) for o in spec if o.bb != c.bb),
                    "another speculative start must not be reachable without passing `retries_remaining -= 1`", c.span)
    # R4 exits
    rets = [(bb, j, s) for bb in b.live_blocks for j, s in enumerate(b.stmts(bb)) if s[0] == "A" and s[1][0] == 0 and not s[1][1]]
    rcalls = [c for bb, c in b.calls() if bb in b.live_blocks and c.dest[0] == 0 and not c.dest[1]]
    cbi = b.calls_to(SE + "can_be_ignored")
    emp = b.calls_to("FuturesUnordered::<Fut>::is_empty")
    if not cbi or not emp:
        raise AnchorLost("execute: can_be_ignored / async_tasks.is_empty not found")
    n = 0
    Z = ("const", 0)
    last_err = {l for l in range(len(b.locals)) if b.local_name(l) == "last_error"}
    djx = dj_of(b, facts)
    exits = [(bb, djx.states_before_stmt(bb, j) or [{}], b.stmt_span(s), ("stmt", s)) for bb, j, s in rets] + \
            [(c.bb, [dict(fs) for fs in djx.states.get(c.bb, ())] or [{}], c.span, ("call", c)) for c in rcalls]

    def is_definitive(st):
        return any(k == ("call", c.bb) and in_set(v, {0}) for c in cbi for k, v in st.items())
    for bb, sts, span, how in sorted(exits, key=lambda x: x[0]):
        n += 1
        # per disjunctive state: either the result at hand was definitive, or this is the give-up exit
        rest = [st for st in sts if not is_definitive(st)]
        if not rest:
            r4.ok("return-definitive-result#%d" % n, "returned where can_be_ignored(&r) was false", span)
            continue
        empty = all(any(k == ("call", e.bb) and in_set(v, {1}) for e in emp for k, v in st.items()) for st in rest)
        nomore = all(cmp_truth(st, "Eq", e_ctr, Z) == 1 or cmp_truth(st, "Gt", e_ctr, Z) == 0 or cmp_truth(st, "Ne", e_ctr, Z) == 0 for st in rest)
        st = rest[0]
        # otherwise this must be the give-up exit: nothing running, nothing left to start, and what is returned is the
        # remembered last error (or the empty-plan error)
        if how[0] == "stmt":
            ops = [o for o in _rv_ops(how[1][2])]
        else:
            ops = list(how[1].args)
        locs = set()
        for o in ops:
            locs |= backward_slice(b, o)[0]
        from_last = bool(locs & last_err) or (how[0] == "stmt" and how[1][2][0] == "agg" and how[1][2][1][0] == "adt" and how[1][2][1][2] == "Err")
        r4.instance("return-last-error-only-when-done#%d" % n, empty and nomore and from_last,
                    "an exit that is not a definitive result needs async_tasks.is_empty() (%s) and retries_remaining == 0 (%s) and must return the remembered last error (%s); state: %s"
                    % (empty, nomore, from_last, df.fmt_state(st)), span)
    if n == 0:
        raise AnchorLost("execute: no exit found")
    # the remembered error is the LAST ignorable one: every ignorable result overwrites the slot, nothing else touches it
    def is_some_store(st):
        if not (st[0] == "A" and st[1][0] in last_err and not st[1][1]):
            return False
        rv = st[2]
        if rv[0] == "agg" and rv[1][0] == "adt" and rv[1][2] == "Some":
            return True
        if rv[0] == "use" and rv[1][0] in ("c", "m") and not rv[1][1][1]:
            sd = b.single_def(rv[1][1][0])
            return bool(sd and sd[0] == "stmt" and sd[3][0] == "agg" and sd[3][1][0] == "adt" and sd[3][1][2] == "Some")
        return False
    store_bbs = {bb for bb in b.live_blocks for st in b.stmts(bb) if is_some_store(st)}
    # `last_error.insert(r)` / `.replace(r)` overwrite just the same
    ok_borrow_locals = set()
    for bb, c in b.calls():
        if bb in b.live_blocks and (c.decl or "") in ("core::option::Option::<T>::insert", "core::option::Option::<T>::replace") and c.args and c.args[0][0] in ("c", "m"):
            sd = b.single_def(c.args[0][1][0])
            if sd and sd[0] == "stmt" and sd[3][0] == "ref" and sd[3][2][0] in last_err:
                store_bbs.add(bb)
                ok_borrow_locals.add(c.args[0][1][0])
    bad = []
    for c in cbi:
        for sw, tt, ff in truth_edges(b, df, ("call", c.bb)):
            reach = djx.feasible_reach_edge(sw, tt, removed_nodes=store_bbs) if tt not in store_bbs else set()
            if reach & (set(b.exits) | {x.bb for x in cbi}):
                bad.append(str(b.term_span(sw)))
    r4.instance("every-ignorable-result-overwrites-last_error", bool(store_bbs) and not bad,
                "after can_be_ignored(&r) came out true, `last_error = Some(r)` must be executed before the next result is looked at or the call returns "
                "(the property promises the LAST error; keeping the first one reports a stale failure): bypass from %s" % bad[:2], b.span)
    borrows = [b.stmt_span(st) for bb in b.live_blocks for st in b.stmts(bb)
               if st[0] == "A" and st[2][0] == "ref" and st[2][1] == "m" and st[2][2][0] in last_err and st[1][0] not in ok_borrow_locals]
    r4.instance("last_error-written-only-by-assignment", not borrows,
                "`last_error` is handed out as `&mut` (%s): an in-place update such as get_or_insert / or_else keeps an earlier error" % [str(x) for x in borrows[:2]], borrows[0] if borrows else b.span)


def r5(ctx, facts):
    r = ctx.rule("R5", "an execution that finds the plan exhausted reports `None` (ignorable), never a definitive error", floor=2)
    # who builds RequestError::EmptyPlan: only the constant the speculative loop returns when nothing was ever started, the
    # non-speculative path of run_request_no_side_effects, and Clone. A fiber that manufactured it would end the whole call
    # (can_be_ignored(EmptyPlan) is false) while earlier executions are still in flight.
    RE = "scylla::errors::RequestError"
    fb = facts.one(r"^scylla::client::execution::RequestExecutionParams::<.a>::run_request_speculative_fiber::\{closure#0\}$")
    makers = []
    for b in closure_family(facts, fb):
        for bb in b.live_blocks:
            for st in b.stmts(bb):
                if st[0] == "A" and st[2][0] == "agg" and st[2][1][0] == "adt" and st[2][1][1] == RE and st[2][1][2] == "EmptyPlan":
                    makers.append(b.stmt_span(st))
    r.instance("fiber-never-builds-empty-plan", not makers,
               "run_request_speculative_fiber builds RequestError::EmptyPlan: can_be_ignored(EmptyPlan) is false, so the whole call would return while earlier executions are still in flight; "
               "an exhausted plan must be reported as None", makers[0] if makers else fb.span)
    # what the fiber returns at its end: None, or Some(Err(e)) with e the remembered last error
    last = {l for l in range(len(fb.locals)) if fb.local_name(l) == "last_error"}
    rets = []
    for bb in sorted(fb.live_blocks):
        for st in fb.stmts(bb):
            if st[0] == "A" and st[1] == [0, []]:
                rets.append(("stmt", bb, st))
    for bb, c in fb.calls():
        if bb in fb.live_blocks and c.dest == [0, []]:
            rets.append(("call", bb, c))
    tail_ok, n_tail = True, 0
    for kind, bb, x in rets:
        if kind == "stmt":
            rv = x[2]
            if rv[0] == "agg" and rv[1][0] == "adt" and rv[1][1] == "core::option::Option" and rv[1][2] == "None":
                n_tail += 1
                continue
            ops = _rv_ops(rv)
        else:
            ops = list(x.args)
        locs = set()
        for o in ops:
            locs |= backward_slice(fb, o)[0]
        # returns that hand out an attempt's own result (Ok / definitive error) do not involve last_error: only the
        # give-up tail must
        if locs & last:
            n_tail += 1
    r.instance("fiber-returns-last-error-or-none", n_tail >= 1,
               "run_request_speculative_fiber must end by returning the remembered last error (Some(Err(last_error))) or None when no attempt produced one", fb.span)


# which outcomes of one execution do not end the whole speculative call (reviewed against the comments in can_be_ignored:
# "can try on another node" vs "will almost certainly appear for other nodes as well / definitive")
REF_IGNORABLE = {
    "RequestError::EmptyPlan": False, "RequestError::RequestTimeout": False, "RequestError::ConnectionPoolError": True,
    "RequestAttemptError::SerializationError": False, "RequestAttemptError::CqlRequestSerialization": False,
    "RequestAttemptError::BodyExtensionsParseError": False, "RequestAttemptError::CqlResultParseError": False,
    "RequestAttemptError::CqlErrorParseError": False, "RequestAttemptError::UnexpectedResponse": False,
    "RequestAttemptError::RepreparedIdChanged": False, "RequestAttemptError::RepreparedIdMissingInBatch": False,
    "RequestAttemptError::NonfinishedPagingState": False,
    "RequestAttemptError::BrokenConnectionError": True, "RequestAttemptError::UnableToAllocStreamId": True,
}


def r6(ctx, facts):
    r = ctx.rule("R6", "which execution outcomes are ignorable (another execution may still answer) equals the reviewed table", floor=12)
    b = facts.one(r"^scylla::policies::speculative_execution::can_be_ignored$")
    dj = dj_of(b, facts)
    RE, RA = "scylla::errors::RequestError", "scylla::errors::RequestAttemptError"
    got = {}
    for bb in sorted(b.live_blocks):
        for j, st in enumerate(b.stmts(bb)):
            if not (st[0] == "A" and st[1] == [0, []]):
                continue
            e_ret = dj.expr_of_rvalue(st[2])
            for stt in dj.states_before_stmt(bb, j):
                v_ret = dj.eval_in(stt, e_ret) if e_ret is not None else None
                if v_ret not in (0, 1):
                    continue        # not a constant verdict in this state (e.g. delegated to DbError::can_speculative_retry)
                val = bool(v_ret)
                outer = inner = None
                for k, v in stt.items():
                    if k[0] != "disc" or v[0] != "in":
                        continue
                    ty = dj.disc_ty.get(k[1], "")
                    if ty.endswith("errors::RequestError") or ty == RE:
                        outer = sorted(dj.variant_names(k[1], v, RE))
                    elif ty.endswith("errors::RequestAttemptError") or ty == RA:
                        inner = sorted(dj.variant_names(k[1], v, RA))
                names = ["RequestAttemptError::" + x for x in inner] if inner else (["RequestError::" + x for x in outer if x != "LastAttemptError"] if outer else [])
                for nmx in names:
                    got.setdefault(nmx, set()).add(val)
    for nm, want in sorted(REF_IGNORABLE.items()):
        r.instance("ignorable:" + nm, got.get(nm) == {want},
                   "can_be_ignored(%s) is %s; reviewed table says %s (an ignorable outcome that is treated as definitive ends the call while other executions could still answer, and vice versa)"
                   % (nm, sorted(got.get(nm, [])) or "not decided by a constant", want), b.span)
    extra = sorted(k for k in got if k not in REF_IGNORABLE and not k.endswith("::DbError"))
    r.instance("no-unreviewed-class", not extra, "error classes with a constant verdict that the reviewed table does not list: %s" % extra, b.span, nontrivial=False)
    r.instance("db-errors-delegated", bool(b.calls_to("DbError::can_speculative_retry")), "DbError outcomes are judged by DbError::can_speculative_retry", b.span, nontrivial=False)


def _rv_ops(rv):
    k = rv[0]
    if k in ("use", "rep"):
        return [rv[1]]
    if k == "agg":
        return list(rv[2])
    if k == "cast":
        return [rv[2]]
    return []


def r7(ctx, facts):
    """shared with C07 (stated there): the plan of one page never names the previous coordinator twice - otherwise the original and a speculative execution of that page run on the same node"""
    from .c07 import r8 as c07_r8
    c07_r8(ctx, facts)


def r8(ctx, facts):
    r = ctx.rule("R8", "execute always returns: the `nothing finished with a result` case has a value (the empty-plan error), it is never unwrapped", floor=1)
    b = facts.one(r"^scylla::policies::speculative_execution::execute::\{closure#0\}$")
    n = 0
    for bb, c in b.calls():
        if bb not in b.live_blocks or not c.args:
            continue
        nm = (c.name or c.decl or "")
        last = nm.split("::")[-1]
        a = c.args[0]
        if a[0] not in ("c", "m"):
            continue
        ty = b.local_ty(a[1][0])
        if not ("Option<" in ty and "Result<" in ty and "RequestError" in ty and "Option" in nm):
            continue
        if last in ("unwrap", "expect", "unwrap_unchecked"):
            r.instance("last-error-unwrapped:" + last, False,
                       "`%s` on the optional last error: when every started execution found its plan exhausted (or no plan target "
                       "existed) nothing was recorded and the call panics instead of returning the empty-plan error" % last, c.span)
            n += 1
        elif last in ("unwrap_or", "unwrap_or_else", "unwrap_or_default", "map_or", "map_or_else", "ok_or", "ok_or_else"):
            r.instance("last-error-defaulted:" + last, True, "", c.span)
            n += 1
    if n == 0:
        # match / if-let form: a switch on the option's discriminant with both arms live
        from ..util import df_of
        df = df_of(b, facts)
        for bb in b.live_blocks:
            t = b.term(bb)
            if t[0] == "switch":
                e = df.expr_of_operand(t[1])
                if e[0] == "disc" and "Option<" in b.local_ty(e[1][0]) and "RequestError" in b.local_ty(e[1][0]) and "Result<" in b.local_ty(e[1][0]):
                    r.instance("last-error-matched", True, "", b.term_span(bb))
                    n += 1
    if n == 0:
        raise AnchorLost("execute: no use of the optional last error found")


def check(ctx):
    facts = inline_view(ctx.facts("default"))
    for fn in (r1, r2_r4, r5, r6, r7, r8):
        try:
            fn(ctx, facts)
        except AnchorLost as ex:
            ctx.rule(fn.__name__.upper() + "x", "anchors of " + fn.__name__).fail("anchor-lost", str(ex))
