"""C13 — speculative execution is idempotent-only, bounded, and returns.

Decided statically:
 R1 gate: speculative_execution::execute is called only from run_request_no_side_effects, in the region where
    self.is_idempotent is true (the same field the retry policy is shown, C06.R5).
 R2 counter discipline: exactly one non-speculative start, outside the loop; every speculative start is in the
    `retries_remaining > 0` region and cannot be repeated without passing `retries_remaining -= 1`; the counter is otherwise
    only initialised from the policy and assigned 0  =>  at most 1 + max executions are started.
 R4 exits: execute returns only (a) a result for which can_be_ignored() was false, or (b) where no execution is running
    (async_tasks.is_empty()) and none may still be started (retries_remaining == 0).
Not decided: that the select loop always makes progress (liveness over timer/completion orderings); distinct plan targets
(guaranteed by the single shared plan iterator, a type-level fact).
"""
from ..mir import AnchorLost
from ..util import df_of, fn_short, in_set, callers_keys, backward_slice

SE = "scylla::policies::speculative_execution::"


def bool_arg(b, call):
    a = call.args[1]
    if a[0] in ("c", "m"):
        sd = b.single_def(a[1][0])
        if sd and sd[0] == "stmt" and sd[3][0] == "agg" and sd[3][1][0] == "tuple" and sd[3][2] and sd[3][2][0][0] == "k":
            return int(sd[3][2][0][3])
    return None


def r1(ctx, facts):
    r = ctx.rule("R1", "speculative execution is entered only for idempotent requests", floor=2)
    callers = [(b, bb) for b, bb in facts.callers_of(SE + "execute") if bb in b.live_blocks and b.crate == "scylla"]
    names = sorted({fn_short(b.path) for b, _ in callers})
    r.instance("execute-callers", bool(names) and all(n.startswith("RequestExecutionParams::run_request_no_side_effects") for n in names), "speculative_execution::execute is called from %s" % names)
    for b, bb in callers:
        df = df_of(b, facts)
        st = df.state_in.get(bb) or {}
        ok = any(k[0] == "val" and k[1][1][-1:] == ("is_idempotent",) and in_set(v, {1}) for k, v in st.items())
        r.instance("idempotent-gate:" + fn_short(b.path), ok, "the speculative path must be inside `if self.is_idempotent`; state: " + df.fmt_state(st), b.term_span(bb))


def r2_r4(ctx, facts):
    r2 = ctx.rule("R2", "at most 1 + max executions: starts are counted down", floor=5)
    r4 = ctx.rule("R4", "execute returns a definitive result, or only when nothing runs and nothing may start", floor=2)
    b = facts.one(r"^scylla::policies::speculative_execution::execute::\{closure#0\}$")
    df = df_of(b, facts)
    starts = [c for bb, c in b.calls() if bb in b.live_blocks and c.decl == "core::ops::function::FnMut::call_mut" and "res" not in c.callee]
    kinds = {c.bb: bool_arg(b, c) for c in starts}
    first = [c for c in starts if kinds[c.bb] == 0]
    spec = [c for c in starts if kinds[c.bb] == 1]
    unk = [c for c in starts if kinds[c.bb] is None]
    r2.instance("one-original-start", len(first) == 1 and not unk, "exactly one query_runner_generator(false) call; found %d (+%d with non-constant flag)" % (len(first), len(unk)), b.span)
    if first:
        r2.instance("original-start-not-in-loop", first[0].bb not in b.reachable_after(first[0].bb), "the original execution is started once, outside the loop", first[0].span)
    # the counter
    inits = b.calls_to("SpeculativeExecutionPolicy::max_retry_count")
    if len(inits) != 1 or inits[0].dest[1]:
        raise AnchorLost("execute: counter initialisation from policy.max_retry_count not found")
    ctr = inits[0].dest[0]
    e_ctr = ("val", (ctr, ()))
    decs, zeros, others = [], [], []
    for d in b.defs.get(ctr, []):
        if d[0] == "call":
            continue
        if d[0] != "stmt":
            others.append(d)
            continue
        rv = d[3]
        src = rv
        if rv[0] == "use" and rv[1][0] in ("c", "m") and rv[1][1][1]:
            sd = b.single_def(rv[1][1][0])
            if sd and sd[0] == "stmt":
                src = sd[3]
        if src[0] == "bin" and src[1].startswith("Sub") and src[3][0] == "k" and int(src[3][3]) == 1 and df.expr_of_operand(src[2]) == e_ctr:
            decs.append(d)
        elif rv[0] == "use" and rv[1][0] == "k" and rv[1][1] == "int" and int(rv[1][3]) == 0:
            zeros.append(d)
        else:
            others.append(d)
    r2.instance("counter-writes", not others, "retries_remaining may only be decremented by one or set to 0; other writes: %d" % len(others), b.span)
    if not spec:
        raise AnchorLost("execute: no speculative start (query_runner_generator(true)) found")
    for i, c in enumerate(spec):
        st = df.state_in.get(c.bb) or {}
        gt = any(k[0] == "bin" and ((k[1] == "Gt" and k[2] == e_ctr and k[3] == ("const", 0) and in_set(v, {1})) or (k[1] == "Ne" and {k[2], k[3]} == {e_ctr, ("const", 0)} and in_set(v, {1}))
                                      or (k[1] in ("Eq", "Le") and k[2] == e_ctr and k[3] == ("const", 0) and in_set(v, {0}))) for k, v in st.items())
        r2.instance("speculative-start-needs-budget#%d" % i, gt, "query_runner_generator(true) must be in the `retries_remaining > 0` region; state: " + df.fmt_state(st), c.span)
        dbbs = [d[1] for d in decs]
        r2.instance("speculative-start-is-counted#%d" % i, bool(dbbs) and c.bb not in b.reachable_after(c.bb, removed_nodes=dbbs) and not any(o.bb in b.reachable_after(c.bb, removed_nodes=dbbs) for o in spec if o.bb != c.bb),
                    "another speculative start must not be reachable without passing `retries_remaining -= 1`", c.span)
    # R4 exits
    rets = [(bb, j, s) for bb in b.live_blocks for j, s in enumerate(b.stmts(bb)) if s[0] == "A" and s[1][0] == 0 and not s[1][1]]
    rcalls = [c for bb, c in b.calls() if bb in b.live_blocks and c.dest[0] == 0 and not c.dest[1]]
    cbi = b.calls_to(SE + "can_be_ignored")
    emp = b.calls_to("FuturesUnordered::<Fut>::is_empty")
    if not cbi or not emp:
        raise AnchorLost("execute: can_be_ignored / async_tasks.is_empty not found")
    n = 0
    for bb, j, s in rets:
        st = df.state_before_stmt(bb, j) or {}
        ok = any(k == ("call", c.bb) and in_set(v, {0}) for c in cbi for k, v in st.items())
        n += 1
        r4.instance("return-definitive-result#%d" % n, ok, "a result may be returned directly only where can_be_ignored(&r) was false; state: " + df.fmt_state(st), b.stmt_span(s))
    for c in rcalls:
        st = df.state_in.get(c.bb) or {}
        empty = any(k == ("call", e.bb) and in_set(v, {1}) for e in emp for k, v in st.items())
        nomore = any(k[0] == "bin" and ((k[1] == "Eq" and {k[2], k[3]} == {e_ctr, ("const", 0)} and in_set(v, {1})) or (k[1] in ("Ne", "Gt") and k[2] == e_ctr and in_set(v, {0}))) for k, v in st.items())
        n += 1
        r4.instance("return-last-error-only-when-done#%d" % n, empty and nomore and c.is_("Option::<T>::unwrap_or", "Option::<T>::unwrap_or_else"),
                    "the last-error exit needs async_tasks.is_empty() (%s) and retries_remaining == 0 (%s); state: %s" % (empty, nomore, df.fmt_state(st)), c.span)
    if n == 0:
        raise AnchorLost("execute: no exit found")


def check(ctx):
    facts = ctx.facts("default")
    for fn in (r1, r2_r4):
        try:
            fn(ctx, facts)
        except AnchorLost as ex:
            ctx.rule(fn.__name__.upper() + "x", "anchors of " + fn.__name__).fail("anchor-lost", str(ex))
