"""C07 — paged iteration yields every row exactly once, in order, then ends.

Decided statically:
 R1 cursor/continue pairing (process_first_page, process_next_page, into_paging_control_flow): a MorePages / Continue outcome is
    produced only on the HasMorePages{state} arm, and on that arm the cursor is assigned from that very `state`; NoMorePages
    never assigns the cursor and yields NoMorePages / Break.
 R2 each attempt carries the current cursor: the PagingState handed to the per-attempt query derives from
    `self.paging_state.clone()` (session pager) / the loop variable (single-connection pager); the initial cursor is
    PagingState::start().
 R3 producer loops (query_remaining_pages, fetch_remaining_pages): another page is fetched only after this iteration's page was
    sent with an awaited Ok and the outcome said MorePages/Continue; a failed send, an error, and NoMorePages all exit; after an
    error was sent nothing more is fetched.
 R4 consumer never skips: poll_fill_page asks for the next page only where is_current_page_exhausted() was true; current_page is
    written only by poll_next_page and constructors.
 R5 retries are per page: fetch_one_page builds a fresh Plan and delegates to run_request_no_side_effects.
 (The EXECUTE re-sent after a re-prepare keeps the paging state: C14.R2.)
Not decided: channel FIFO semantics, row order inside a page, fault interleavings.
"""
from ..inline import inline_view
from ..mir import AnchorLost
from ..util import truth_edges, bool_edges, dj_of, df_of, fn_short, in_set, backward_slice, operand_path, path_last, switch_on, switch_edges, field_writers
from .c20 import slice_fields

PG = "scylla::client::pager::"
PSR = "scylla_cql_core::frame::request::query::PagingStateResponse"


def aggs_of(b, adt_suffix, variant=None):
    out = []
    for bb in sorted(b.live_blocks):
        for j, s in enumerate(b.stmts(bb)):
            if s[0] == "A" and s[2][0] == "agg" and s[2][1][0] == "adt" and s[2][1][1].endswith(adt_suffix) and (variant is None or s[2][1][2] == variant):
                out.append((bb, j, s))
    return out


def psr_variants(df, st):
    for k, v in (st or {}).items():
        if k[0] == "disc" and "PagingStateResponse" in df.disc_ty.get(k[1], ""):
            return df.variant_names(k[1], v, PSR), k[1]
    return None, None


def r1(ctx, facts):
    r = ctx.rule("R1", "MorePages/Continue only with HasMorePages, and the cursor is set from its state", floor=12)
    for fn in ("process_first_page", "process_next_page"):
        b = facts.one(r"^scylla::client::pager::PagingExecutor::%s$" % fn)
        df = df_of(b, facts)
        more = aggs_of(b, "ShouldFetchMorePages", "MorePages")
        nomore = aggs_of(b, "ShouldFetchMorePages", "NoMorePages")
        stores = [(bb, j, s) for bb in sorted(b.live_blocks) for j, s in enumerate(b.stmts(bb)) if s[0] == "A" and s[1][1] and df.canon.path(s[1]) == (1, ("paging_state",))]
        if not more or not stores:
            raise AnchorLost("%s: MorePages aggregate / paging_state store not found" % fn)
        for bb, j, s in more:
            vs, p = psr_variants(df, df.state_before_stmt(bb, j))
            r.instance("%s:more-only-if-has-more" % fn, vs == {"HasMorePages"}, "MorePages must be produced only on the HasMorePages arm; possible variants here: %s" % vs, b.stmt_span(s))
            # a cursor store on every path to this site within the arm, from the arm's payload
            good = False
            for sbb, sj, ss in stores:
                dom = (sbb == bb and sj < j) or (sbb != bb and b.dominates(sbb, bb))
                e = df.expr_of_rvalue(ss[2])
                from_state = e is not None and e[0] == "val" and "@HasMorePages" in e[1][1] and e[1][1][-1] == "state"
                if dom and from_state:
                    good = True
            r.instance("%s:cursor-updated-from-state" % fn, good, "before reporting MorePages, self.paging_state must be assigned the `state` of this HasMorePages response", b.stmt_span(s))
        for sbb, sj, ss in stores:
            vs, p = psr_variants(df, df.state_before_stmt(sbb, sj))
            r.instance("%s:cursor-written-only-on-has-more" % fn, vs == {"HasMorePages"}, "self.paging_state may be assigned only on the HasMorePages arm; variants here: %s" % vs, b.stmt_span(ss))
        for bb, j, s in nomore:
            vs, p = psr_variants(df, df.state_before_stmt(bb, j))
            r.instance("%s:no-more-is-terminal" % fn, vs is None or "HasMorePages" not in vs, "NoMorePages must not be reported for a HasMorePages response", b.stmt_span(s), nontrivial=vs is not None)
    cb = facts.one(r"^scylla_cql_core::frame::request::query::PagingStateResponse::into_paging_control_flow$")
    cdf = df_of(cb, facts)
    cont = aggs_of(cb, "ControlFlow", "Continue")
    brk = aggs_of(cb, "ControlFlow", "Break")
    ok = bool(cont) and bool(brk)
    for bb, j, s in cont:
        vs, _ = psr_variants(cdf, cdf.state_before_stmt(bb, j))
        e = cdf.expr_of_operand(s[2][2][0])
        if vs != {"HasMorePages"} or not (e[0] == "val" and "@HasMorePages" in e[1][1]):
            ok = False
    for bb, j, s in brk:
        vs, _ = psr_variants(cdf, cdf.state_before_stmt(bb, j))
        if vs != {"NoMorePages"}:
            ok = False
    r.instance("into_paging_control_flow", ok, "Continue(state) iff HasMorePages{state}; Break iff NoMorePages", cb.span)


def r2(ctx, facts):
    r = ctx.rule("R2", "every page request carries the current cursor; the first carries none", floor=4)
    # session pager: the adapter closure inside fetch_one_page
    # found by its role, not by its closure number: the coroutine inside fetch_one_page that invokes the caller's page_query
    from ..util import closure_family as _cf
    top_ = facts.one(r"^scylla::client::pager::PagingExecutor::fetch_one_page::\{closure#0\}$")
    cands = [x for x in _cf(facts, top_) if x.is_coroutine and x.path != top_.path and
             [c for bb, c in x.calls() if bb in x.live_blocks and c.decl == "core::ops::function::Fn::call" and "res" not in c.callee]]
    if len(cands) != 1:
        raise AnchorLost("PagingExecutor::fetch_one_page adapter coroutine not found (%d)" % len(cands))
    b = cands[0]
    df = df_of(b, facts)
    calls = [c for bb, c in b.calls() if bb in b.live_blocks and c.decl == "core::ops::function::Fn::call" and "res" not in c.callee]
    if len(calls) != 1:
        raise AnchorLost("adapter: expected one page_query invocation")
    c = calls[0]
    # args tuple = (connection, consistency, paging_state)
    tup = c.args[1]
    sd = b.single_def(tup[1][0])
    if not (sd and sd[0] == "stmt" and sd[3][0] == "agg" and sd[3][1][0] == "tuple" and len(sd[3][2]) == 3):
        raise AnchorLost("adapter: page_query argument tuple not found")
    ps = sd[3][2][2]
    locs, cs, _ = backward_slice(b, ps)
    cl = [x for x in cs if (x.name or "").endswith("PagingState as core::clone::Clone>::clone") or (x.decl or "").endswith("Clone::clone")]
    ok = bool(cl) and "paging_state" in slice_fields(b, ps)
    r.instance("session-pager:attempt-uses-self-cursor", ok, "page_query must be given self.paging_state.clone(); derivation fields: %s" % sorted(slice_fields(b, ps)), c.span)
    nb = facts.one(r"^scylla::client::pager::PagingExecutor::new$")
    ag = aggs_of(nb, "pager::PagingExecutor")
    if len(ag) != 1:
        raise AnchorLost("PagingExecutor::new aggregate")
    s = ag[0][2]
    op = s[2][2][s[2][1][4].index("paging_state")]
    _, cs, _ = backward_slice(nb, op)
    r.instance("session-pager:starts-at-start", any((x.name or "").endswith("PagingState::start") for x in cs), "a new pager must start from PagingState::start()", nb.stmt_span(s))
    w = [x for x in field_writers(facts, PG + "PagingExecutor", ["paging_state"]) if x[2] != "construct"]
    okw = {x[0] for x in w} <= {"PagingExecutor::process_first_page", "PagingExecutor::process_next_page"}
    r.instance("session-pager:cursor-writers", okw, "PagingExecutor.paging_state is written by %s" % sorted(w))
    # single connection pager: fetch_one_page(&paging_state) with the loop variable, assigned from Continue payload
    fb = facts.one(r"^scylla::client::pager::SingleConnectionPagingExecutor::fetch_remaining_pages::\{closure#0\}$")
    fdf = df_of(fb, facts)
    fo = fb.calls_to("SingleConnectionPagingExecutor::fetch_one_page")
    if len(fo) != 1:
        raise AnchorLost("fetch_remaining_pages: expected one fetch_one_page call")
    p = operand_path(fdf, fo[0].args[1])
    var = p[0] if p else None
    defs = [d for d in fb.defs.get(var, []) if d[0] == "stmt"]
    good = bool(defs)
    for d in defs:
        e = fdf.expr_of_rvalue(d[3])
        if not (e and e[0] == "val" and ("@Continue" in e[1][1] or e[1][0] == 1)):
            good = False
    r.instance("cc-pager:cursor-is-loop-variable", good, "the control-connection pager must pass the loop's paging_state, updated only from Continue(new_state) or the initial argument", fo[0].span)


def producer(r, facts, pat, fetch_name, tag, more_edge):
    b = facts.one(pat)
    df = df_of(b, facts)
    fetch = [c for c in b.calls_to(fetch_name)]
    if len(fetch) != 1:
        raise AnchorLost("%s: expected one %s call, found %d" % (tag, fetch_name, len(fetch)))
    F = fetch[0]
    sends = b.calls_to("tokio::sync::mpsc::bounded::Sender::<T>::send")
    ok_sends, err_sends = [], []

    def payload_variants(l, depth=0):
        """which Result variants the payload local may hold: every definition, through whole-local copies (a payload chosen in
        the arms of a match and sent by ONE send is both a page send and an error send)"""
        out = set()
        for d in b.defs.get(l, []):
            if d[0] != "stmt":
                out.add("?")
            elif d[3][0] == "agg" and d[3][1][0] == "adt":
                out.add(d[3][1][2])
            elif d[3][0] == "use" and d[3][1][0] in ("c", "m") and not d[3][1][1][1] and depth < 6:
                out |= payload_variants(d[3][1][1][0], depth + 1)
            elif d[3][0] == "use" and d[3][1][0] in ("c", "m") and len(d[3][1][1][1]) == 1 and isinstance(d[3][1][1][1][0], list) \
                    and d[3][1][1][1][0][0] == "f" and depth < 6:
                # component k of a tuple built in the arms of a match: `let (item, more) = match .. { .. => (Ok(page), more), .. => (Err(e), No) }`
                k = d[3][1][1][1][0][1]
                got = False
                for td in b.defs.get(d[3][1][1][0], []):
                    if td[0] == "stmt" and td[3][0] == "agg" and td[3][1][0] == "tuple" and k < len(td[3][2]) and td[3][2][k][0] in ("c", "m"):
                        out |= payload_variants(td[3][2][k][1][0], depth + 1)
                        got = True
                if not got:
                    out.add("?")
            else:
                out.add("?")
        return out
    for s in sends:
        a = s.args[1]
        vs = payload_variants(a[1][0]) if a[0] in ("c", "m") else {"?"}
        if "Ok" in vs:
            ok_sends.append(s)
        if vs - {"Ok"}:
            err_sends.append(s)
    # an error must be handed over with the awaited `send` (back-pressure): `try_send` on the capacity-1 channel drops it
    # whenever the consumer has not yet taken the previous page, and the stream then ends as if it were complete
    lossy = []
    for s2 in b.calls_to("tokio::sync::mpsc::bounded::Sender::<T>::try_send", "tokio::sync::mpsc::bounded::Sender::<T>::send_timeout"):
        a = s2.args[1]
        sd = b.single_def(a[1][0]) if a[0] in ("c", "m") else None
        v = sd[3][1][2] if sd and sd[0] == "stmt" and sd[3][0] == "agg" and sd[3][1][0] == "adt" else None
        if v != "Ok":
            lossy.append(s2)
    r.instance(tag + ":errors-delivered-reliably", bool(err_sends) and not lossy,
               "a failed page fetch must reach the consumer through the awaited Sender::send (found %d awaited error sends, %d lossy ones: try_send drops the error when the previous page is still in the channel)" % (len(err_sends), len(lossy)),
               (lossy[0].span if lossy else b.span))
    if len(ok_sends) != 1:
        raise AnchorLost("%s: expected one send(Ok(page)); found %d" % (tag, len(ok_sends)))
    S = ok_sends[0]
    r.instance(tag + ":next-fetch-needs-sent-page", F.bb not in b.reachable_after(F.bb, removed_nodes=[S.bb]), "another page may be fetched only after this one was handed to the consumer", F.span)
    # page sent derives from this iteration's fetch
    locs, _, _ = backward_slice(b, S.args[1])
    r.instance(tag + ":sent-page-is-fetched-page", F.dest[0] in locs, "the page sent must come from this iteration's fetch", S.span)
    # is_err() of the awaited send: the true edge exits
    ie = [c for c in b.calls_to("Result::<T, E>::is_err", "Result::<T, E>::is_ok") if b.dominates(S.bb, c.bb)]
    good = False
    for c in ie:
        for sw, tt, ff in truth_edges(b, df, ("call", c.bb)):
            fail_tg = tt if c.name.endswith("is_err") else ff
            if fail_tg is not None and F.bb not in b.reachable_from(fail_tg):
                good = True
    r.instance(tag + ":closed-channel-stops", good, "if the consumer is gone (send failed) the producer must stop", S.span)
    for e in err_sends:
        if e in ok_sends:
            continue     # a combined page-or-error send: judged as the page send above (the channel test after it stops the producer)
        r.instance(tag + ":error-is-last:%d" % e.bb, F.bb not in b.reachable_after(e.bb) and not any(x.bb in b.reachable_after(e.bb) for x in sends if x.bb != e.bb),
                   "after an error was sent no further page is fetched or sent", e.span)
    # continue only on MorePages / Continue
    more_edge(r, b, df, F, S, tag)


def more_edge_session(r, b, df, F, S, tag):
    SFM = PG + "ShouldFetchMorePages"
    sws = []
    for bb in b.live_blocks:
        t = b.term(bb)
        if t[0] == "switch":
            e = df.expr_of_operand(t[1])
            if e[0] == "disc" and df.disc_ty.get(e[1], "") == SFM:
                sws.append(bb)
    if len(sws) != 1:
        raise AnchorLost(tag + ": switch on ShouldFetchMorePages not found")
    t = b.term(sws[0])
    names = {df.facts.variant_by_discr(SFM, v): tg for v, tg in t[2]}
    allv = set(df.facts.variants(SFM))
    if len(names) < len(allv):
        missing = list(allv - set(names))
        if len(missing) == 1:
            names[missing[0]] = t[3]
    # feasibility-aware reachability: the outcome may first be stored in a boolean (`matches!(..)`) and branched on later
    dj = dj_of(b, df.facts)
    r.instance(tag + ":no-more-pages-stops", "NoMorePages" in names and F.bb not in dj.feasible_reach_edge(sws[0], names["NoMorePages"]), "NoMorePages must end the producer", b.term_span(sws[0]))
    cut = [(sws[0], names.get("MorePages"))]
    r.instance(tag + ":loop-only-via-more-pages", F.target is not None and F.bb not in dj.feasible_reach_edge(F.bb, F.target, removed_edges=cut), "the loop may continue only through the MorePages outcome", b.term_span(sws[0]))


def more_edge_cc(r, b, df, F, S, tag):
    cf = b.calls_to("PagingStateResponse::into_paging_control_flow")
    if len(cf) != 1:
        raise AnchorLost(tag + ": into_paging_control_flow call not found")
    sws = switch_on(b, df, ("disc", (cf[0].dest[0], ())))
    if len(sws) != 1:
        raise AnchorLost(tag + ": ControlFlow result not matched once")
    edges, other = switch_edges(b, sws[0])
    brk = edges.get(1, other)
    cont = edges.get(0, other if 1 in edges else None)
    r.instance(tag + ":break-stops", F.bb not in b.reachable_from(brk), "ControlFlow::Break must end the producer", b.term_span(sws[0]))
    r.instance(tag + ":loop-only-via-continue", F.bb not in b.reachable_after(F.bb, removed_edges=[(sws[0], cont)]), "the loop may continue only through ControlFlow::Continue", b.term_span(sws[0]))


def r3(ctx, facts):
    r = ctx.rule("R3", "producer loops: fetch next only after the page was delivered and more pages were announced", floor=15)
    producer(r, facts, r"^scylla::client::pager::PagingExecutor::query_remaining_pages::\{closure#0\}$", "PagingExecutor::fetch_one_page", "session-pager", more_edge_session)
    producer(r, facts, r"^scylla::client::pager::SingleConnectionPagingExecutor::fetch_remaining_pages::\{closure#0\}$", "SingleConnectionPagingExecutor::fetch_one_page", "cc-pager", more_edge_cc)


def r4(ctx, facts):
    r = ctx.rule("R4", "the consumer switches pages only when the current one is exhausted", floor=2)
    b = facts.one(r"^scylla::client::pager::QueryPager::poll_fill_page$")
    df = df_of(b, facts)
    nx = b.calls_to("QueryPager::poll_next_page")
    ex = b.calls_to("QueryPager::is_current_page_exhausted")
    if len(nx) != 1 or not ex:
        raise AnchorLost("poll_fill_page: poll_next_page / is_current_page_exhausted not found")
    st = df.state_in.get(nx[0].bb) or {}
    ok = any(k == ("call", e.bb) and in_set(v, {1}) for e in ex for k, v in st.items())
    r.instance("next-page-only-if-exhausted", ok, "poll_next_page must be called only where is_current_page_exhausted() returned true; state: " + df.fmt_state(st), nx[0].span)
    w = [x for x in field_writers(facts, PG + "QueryPager", ["current_page"]) if x[2] in ("assign",)]
    okw = {x[0] for x in w} <= {"QueryPager::poll_next_page"}
    r.instance("current_page-writers", okw, "QueryPager.current_page is assigned by %s" % sorted(w))


def r5(ctx, facts):
    r = ctx.rule("R5", "each page goes through the common retry/speculation core with a fresh plan", floor=2)
    b = facts.one(r"^scylla::client::pager::PagingExecutor::fetch_one_page::\{closure#0\}$")
    pl = b.calls_to("load_balancing::plan::Plan::<'a>::new", "plan::Plan::<'a>::new")
    rn = b.calls_to("RequestExecutionParams::<'a>::run_request_no_side_effects")
    r.instance("fresh-plan-per-page", len(pl) == 1, "fetch_one_page must build a new Plan", b.span)
    r.instance("delegates-to-execution-core", len(rn) == 1, "fetch_one_page must delegate to run_request_no_side_effects (C06/C13 rules then apply per page)", b.span)


def r6(ctx, facts):
    r = ctx.rule("R6", "hand-written poll functions of the row stream never return Pending after consuming a wake-up", floor=3)
    CX = "core::task::wake::Context"
    for b in facts.bodies.mentioning('"Pending"'):
        if b.crate != "scylla" or "{closure" in b.path or not b.span.file.endswith("client/pager.rs"):
            continue
        if not any(CX in (b.local_ty(i) or "") for i in range(1, b.argc + 1)):
            continue
        pend = [bb for bb in b.live_blocks for st in b.stmts(bb)
                if st[0] == "A" and st[1] == [0, []] and st[2][0] == "agg" and st[2][1][0] == "adt" and st[2][1][1] == "core::task::poll::Poll" and st[2][1][2] == "Pending"]
        inner = [c for bb, c in b.calls() if bb in b.live_blocks and (b.local_ty(c.dest[0]) or "").startswith("core::task::poll::Poll<")
                 and any(a[0] in ("c", "m") and CX in (b.local_ty(a[1][0]) or "") for a in c.args)]
        wakes = [c.bb for c in b.calls_to("core::task::wake::Waker::wake_by_ref", "core::task::wake::Waker::wake")]
        df = df_of(b, facts)
        for n, c in enumerate(inner):
            sws = switch_on(b, df, ("disc", (c.dest[0], ())))
            if not sws:
                r.note("%s: result of %s is not matched directly" % (fn_short(b.path), fn_short(c.name or "?")))
                continue
            bad = []
            for sw in sws:
                edges, other = switch_edges(b, sw)
                ready_tg = edges.get(0, other)
                cut = set(wakes) | {x.bb for x in inner if x is not c}
                if ready_tg in cut:
                    continue
                reach = b.reachable_from(ready_tg, removed_nodes=list(cut))
                bad += [p for p in pend if p in reach]
            r.instance("no-lost-wakeup:%s#%d" % (fn_short(b.path), n), not bad,
                       "after %s returned Ready (its wake-up registration is consumed), %s can return Poll::Pending without waking the task or polling again: the consumer would sleep forever (e.g. on an empty page)"
                       % (fn_short(c.name or "?"), fn_short(b.path)), c.span)


def r7(ctx, facts):
    r = ctx.rule("R7", "the decoder reports HasMorePages exactly when the frame's HAS_MORE_PAGES flag is set (whatever the paging-state bytes)", floor=3)
    NEW = "PagingStateResponse::new_from_raw_bytes"
    ALLOWED = ("bool::then", "Option::<core::result::Result<T, E>>::transpose", "Option::<T>::transpose", "Try::branch", "Result::<T, E>::map_err", "FromResidual",
               "Option::<T>::map", "Result::<T, E>::map", "Option::<T>::as_ref", "Option::<T>::as_deref", "Option::<T>::cloned", "Option::<T>::copied")
    n = 0
    for b in facts.bodies.mentioning('"scylla_cql_core::frame::request::query::' + NEW + '"', NEW):
        if b.crate not in ("scylla_cql", "scylla_cql_core"):
            continue
        for c in b.calls_to(NEW):
            n += 1
            _, calls, _ = backward_slice(b, c.args[0], data_only=True)
            names = [(x.callee.get("def") or x.name or "") for x in calls]
            then = [x for x in names if "bool" in x and (x.endswith("::then") or x.endswith("::then_some"))]
            odd = sorted({x.split("::")[-1] for x in names if (x.startswith("core::option::Option::<") or x.startswith("core::result::Result::<")) and not any(x.endswith(a) or a in x for a in ALLOWED)})
            shape_a = bool(then) and not odd
            shape_b = False
            if not shape_a:
                # explicit form: `if flag { Some(read_bytes()?) } else { None }` / `match flags & FLAG { 0 => ..(None), _ => ..(Some(..)) }`:
                # in every state that reaches the call the argument's variant is known and agrees with the flag bit
                dj = dj_of(b, facts)
                root = dj.disc_root(dj.canon.path(c.args[0][1])) if c.args[0][0] in ("c", "m") else None
                sts = dj.states_before_stmt(c.bb, len(b.stmts(c.bb)))
                shape_b = root is not None and bool(sts) and not odd
                for stt in sts:
                    dv = stt.get(("disc", root))
                    d = 1 if in_set(dv, {1}) else 0 if in_set(dv, {0}) else None
                    f = None
                    for k, v in stt.items():
                        if k[0] == "bin" and k[1] == "BitAnd" and ("const", 2) in k[2:4]:
                            f = 0 if in_set(v, {0}) else 1 if (v[0] == "notin" and 0 in v[1]) or (v[0] == "in" and 0 not in v[1]) else None
                    if d is None or f is None or d != f:
                        shape_b = False
            r.instance("flag-decides:" + fn_short(b.path), shape_a or shape_b,
                       "the Option handed to PagingStateResponse::new_from_raw_bytes must be Some exactly when the HAS_MORE_PAGES flag is set (`flag.then(read_bytes)`); "
                       "it also passes through %s, which can turn Some into None (e.g. for an empty paging state): the page would be taken for the last one" % odd, c.span)
    if n == 0:
        raise AnchorLost("no call of PagingStateResponse::new_from_raw_bytes in the response decoders")
    nb = facts.one(r"^scylla_cql_core::frame::request::query::PagingStateResponse::new_from_raw_bytes$")
    ndf = df_of(nb, facts)
    good = True
    found = 0
    for bb in nb.live_blocks:
        for j, st in enumerate(nb.stmts(bb)):
            if st[0] == "A" and st[2][0] == "agg" and st[2][1][0] == "adt" and st[2][1][1].endswith("PagingStateResponse"):
                found += 1
                stt = ndf.state_before_stmt(bb, j) or {}
                want = 1 if st[2][1][2] == "HasMorePages" else 0
                if not any(k[0] == "disc" and k[1][0] == 1 and in_set(v, {want}) for k, v in stt.items()):
                    good = False
    r.instance("new_from_raw_bytes:some-iff-more", found >= 2 and good, "new_from_raw_bytes must map Some(bytes) to HasMorePages and None to NoMorePages", nb.span)


def r8(ctx, facts):
    """retries of one page may go to every target of the policy's plan: the per-page plan drops nothing but the coordinator that is tried first"""
    r = ctx.rule("R8", "the per-page plan keeps every target of the load-balancing plan except the pre-selected coordinator (a retried page can reach a healthy node)", floor=1)
    from ..util import closure_family, bool_returns, field_slice
    top = facts.one(r"^scylla::client::pager::PagingExecutor::fetch_one_page::\{closure#0\}$")
    n = 0
    for b in closure_family(facts, top):
        for c in b.calls_to("Iterator::filter"):
            _, cs, _ = field_slice(b, c.args[0])
            if not any((x.name or "").endswith("load_balancing::plan::Plan::<'a>::new") or (x.name or "").endswith("Plan::new") or "Plan::<" in (x.name or "") and (x.name or "").endswith("::new") for x in cs):
                continue
            sd = b.single_def(c.args[1][1][0]) if c.args[1][0] in ("c", "m") else None
            for _ in range(4):      # a predicate bound to a name first: `let keep = |..| ..; plan.filter(keep)`
                if sd and sd[0] == "stmt" and sd[3][0] == "use" and sd[3][1][0] in ("c", "m"):
                    sd = b.single_def(sd[3][1][1][0])
            if not (sd and sd[0] == "stmt" and sd[3][0] == "agg" and sd[3][1][0] == "closure"):
                r.fail("plan-filter-shape", "the predicate filtering the load-balancing plan is not a closure built in place", c.span)
                n += 1
                continue
            pred = facts.body(sd[3][1][1])
            n += 1
            vals = bool_returns(facts, pred, lambda call: 0 if (call.name or call.decl or "").endswith("::ptr_eq") else None)
            # ... and the coordinator itself leaves the rest of the plan whatever shard the plan proposes, when it reported no shard of
            # its own (an unsharded node): otherwise the page's plan names the same node twice
            from ..util import field_slice as _fs, _rv_places as _rvp

            def unsharded_coordinator(call, _pred=pred):
                nm = (call.name or call.decl or "")
                last = nm.split("::")[-1]
                if nm.endswith("::ptr_eq"):
                    return 1
                body = None
                for cand in closure_family(facts, _pred):
                    if any(x is call for _, x in cand.calls()):
                        body = cand
                if body is None:
                    return None
                def from_shard(op):
                    return op[0] in ("c", "m") and any((x.name or "").endswith("Coordinator::shard") for x in _fs(body, op)[1])
                def from_stable(op):
                    # the previous coordinator, read here or captured from the enclosing function
                    if op[0] not in ("c", "m"):
                        return False
                    from .c11 import xslice
                    sl = xslice(facts, body, op)
                    for ent in sl["seen"]:
                        if len(ent) != 3:
                            continue
                        bd = facts.body(ent[0])
                        for d_ in (bd.defs.get(ent[1], []) if bd is not None else []):
                            rv_ = d_[3] if d_[0] == "stmt" else None
                            if rv_ and any(isinstance(e, list) and e[0] == "f" and e[2] == "stable_coordinator" for pl_ in _rvp(rv_) for e in pl_[1]):
                                return True
                        for cc in [x for _, x in (bd.calls() if bd is not None else []) if x.dest[0] == ent[1]]:
                            if any(a_[0] in ("c", "m") and any(isinstance(e, list) and e[0] == "f" and e[2] == "stable_coordinator" for e in a_[1][1]) for a_ in cc.args):
                                return True
                    return False
                if last in ("is_none_or", "is_none") and call.args and from_shard(call.args[0]):
                    return 1
                if last in ("is_some_and", "is_some") and call.args and from_shard(call.args[0]):
                    return 0
                if last in ("is_none_or", "is_some_and", "map_or") and call.args and from_stable(call.args[0]):
                    return "some"       # there IS a previous page's coordinator
                if last in ("is_some_and", "is_some") and call.args and from_shard(call.args[0]):
                    return 0
                if last in ("eq", "ne") and len(call.args) == 2 and (from_shard(call.args[0]) or from_shard(call.args[1])):
                    # compared with `Some(shard)`: None is different from every Some
                    return 0 if last == "eq" else 1
                return None
            def no_coordinator(dj_, stt):
                # executions in which there is no previous coordinator at all are outside the hypothesis
                return any(k[0] == "disc" and "stable_coordinator" in dj_.canon.fmt(k[1]) and in_set(v, {0}) for k, v in stt.items())
            vals2 = bool_returns(facts, pred, unsharded_coordinator, drop_state=no_coordinator)
            r.instance("unsharded-coordinator-leaves-the-plan", vals2 == {0},
                       "for a target on the node that served the previous page, when that coordinator has no shard (an unsharded node: every shard the plan proposes means the same node), the filter can "
                       "answer %s: the node stays in the plan a second time, so the original and a speculative or retried execution of the page can run on the same node" % ("true" if vals2 == {1} else "true or false (undecided)"), c.span)
            r.instance("other-nodes-stay-in-the-plan", vals == {1},
                       "for a target on a node that is NOT the previous page's coordinator (Arc::ptr_eq false) the filter over the load-balancing plan can answer %s: the plan of pages 2.. "
                       "loses healthy nodes, so a page whose coordinator fails is retried on the same node and the stream ends with an error" % ("false" if vals == {0} else "true or false (undecided)"), c.span)
    if n == 0:
        raise AnchorLost("fetch_one_page: no filter over the load-balancing plan (Plan::new(..).filter(..)) found")


def r9(ctx, facts):
    """shared with C02 (stated there in full): a page request abandoned in flight must keep its stream id reserved, otherwise its late page is handed to a later page request"""
    r = ctx.rule("R9", "a late page of an abandoned attempt cannot be taken for the answer to a later page request: stream ids are released only when their response arrives", floor=1)
    from ..util import callers_keys
    free = sorted(set(callers_keys(facts, "scylla::network::connection::StreamIdSet::free")))
    r.instance("stream-id-freed-only-by-its-response", free == ["ResponseHandlerMap::lookup"],
               "StreamIdSet::free is called from %s (must be ResponseHandlerMap::lookup only): if abandoning a request frees its id, the next page request reuses it and the late page of the "
               "abandoned attempt is delivered as its answer - rows repeat and the cursor rewinds" % free)
    lb = facts.one(r"^scylla::network::connection::ResponseHandlerMap::lookup$")
    fr = lb.calls_to("StreamIdSet::free")
    r.instance("lookup-frees-unconditionally", bool(fr) and all(lb.dominates(c.bb, x) for c in fr for x in lb.exits),
               "ResponseHandlerMap::lookup must release the stream id of EVERY response it is shown (orphaned or not): the release is the only one there is", fr[0].span if fr else lb.span)


def r10(ctx, facts):
    r = ctx.rule("R10", "every page fetch gets the request's full timeout again: a slow consumer or a long scan cannot use up a budget that started with the first page", floor=1)
    from ..util import field_slice, closure_family
    top = facts.one(r"^scylla::client::pager::PagingExecutor::fetch_one_page::\{closure#0\}$")
    n = 0
    for bb in sorted(top.live_blocks):
        for st in top.stmts(bb):
            if st[0] == "A" and st[2][0] == "agg" and st[2][1][0] == "adt" and st[2][1][1].endswith("RequestExecutionParams") and "request_timeout" in (st[2][1][4] or []):
                n += 1
                op = st[2][2][st[2][1][4].index("request_timeout")]
                seen, cs, bins = field_slice(top, op)
                nms = {(c.decl or c.name or "").split("::")[-1] for c in cs}
                # closures handed to adapters on the way (`.map(|deadline| deadline - now)`) are part of the computation
                for l_, _w in seen:
                    for d_ in top.defs.get(l_, []):
                        if d_[0] == "stmt" and d_[3][0] == "agg" and d_[3][1][0] == "closure":
                            cb_ = facts.body(d_[3][1][1])
                            for fb in (closure_family(facts, cb_) if cb_ is not None else []):
                                nms |= {(c.decl or c.name or "").split("::")[-1] for bb_, c in fb.calls() if bb_ in fb.live_blocks}
                                bins = list(bins) + [st_[2] for bb_ in fb.live_blocks for st_ in fb.stmts(bb_) if st_[0] == "A" and st_[2][0] == "bin" and st_[2][1] in ("Sub", "SubWithOverflow", "Add", "AddWithOverflow")]
                nms = sorted(nms)
                clock = [x for x in nms if x in ("now", "saturating_duration_since", "duration_since", "elapsed", "checked_duration_since", "checked_sub", "saturating_sub")]
                r.instance("page-timeout-is-the-request-timeout", not clock and not bins,
                           "the timeout handed to the execution core for ONE page is computed from a clock / a deadline (%s): the budget is then shared by all pages of the stream, and once it is used up "
                           "every later page fetch times out at once - the rest of the rows is lost although nothing failed" % (clock or [x[1] for x in bins]), top.stmt_span(st))
    if n == 0:
        raise AnchorLost("fetch_one_page: no RequestExecutionParams with a request_timeout found")


def check(ctx):
    facts = inline_view(ctx.facts("default"))
    for fn in (r1, r2, r3, r4, r5, r6, r7, r8, r9, r10):
        try:
            fn(ctx, facts)
        except AnchorLost as ex:
            ctx.rule(fn.__name__.upper() + "x", "anchors of " + fn.__name__).fail("anchor-lost", str(ex))
