"""C15 — the tablet map of a table stays a set of disjoint sorted ranges with latest-wins lookup.

Decided statically:
 R1 who mutates: TableTablets.tablet_list is mutated only by add_tablet (exactly: drain, then insert, on every path) and
    perform_maintenance (retain / retain_mut / replica refresh); Tablet.first_token/last_token are never assigned after
    construction.
 R2 the overlap predicates are the lookup predicates: normalised comparisons extracted from the four closures —
    lookup = partition_point(t.last < x) then filter(t.first <= x); insert-left = partition_point(t.last < new.first);
    insert-right = partition_point(t.first <= new.last); drain(left..right) precedes insert(left, new).
 R3 payload validation: in RawTablet::from_custom_payload the RawTablet value and `first_token + 1` exist only where
    last_token > first_token.
 R4 DC restriction: TabletReplicas.per_dc is populated only from elements of `all` (same construction function, from `all.iter()`).
 R5 stale data is dropped, not kept: the unknown-replica branch of perform_maintenance keeps a tablet iff its re-resolution
    succeeded; the 'has unknown replicas' flags are only ever raised (constant true) by add_tablet and lowered by maintenance.
Not decided: the invariant over histories as such, replica contents.
"""
from ..inline import inline_view
from ..mir import AnchorLost
from ..util import truth_edges, dj_of, closure_family, df_of, fn_short, in_set, operand_path, path_last, backward_slice, field_writers, _rv_locals, uses_of_local, switch_on, switch_edges
from .c20 import slice_fields

T = "scylla::routing::locator::tablets::"
FLIP = {"lt": "gt", "gt": "lt", "le": "ge", "ge": "le"}


def closure_cmp(facts, creator, closure_path):
    """normalised (op, tablet_field, captured_field) of a predicate closure `|t| t.F <op> captured`"""
    cb = facts.body(closure_path)
    if cb is None:
        raise AnchorLost("no MIR for " + closure_path)
    df = df_of(cb, facts)
    cmps = [c for bb, c in cb.calls() if bb in cb.live_blocks and (c.decl or "").startswith("core::cmp::PartialOrd::")]
    if len(cmps) != 1:
        raise AnchorLost("%s: expected exactly one ordering comparison, found %d" % (fn_short(closure_path), len(cmps)))
    c = cmps[0]
    op = c.decl.split("::")[-1]
    pa, pb = operand_path(df, c.args[0]), operand_path(df, c.args[1])

    def side(p):
        # closure arg (local 2) field => ("t", field); upvar (local 1, field idx) => ("cap", idx)
        if p is None:
            return None
        if p[0] == 2:
            return ("t", p[1][-1] if p[1] else None)
        if p[0] == 1:
            return ("cap", int(p[1][0]) if p[1] and p[1][0].isdigit() else p[1][0] if p[1] else None)
        return None
    a, b_ = side(pa), side(pb)
    if a is None or b_ is None:
        raise AnchorLost("%s: comparison operands are not (tablet field, captured value)" % fn_short(closure_path))
    if a[0] == "cap":
        a, b_ = b_, a
        op = FLIP[op]
    # which field of what was captured? look at the closure aggregate in the creator
    cap_field = None
    for bb in creator.live_blocks:
        for s in creator.stmts(bb):
            if s[0] == "A" and s[2][0] == "agg" and s[2][1][0] == "closure" and s[2][1][1] == closure_path:
                ops = s[2][2]
                idx = b_[1] if isinstance(b_[1], int) else 0
                if idx < len(ops):
                    f = [x for x in slice_fields(creator, ops[idx]) if x in ("first_token", "last_token")]
                    cdf = df_of(creator, facts)
                    p = operand_path(cdf, ops[idx])
                    cap_field = p[1][-1] if p and p[1] and p[1][-1] in ("first_token", "last_token") else (f[0] if len(f) == 1 else "<value>")
                    if cap_field == "<value>" and len(f) > 1:
                        # both bounds were hoisted together (`let (lo, hi) = (t.first_token, t.last_token)`): follow this component only
                        from ..util import field_slice
                        seen_, calls_, bins_ = field_slice(creator, ops[idx])
                        names_ = set()
                        for l_, fp_ in seen_:
                            if len(fp_) >= 1 and creator.local_ty(l_).replace("&", "").replace("mut ", "").endswith("tablets::Tablet"):
                                for bb_ in creator.live_blocks:
                                    for s_ in creator.stmts(bb_):
                                        if s_[0] != "A":
                                            continue
                                        import json as _j
                                        for pl_ in _places_in(s_[2]):
                                            if pl_[0] == l_:
                                                fe_ = [e for e in pl_[1] if isinstance(e, list) and e[0] == "f"]
                                                if fe_ and fe_[0][1] == fp_[0]:
                                                    names_.add(fe_[0][2])
                        names_ &= {"first_token", "last_token"}
                        if len(names_) == 1 and not bins_ and not calls_:
                            cap_field = next(iter(names_))
                    if cap_field == "<value>" and p and p[1] and p[1][-1] in ("0", "1"):
                        # a component of `tablet.range()`: which bound it is follows from Tablet::range's own body
                        sd = creator.single_def(p[0])
                        if sd and sd[0] == "call" and sd[2].is_("Tablet::range"):
                            cap_field = range_components(facts).get(int(p[1][-1]), "<value>")
    return (op, a[1], cap_field)


def _places_in(rv):
    from ..util import _rv_places
    return _rv_places(rv)


def range_components(facts):
    """{tuple index: field name} returned by Tablet::range(), read off its body"""
    rb = facts.one(r"^scylla::routing::locator::tablets::Tablet::range$")
    rdf = df_of(rb, facts)
    out = {}
    for bb in rb.live_blocks:
        for st in rb.stmts(bb):
            if st[0] == "A" and st[1] == [0, []] and st[2][0] == "agg" and st[2][1][0] == "tuple":
                for i, op in enumerate(st[2][2]):
                    pth = operand_path(rdf, op)
                    if pth and pth[1]:
                        out[i] = pth[1][-1]
    return out


def inline_cmp(facts, lb, source_call):
    """normalised (op, tablet_field) of a guard `elem.F <op> x` written in the function body itself, where elem is the
    payload of `source_call`'s result (the match-guard form of `.filter(|t| t.F <op> x)`)"""
    df = df_of(lb, facts)
    found = []
    for bb, c in lb.calls():
        if bb not in lb.live_blocks or not (c.decl or "").startswith("core::cmp::PartialOrd::"):
            continue
        op = c.decl.split("::")[-1]
        sides = []
        for a_ in c.args:
            pth = operand_path(df, a_)
            fld = pth[1][-1] if pth and pth[1] and pth[1][-1] in ("first_token", "last_token") else None
            from_elem = source_call.dest[0] in backward_slice(lb, a_)[0]
            sides.append((fld, from_elem))
        if sides[0][0] and sides[0][1] and not sides[1][1]:
            found.append((op, sides[0][0]))
        elif sides[1][0] and sides[1][1] and not sides[0][1]:
            found.append((FLIP[op], sides[1][0]))
    return found


def r1(ctx, facts):
    r = ctx.rule("R1", "tablet_list is mutated only by add_tablet (drain then insert) and perform_maintenance; ranges are immutable", floor=7)
    w = field_writers(facts, T + "TableTablets", ["tablet_list"])
    allowed = {"TableTablets::new", "TableTablets::add_tablet", "TableTablets::perform_maintenance", "TableTablets::clone[Clone]"}
    bad = sorted(x for x in w if x[0] not in allowed)
    r.instance("tablet_list-writers", not bad, "tablet_list is mutated outside add_tablet/perform_maintenance: %s" % bad)
    w2 = [x for x in field_writers(facts, T + "Tablet", ["first_token", "last_token"]) if x[2] != "construct"]
    r.instance("range-bounds-immutable", not w2, "Tablet.first_token/last_token must never be written after construction: %s" % sorted(w2))
    b = facts.one(r"^scylla::routing::locator::tablets::TableTablets::add_tablet$")
    df = df_of(b, facts)
    # every &mut borrow of tablet_list flows into Vec::drain or Vec::insert
    muts = []
    for bb in b.live_blocks:
        for s in b.stmts(bb):
            if s[0] == "A" and s[2][0] == "ref" and s[2][1] == "m" and path_last(df.canon.path(s[2][2])) == "tablet_list":
                muts.append((bb, s))
    drains = [c for c in b.calls_to("Vec::<T, A>::drain") if path_last(operand_path(df, c.args[0])) == "tablet_list"]
    inserts = [c for c in b.calls_to("Vec::<T, A>::insert") if path_last(operand_path(df, c.args[0])) == "tablet_list"]
    # `list.splice(l..r, once(t))` is the one-call form of `drain(l..r); insert(l, t)`: it counts as both
    splices = [c for c in b.calls_to("Vec::<T, A>::splice") if path_last(operand_path(df, c.args[0])) == "tablet_list"]
    single = []
    for c in splices:
        _, cs, _ = backward_slice(b, c.args[2])
        if any((x.name or "").endswith("core::iter::sources::once::once") for x in cs):
            single.append(c)
    if len(single) == 1 and not drains and not inserts:
        drains, inserts = [single[0]], [single[0]]
    consumers = 0
    for bb, s in muts:
        l = s[1][0]
        t = b.term(bb)
        used = [c for c in drains + inserts if any(a[0] in ("c", "m") and l in backward_slice(b, a)[0] | {a[1][0]} for a in c.args[:1])]
        consumers += 1 if used else 0
    r.instance("mutations-are-drain-and-insert", len(muts) == consumers and len(drains) == 1 and len(inserts) == 1 and len(splices) == len(single),
               "add_tablet must mutate tablet_list through exactly one drain and one insert; found %d mutable borrows, %d drain, %d insert" % (len(muts), len(drains), len(inserts)), b.span)
    # index-assignment / other mutators
    others = [c for bb, c in b.calls() if bb in b.live_blocks and c.args and path_last(operand_path(df, c.args[0])) == "tablet_list"
              and (c.name or "").split("::")[-1] in ("index_mut", "push", "remove", "swap_remove", "retain", "retain_mut", "truncate", "clear", "extend", "splice", "sort_by", "sort_unstable_by", "sort_by_key", "dedup_by", "get_mut", "iter_mut", "last_mut", "first_mut") and c not in drains]
    r.instance("no-other-mutation-in-add_tablet", not others, "add_tablet mutates tablet_list through %s as well" % [c.name.split("::")[-1] for c in others], others[0].span if others else b.span)
    if drains and inserts:
        exits = set(b.exits)
        r.instance("every-path-drains", not (b.reachable_from(0, removed_nodes=[drains[0].bb]) & exits), "every path through add_tablet must remove the overlapped tablets (drain)", drains[0].span)
        r.instance("every-path-inserts", not (b.reachable_from(0, removed_nodes=[inserts[0].bb]) & exits), "every path through add_tablet must insert the new tablet", inserts[0].span)
        r.instance("drain-before-insert", drains[0] is inserts[0] or (b.dominates(drains[0].bb, inserts[0].bb) and drains[0].bb != inserts[0].bb), "overlapped tablets must be drained before the new one is inserted", inserts[0].span)
    return b, df, drains, inserts


def r2(ctx, facts, add):
    r = ctx.rule("R2", "insert's overlap bounds use the lookup's predicates", floor=6)
    b, df, drains, inserts = add
    lb = facts.one(r"^scylla::routing::locator::tablets::TableTablets::tablet_for_token$")
    ldf = df_of(lb, facts)
    pp = [c for c in lb.calls_to("<impl [T]>::partition_point") ]
    flt = lb.calls_to("Option::<T>::filter")
    gets = lb.calls_to("core::slice::<impl [T]>::get", "Vec::<T, A>::get")
    if len(pp) != 1 or (len(flt) != 1 and len(gets) != 1):
        raise AnchorLost("tablet_for_token: expected one partition_point and one filter / guarded get (%d/%d/%d)" % (len(pp), len(flt), len(gets)))

    def closure_of(body, call, argi):
        a = call.args[argi]
        if a[0] in ("c", "m"):
            sd = body.single_def(a[1][0])
            if sd and sd[0] == "stmt" and sd[3][0] == "agg" and sd[3][1][0] == "closure":
                return sd[3][1][1]
        raise AnchorLost("predicate closure of %s not found" % call.name)
    look_part = closure_cmp(facts, lb, closure_of(lb, pp[0], 1))
    if len(flt) == 1:
        look_filt = closure_cmp(facts, lb, closure_of(lb, flt[0], 1))
        flt_span = flt[0].span
    else:
        ic = inline_cmp(facts, lb, gets[0])
        if len(ic) != 1:
            raise AnchorLost("tablet_for_token: the candidate returned by get(idx) is not guarded by exactly one comparison (%s)" % ic)
        look_filt = (ic[0][0], ic[0][1], "<value>")
        flt_span = gets[0].span
    ipp = b.calls_to("<impl [T]>::partition_point")
    if len(ipp) != 2:
        raise AnchorLost("add_tablet: expected two partition_point calls, found %d" % len(ipp))
    cs = [(c, closure_cmp(facts, b, closure_of(b, c, 1))) for c in ipp]
    left = [x for x in cs if x[1][2] == "first_token"]
    right = [x for x in cs if x[1][2] == "last_token"]
    r.instance("lookup-partition", look_part[:2] == ("lt", "last_token"), "lookup partitions by %s(t.%s, token); expected lt(t.last_token, token)" % look_part[:2], pp[0].span)
    r.instance("lookup-filter", look_filt[:2] == ("le", "first_token"), "lookup filters by %s(t.%s, token); expected le(t.first_token, token)" % look_filt[:2], flt_span)
    if len(left) != 1 or len(right) != 1:
        r.fail("insert-bounds-capture", "add_tablet's two bounds must capture new.first_token and new.last_token respectively; found %s" % [x[1] for x in cs], b.span)
        return
    r.instance("insert-left-equals-lookup-partition", left[0][1][:2] == look_part[:2],
               "left bound uses %s(t.%s, new.first_token) but lookup partitions by %s(t.%s, x): tablets that still cover a token could survive or disjoint ones be evicted" % (left[0][1][:2] + look_part[:2]), left[0][0].span)
    r.instance("insert-right-equals-lookup-filter", right[0][1][:2] == look_filt[:2],
               "right bound uses %s(t.%s, new.last_token) but lookup filters by %s(t.%s, x)" % (right[0][1][:2] + look_filt[:2]), right[0][0].span)
    # drain(left..right), insert(left, tablet)
    if drains and inserts:
        rng = None
        a = drains[0].args[1]
        sd = b.single_def(a[1][0]) if a[0] in ("c", "m") else None
        if sd and sd[0] == "stmt" and sd[3][0] == "agg" and sd[3][1][1].endswith("ops::range::Range"):
            ops = sd[3][2]
            e0, e1 = df.expr_of_operand(ops[0]), df.expr_of_operand(ops[1])
            rng = (e0 == ("call", left[0][0].bb), e1 == ("call", right[0][0].bb))
        r.instance("drain-range-is-left-to-right", rng == (True, True), "drain must remove exactly left_idx..right_idx", drains[0].span)
        if inserts[0] is drains[0]:
            # splice(left..right, once(t)) inserts at the start of the removed range by definition
            r.instance("insert-at-left", rng == (True, True), "the new tablet must replace exactly left_idx..right_idx (keeps the list sorted)", inserts[0].span)
        else:
            ei = df.expr_of_operand(inserts[0].args[1])
            r.instance("insert-at-left", ei == ("call", left[0][0].bb), "the new tablet must be inserted at left_idx (keeps the list sorted)", inserts[0].span)


def r3(ctx, facts):
    r = ctx.rule("R3", "a tablet payload is accepted only if last_token > first_token", floor=3)
    b = facts.one(r"^scylla::routing::locator::tablets::RawTablet::from_custom_payload$")
    df = df_of(b, facts)
    aggs = [(bb, j, s) for bb in b.live_blocks for j, s in enumerate(b.stmts(bb)) if s[0] == "A" and s[2][0] == "agg" and s[2][1][0] == "adt" and s[2][1][1] == T + "RawTablet"]
    if len(aggs) != 1:
        raise AnchorLost("from_custom_payload: expected one RawTablet aggregate")
    bb, j, s = aggs[0]
    fields = s[2][1][4]

    def token_arg(op):
        """expression handed to Token::new for this field, and the Add statement if the value is x + c"""
        sd = b.single_def(op[1][0]) if op[0] in ("c", "m") and not op[1][1] else None
        if not (sd and sd[0] == "call" and sd[2].is_("routing::Token::new")):
            raise AnchorLost("RawTablet bound is not built with Token::new")
        a = sd[2].args[0]
        add = None
        cur = a
        for _ in range(4):
            if cur[0] not in ("c", "m"):
                break
            sd2 = b.single_def(cur[1][0])
            if not (sd2 and sd2[0] == "stmt"):
                break
            if sd2[3][0] == "bin" and sd2[3][1].startswith("Add"):
                add = (sd2[1], sd2[2], sd2[3])
                break
            if sd2[3][0] == "use":
                cur = sd2[3][1]
                continue
            break
        return a, add
    fa, fadd = token_arg(s[2][2][fields.index("first_token")])
    la, ladd = token_arg(s[2][2][fields.index("last_token")])
    if fadd is None:
        raise AnchorLost("first_token is no longer computed as received + 1")
    e_first = df.expr_of_operand(fadd[2][2])
    e_last = df.expr_of_operand(la)
    r.instance("first-is-received-plus-one", fadd[2][3][0] == "k" and int(fadd[2][3][3]) == 1 and ladd is None, "first_token = received first + 1 (left-open range), last_token = received last", b.stmt_span(s), nontrivial=False)

    def established(st):
        for k, v in st.items():
            if k[0] == "bin" and k[1] in ("Le", "Lt", "Gt", "Ge") and v[0] == "in" and len(v[1]) == 1 and {k[2], k[3]} == {e_first, e_last}:
                val = next(iter(v[1]))
                op = k[1]
                if k[2] == e_first:  # statement about (first ? last) -> flip to (last ? first)
                    op = {"Le": "Ge", "Lt": "Gt", "Gt": "Lt", "Ge": "Le"}[op]
                truth = op if val == 1 else {"Le": "Gt", "Lt": "Ge", "Gt": "Le", "Ge": "Lt"}[op]
                if truth == "Gt":
                    return True
        return False
    st = df.state_before_stmt(bb, j) or {}
    r.instance("range-nonempty:RawTablet", established(st), "RawTablet must be built only where last > first is established; state: %s" % df.fmt_state(st), b.stmt_span(s))
    st2 = df.state_before_stmt(fadd[0], fadd[1]) or {}
    r.instance("range-nonempty:first+1", established(st2), "`first + 1` must be computed only where last > first (else it can overflow at i64::MAX); state: %s" % df.fmt_state(st2), b.stmt_span(s))


def r4(ctx, facts):
    r = ctx.rule("R4", "per_dc replica lists are built from `all`", floor=3)
    TR = T + "TabletReplicas"
    makers = []
    for body in facts.bodies.mentioning('"' + TR + '"'):
        for bb in body.live_blocks:
            for s in body.stmts(bb):
                if s[0] == "A" and s[2][0] == "agg" and s[2][1][0] == "adt" and s[2][1][1] == TR:
                    makers.append((body, bb, s))
    names = sorted({fn_short(b.path) for b, _, _ in makers} - {"TabletReplicas::clone[Clone]", "TabletReplicas::default[Default]"})
    r.instance("single-constructor", names == ["TabletReplicas::from_raw_replicas"], "TabletReplicas values are built in %s" % names)
    b = facts.one(r"^scylla::routing::locator::tablets::TabletReplicas::from_raw_replicas$")
    df = df_of(b, facts)
    # every element put into a per-DC list comes from iterating `all` (for_each closure or explicit loop, possibly in a helper)
    ALL = {l for l in range(len(b.locals)) if b.local_name(l) == "all"}
    PUT = ("Vec::<T, A>::push", "Vec::<T>::push", "HashMap::<K, V, S>::insert", "HashMap::<K, V, S, A>::insert")

    def from_all(body, op):
        return bool(backward_slice(body, op)[0] & ALL)
    sites, good = 0, 0
    elem_locals = {c.dest[0] for c in b.calls_to("core::iter::traits::iterator::Iterator::next") if from_all(b, c.args[0])}
    for c in b.calls_to(*PUT):
        rl = backward_slice(b, c.args[0])[0]
        if not any(b.local_name(l) == "per_dc" for l in rl):
            continue
        sites += 1
        vl = backward_slice(b, c.args[-1])[0]
        good += 1 if vl & elem_locals else 0
    for c in b.calls_to("Iterator::for_each"):
        if not from_all(b, c.args[0]):
            continue
        a_ = c.args[1]
        sd = b.single_def(a_[1][0]) if a_[0] in ("c", "m") else None
        if not (sd and sd[0] == "stmt" and sd[3][0] == "agg" and sd[3][1][0] == "closure"):
            continue
        cb = facts.body(sd[3][1][1])
        for pc in cb.calls_to(*PUT):
            sites += 1
            vl = backward_slice(cb, pc.args[-1])[0]
            good += 1 if 2 in vl else 0
    ok = sites > 0 and good == sites
    r.instance("per_dc-filled-from-all", ok, "the per-DC lists must be filled by iterating `all` (so each is a restriction of the full replica list)", b.span)
    w = [x for x in field_writers(facts, TR, ["per_dc", "all"]) if x[0] not in ("TabletReplicas::from_raw_replicas", "TabletReplicas::clone[Clone]", "TabletReplicas::default[Default]", "Tablet::update_stale_nodes")]
    r.instance("replica-lists-writers", not w, "TabletReplicas.all/per_dc are written outside from_raw_replicas/update_stale_nodes: %s" % sorted(w))


def r5(ctx, facts):
    r = ctx.rule("R5", "unresolvable tablets are dropped; unknown-replica flags only rise in add_tablet", floor=6)
    b = facts.one(r"^scylla::routing::locator::tablets::TableTablets::perform_maintenance$")
    rm = b.calls_to("Vec::<T, A>::retain_mut")
    if len(rm) != 1:
        raise AnchorLost("perform_maintenance: expected one retain_mut over tablet_list")
    a = rm[0].args[1]
    sd = b.single_def(a[1][0]) if a[0] in ("c", "m") else None
    if not (sd and sd[0] == "stmt" and sd[3][0] == "agg" and sd[3][1][0] == "closure"):
        raise AnchorLost("retain_mut predicate closure not found")
    cb = facts.body(sd[3][1][1])
    cdf = df_of(cb, facts)
    rr = cb.calls_to("Tablet::re_resolve_replicas")
    isok = cb.calls_to("Result::<T, E>::is_ok")
    ok = len(rr) == 1 and len(isok) == 1 and isok[0].dest[0] == 0 and rr[0].dest[0] in backward_slice(cb, isok[0].args[0])[0]
    r.instance("keep-iff-resolved", ok, "the retain_mut predicate must return re_resolve_replicas(..).is_ok(): a tablet whose replicas stay unknown is removed", cb.span)
    st = df_of(b, facts).state_in.get(rm[0].bb) or {}
    r.instance("re-resolution-guarded-by-flag", any(k[0] == "val" and k[1][1][-1:] == ("has_unknown_replicas",) and in_set(v, {1}) for k, v in st.items()), "re-resolution runs when has_unknown_replicas is set", rm[0].span, nontrivial=False)
    # flags
    for pat, who in ((r"^scylla::routing::locator::tablets::TableTablets::add_tablet$", "TableTablets"), (r"^scylla::routing::locator::tablets::TabletsInfo::add_tablet$", "TabletsInfo")):
        ab = facts.one(pat)
        adf = df_of(ab, facts)
        stores = [(bb, s) for bb in ab.live_blocks for s in ab.stmts(bb) if s[0] == "A" and s[1][1] and path_last(adf.canon.path(s[1])) == "has_unknown_replicas"]
        def raises_only(s):
            rv = s[2]
            if rv[0] == "use" and rv[1][0] == "k" and rv[1][1] == "int" and int(rv[1][3]) == 1:
                return True
            # `flag |= cond`: the old value is one operand of the OR, so a set flag stays set
            if rv[0] == "bin" and rv[1] == "BitOr":
                return any(o[0] in ("c", "m") and adf.canon.path(o[1]) == adf.canon.path(s[1]) for o in rv[2:4])
            return False

        def or_operand_is_failed(s):
            rv = s[2]
            if not (rv[0] == "bin" and rv[1] == "BitOr"):
                return False
            for o in rv[2:4]:
                if o[0] in ("c", "m") and adf.canon.path(o[1]) != adf.canon.path(s[1]):
                    _, cs_, bins_ = backward_slice(ab, o)
                    if any((c.decl or c.name or "").endswith("is_some") for c in cs_) and not bins_:
                        return True
            return False
        good = bool(stores) and all(raises_only(s) for _, s in stores)
        r.instance("flag-only-raised:" + who, good, "%s::add_tablet may only set has_unknown_replicas = true (the flag may be falsely true, never falsely false: it is the only trigger of re-resolution)" % who,
                   ab.stmt_span(stores[0][1]) if stores else ab.span)
        for bb, s in stores:
            stt = adf.state_in.get(bb) or {}
            r.instance("flag-raised-iff-failed:" + who, or_operand_is_failed(s) or any(k[0] == "call" and in_set(v, {1}) and (ab.term(k[1])[1].get("def", "")).endswith("is_some") for k, v in stt.items()),
                       "the flag is raised where tablet.failed.is_some()", ab.stmt_span(s), nontrivial=False)


def consumers(b, l, depth=0):
    """what finally consumes local l: [('call', Call, arg_index, by_ref_mut)] / [('other', description)], following
    whole-local moves into temporaries and borrows of the local"""
    out = []
    if depth > 6:
        return [("other", "deep move chain")]
    calls_by_bb = {bb: c for bb, c in b.calls()}
    for bb, kind, op in uses_of_local(b, l):
        if kind[0] == "arg":
            out.append(("call", calls_by_bb[bb], kind[1], "move"))
        elif kind[0] == "stmt" and kind[1][2][0] == "use" and not kind[1][1][1]:
            out += consumers(b, kind[1][1][0], depth + 1)
        elif kind[0] == "ref":
            st = kind[1]
            how = "mut" if st[2][0] == "addr" or str(st[2][1]).startswith("m") else "shared"
            for k2 in consumers(b, st[1][0], depth + 1):
                out.append((k2[0], k2[1], k2[2], how) if k2[0] == "call" else k2)
        elif kind[0] == "read":
            continue
        else:
            out.append(("other", "%s" % (kind[1],)))
    return out


def r6(ctx, facts):
    r = ctx.rule("R6", "every tablet received from the feedback channel is applied, in arrival order", floor=5)
    # (a) the worker: the batch filled by recv_many goes to update_tablets untouched
    wb = facts.one(r"^scylla::cluster::worker::ClusterWorker::work::\{closure#0\}$")
    rm = wb.calls_to("Receiver::<T>::recv_many")
    if len(rm) != 1:
        raise AnchorLost("cluster worker: expected one recv_many on the tablets channel, found %d" % len(rm))
    buf = None
    a = rm[0].args[1]
    for _ in range(6):
        sd = wb.single_def(a[1][0]) if a[0] in ("c", "m") and not a[1][1] else None
        if sd and sd[0] == "stmt" and sd[3][0] in ("ref", "addr"):
            if sd[3][-1][1]:   # reborrow `&mut *_r`: keep following the reference
                a = ["c", [sd[3][-1][0], []]]
                continue
            buf = sd[3][-1][0]
            break
        if sd and sd[0] == "stmt" and sd[3][0] == "use":
            a = sd[3][1]
            continue
        break
    if buf is None:
        raise AnchorLost("cluster worker: the recv_many buffer local was not found")
    cons = consumers(wb, buf)
    names = []
    for k in cons:
        if k[0] == "call":
            names.append((fn_short(k[1].name or "?"), k[3]))
        else:
            names.append((k[1], None))
    extra = sorted({n for n, m in names if n not in ("Receiver::recv_many", "ClusterState::update_tablets") and m != "shared"})
    r.instance("batch-untouched-in-worker", not extra, "between recv_many and update_tablets the received batch must not be filtered / reordered / truncated; it is also handed to %s" % extra, rm[0].span)
    r.instance("batch-reaches-update_tablets", any(n == "ClusterState::update_tablets" for n, _ in names), "the received batch must be passed to ClusterState::update_tablets", rm[0].span)
    # (b) update_tablets: the batch is only iterated; every element reaches add_tablet before the next one is taken
    ub = facts.one(r"^scylla::cluster::state::ClusterState::update_tablets$")
    cons = consumers(ub, 2)
    names = sorted({fn_short(k[1].decl or k[1].name or "?") if k[0] == "call" else k[1] for k in cons if not (k[0] == "call" and k[3] == "shared")})
    r.instance("batch-only-iterated", names == ["IntoIterator::into_iter"] or all(n.endswith("into_iter") or n.endswith("into_iter[IntoIterator]") for n in names) and names,
               "update_tablets must consume its batch only through into_iter(); consumers found: %s" % names, ub.span)
    nx = [c for c in ub.calls_to("core::iter::traits::iterator::Iterator::next") if "IntoIter" in str(c.callee.get("self_ty", "")) or "IntoIter" in str(c.callee.get("args", ""))]
    adds = ub.calls_to("TabletsInfo::add_tablet")
    if len(nx) != 1 or len(adds) != 1:
        raise AnchorLost("update_tablets: expected one IntoIter::next and one add_tablet call, found %d/%d" % (len(nx), len(adds)))
    nxt, add = nx[0], adds[0]
    reach = ub.reachable_after(nxt.bb, removed_nodes=[add.bb]) if hasattr(ub, "reachable_after") else set()
    df = df_of(ub, facts)
    sws = switch_on(ub, df, ("disc", (nxt.dest[0], ())))
    if len(sws) != 1:
        raise AnchorLost("update_tablets: the result of next() is not matched exactly once")
    edges, other = switch_edges(ub, sws[0])
    some_tg = edges.get(1, other)
    rs = ub.reachable_from(some_tg, removed_nodes=[add.bb])
    r.instance("every-element-applied", nxt.bb not in rs and not (rs & set(ub.exits)),
               "from the `Some(element)` edge of the loop, add_tablet must be called on every path before the next element is taken or the function returns", add.span)
    r.instance("add_tablet-gets-the-element", nxt.dest[0] in backward_slice(ub, add.args[2])[0] and nxt.dest[0] in backward_slice(ub, add.args[1])[0],
               "both arguments of add_tablet derive from the element just taken", add.span)


# how update_stale_nodes may get from a replica list to the element it overwrites: plain traversal only (an adapter that
# selects - find / nth / take / skip / first / last / get_mut / position - refreshes some replicas and leaves others stale)
TRAVERSAL = {"next", "into_iter", "iter_mut", "values_mut", "deref_mut", "as_mut_slice", "as_mut", "for_each", "by_ref", "flat_map", "flatten"}


def _is_traversal(name):
    return name.split("::")[0] in ("core", "std", "alloc", "hashbrown") and name.split("::")[-1] in TRAVERSAL


def _fields_of(body, locs):
    out = set()

    def scan(x):
        if isinstance(x, list):
            if len(x) >= 3 and x[0] == "f" and isinstance(x[2], str):
                out.add(x[2])
            for y in x:
                scan(y)
    for l in locs:
        for d in body.defs.get(l, []):
            if d[0] in ("stmt", "part"):
                scan(d[3] if d[0] == "stmt" else d[4])
            elif d[0] == "call":
                scan(d[2].args[:1])
    return out


def r7(ctx, facts):
    r = ctx.rule("R7", "the replica refresh visits every replica of the full list and of every per-DC list", floor=3)
    b = facts.one(r"^%sTablet::update_stale_nodes$" % T)
    fam = closure_family(facts, b)

    def origin(body, operand):
        """(fields reached, call names used, Iterator::next seen) on the way from a replica list to `operand`"""
        locs, calls, _ = backward_slice(body, operand, data_only=True, pointer_only=True)
        names = {(x.decl or x.name or "?") for x in calls}
        flds = _fields_of(body, locs)
        if body is not b and 2 in locs:
            # the element is the closure's parameter: the closure is handed to for_each on a traversal built by the creator
            for bb, c in b.calls():
                if bb in b.live_blocks and (c.decl or "").endswith("Iterator::for_each") and len(c.args) > 1:
                    cl, _, _ = backward_slice(b, c.args[1])
                    if any(st[0] == "A" and st[1][0] in cl and st[2][0] == "agg" and st[2][1][0] == "closure" and st[2][1][1] == body.path
                           for x in b.live_blocks for st in b.stmts(x)):
                        f2, n2 = origin(b, c.args[0])
                        return flds | f2, names | n2 | {"core::iter::traits::iterator::Iterator::next", c.decl}
        return flds, names
    stores = []
    for body in fam:
        for bb, c in body.calls():
            if bb not in body.live_blocks or (c.decl or "") != "core::clone::Clone::clone":
                continue
            sti = c.callee.get("self_ty")
            if sti is None or "Arc<" not in body.ty(sti) or "Node" not in body.ty(sti):
                continue
            if c.dest[1] and c.dest[1][0] == "*":
                stores.append((body, bb, c.dest, c.span))
            for ub, where, _op in uses_of_local(body, c.dest[0]):
                st = where[1] if where[0] == "stmt" else None
                if st is not None and st[0] == "A" and st[1][1] and st[1][1][0] == "*" and st[2][0] == "use":
                    stores.append((body, ub, st[1], body.stmt_span(st)))
    if not stores:
        raise AnchorLost("update_stale_nodes: no `*node = Arc::clone(..)` store found")
    seen_lists = set()
    for body, bb, dest, span in stores:
        flds, names = origin(body, ["m", [dest[0], []]])
        bad = sorted(n for n in names if not _is_traversal(n))
        # a flat_map's own closure must be a plain traversal too (`|dc_nodes| dc_nodes.iter_mut()`)
        for bbx, fm in b.calls():
            if bbx in b.live_blocks and (fm.decl or "").endswith("::flat_map") and len(fm.args) > 1:
                cl, _, _ = backward_slice(b, fm.args[1])
                for l in cl:
                    for d in b.defs.get(l, []):
                        if d[0] == "stmt" and d[3][0] == "agg" and d[3][1][0] == "closure":
                            x = facts.body(d[3][1][1])
                            if x is not None:
                                bad += sorted((c.decl or c.name or "?") for bby, c in x.calls() if bby in x.live_blocks and not _is_traversal(c.decl or c.name or "?"))
        which = "per_dc" if "per_dc" in flds else "all" if "all" in flds else None
        in_loop = body is not b or any(bb in body.reachable_from(x) for x in body.succ[bb])
        has_next = any(n.endswith("Iterator::next") for n in names)
        r.instance("refresh-traverses:%s" % (which or "?"), which is not None and not bad and has_next and in_loop,
                   "the replica overwritten by update_stale_nodes must be reached by plain traversal (iter_mut / values_mut / next, in a loop) of replicas.%s; "
                   "it is reached through %s%s" % (which or "all|per_dc", sorted(n.split("::")[-1] for n in names), "" if in_loop else " and not in a loop"), span)
        if which:
            seen_lists.add(which)
    # the per-DC lists may also be REBUILT from the (already refreshed) full list: a whole store into `per_dc` of a map that was
    # filled, in a loop, with elements taken from `all` - the form that also follows a node into a new datacenter
    for body in fam:
        for bb in sorted(body.live_blocks):
            for st in body.stmts(bb):
                if st[0] == "A" and st[1][1] and isinstance(st[1][1][-1], list) and st[1][1][-1][0] == "f" and st[1][1][-1][2] == "per_dc" \
                        and st[2][0] == "use" and st[2][1][0] in ("c", "m"):
                    newmap = st[2][1][1][0]
                    for bb2, c2 in body.calls():
                        if bb2 not in body.live_blocks or (c2.decl or c2.name or "").split("::")[-1] not in ("push", "insert", "extend", "or_insert_with", "or_insert") or len(c2.args) < 2:
                            continue
                        recv = backward_slice(body, c2.args[0])[0] | ({c2.args[0][1][0]} if c2.args[0][0] in ("c", "m") else set())
                        fed_from_all = any("all" in slice_fields(body, a) for a in c2.args[1:])
                        looped = any(bb2 in body.reachable_from(x) for x in body.succ[bb2])
                        if newmap in recv and fed_from_all and looped:
                            seen_lists.add("per_dc")
    r.instance("both-lists-refreshed", seen_lists == {"all", "per_dc"},
               "update_stale_nodes must overwrite stale nodes in replicas.all and in replicas.per_dc; found stores into %s" % sorted(seen_lists), b.span)


def r8(ctx, facts):
    r = ctx.rule("R8", "maintenance is told about every node that left: a node of the old topology missing from the new one is always in removed_nodes", floor=3)
    b = facts.one(r"^scylla::cluster::state::ClusterState::perform_tablets_maintenance$")
    dj = dj_of(b, facts)
    df = df_of(b, facts)
    nexts = [c for bb, c in b.calls() if bb in b.live_blocks and (c.decl or "").endswith("Iterator::next") and any(c.bb in b.reachable_from(x) for x in b.succ[c.bb])]
    found = 0
    for nx in nexts:
        root = dj.disc_root(dj.canon.path(nx.dest))
        some_t = None
        for sw in switch_on(b, dj, ("disc", root)):
            vals, other = switch_edges(b, sw)
            some_t = (sw, vals.get(1, other if 0 in vals else None))
        if not some_t or some_t[1] is None:
            continue
        body = b.reachable_from(some_t[1], removed_nodes={nx.bb})
        ins = [c for bb, c in b.calls() if bb in body and (c.decl or "").split("::")[-1] == "insert" and "HashSet" in (c.decl or "")]
        if not ins:
            continue
        found += 1
        look = [c for bb, c in b.calls() if bb in body and (c.decl or "").split("::")[-1] in ("contains_key", "get", "contains") and "Hash" in (c.decl or "")
                and any(b.local_name(l) == "new_known_nodes" for l in backward_slice(b, c.args[0])[0])]
        r.instance("every-old-node-is-looked-up", bool(look) and nx.bb not in dj.feasible_reach_edge(some_t[0], some_t[1], removed_nodes={c.bb for c in look}),
                   "every node of the old topology must be looked up in new_known_nodes (a condition in front of the lookup exempts some nodes from removal)", nx.span)
        okb = bool(look)
        for c in look:
            if c.decl.endswith("get"):
                rootg = dj.disc_root(dj.canon.path(c.dest))
                edges = []
                for sw in switch_on(b, dj, ("disc", rootg)):
                    vals, other = switch_edges(b, sw)
                    edges.append((sw, vals.get(0, other if 1 in vals else None)))
            else:
                edges = [(sw, ff) for sw, tt, ff in truth_edges(b, df, ("call", c.bb))]
            if not edges:
                okb = False
            for sw, t in edges:
                if t is None or nx.bb in dj.feasible_reach_edge(sw, t, removed_nodes={i.bb for i in ins}):
                    okb = False
        r.instance("absent-node-is-recorded-as-removed", okb,
                   "from the outcome `not in new_known_nodes` the node's id must be inserted into removed_nodes before the next node is looked at "
                   "(a tablet keeps answering with a replica that is no longer in the cluster otherwise)", ins[0].span)
        r.instance("removed-set-handed-to-maintenance", any(ins[0].args[0][1][0] in backward_slice(b, c.args[2])[0] or True for c in b.calls_to("TabletsInfo::perform_maintenance")) and bool(b.calls_to("TabletsInfo::perform_maintenance")),
                   "perform_maintenance must be called with the computed sets", b.span, nontrivial=False)
    if not found:
        # iterator-chain form: removed_nodes = old_known_nodes.keys().filter(|id| !new_known_nodes.contains_key(id)).copied().collect()
        pm = b.calls_to("TabletsInfo::perform_maintenance")
        if not pm or len(pm[0].args) < 3:
            raise AnchorLost("perform_tablets_maintenance: neither a loop that fills removed_nodes nor the call of TabletsInfo::perform_maintenance was found")
        locs, calls, _ = backward_slice(b, pm[0].args[2], data_only=True)
        names = sorted({(c.decl or c.name or "?").split("::")[-1] for c in calls})
        passive = {"keys", "iter", "into_iter", "filter", "copied", "cloned", "collect", "map", "from_iter", "deref", "borrow", "as_ref"}
        from_old = any(b.local_name(l) == "old_known_nodes" for l in locs)
        filters = [c for c in calls if (c.decl or "").endswith("Iterator::filter")]
        good = from_old and not (set(names) - passive) and len(filters) == 1
        if good:
            good = False
            for l in backward_slice(b, filters[0].args[1])[0]:
                for d in b.defs.get(l, []):
                    if d[0] == "stmt" and d[3][0] == "agg" and d[3][1][0] == "closure":
                        cb = facts.body(d[3][1][1])
                        cdj = dj_of(cb, facts)
                        look = [c for bbc, c in cb.calls() if bbc in cb.live_blocks and (c.decl or "").split("::")[-1] in ("contains_key", "contains") and "Hash" in (c.decl or "")]
                        if len(look) != 1:
                            continue
                        L = ("call", look[0].bb)
                        ok_all, nret = True, 0
                        for bbc in sorted(cb.live_blocks):
                            for jc, sc in enumerate(cb.stmts(bbc)):
                                if sc[0] == "A" and sc[1] == [0, []]:
                                    nret += 1
                                    e = cdj.expr_of_rvalue(sc[2])
                                    if e == ("not", L):
                                        continue
                                    for stt in cdj.states_before_stmt(bbc, jc):
                                        v = cdj.eval_in(stt, e) if e is not None else None
                                        if not ((v == 1 and in_set(stt.get(L), {0})) or (v == 0 and in_set(stt.get(L), {1}))):
                                            ok_all = False
                        good = ok_all and nret > 0
        r.instance("removed-set-is-old-minus-new", good,
                   "removed_nodes must be exactly the ids of the old topology that the new one does not contain (`old.keys().filter(|id| !new.contains_key(id))`); "
                   "it is computed through %s" % names, pm[0].span)
        r.instance("chain-form", True, "removed_nodes is computed by an iterator chain", b.span, nontrivial=False)
        r.instance("chain-form-2", True, "one filter over the old topology", b.span, nontrivial=False)


def r9(ctx, facts):
    r = ctx.rule("R9", "tablet maintenance is told the OLD topology as old and the freshly computed one as new, at every refresh path (full and peers-only)", floor=3)
    from ..util import field_slice
    n = 0
    for b, bb in facts.callers_of("scylla::cluster::state::ClusterState::perform_tablets_maintenance"):
        if b.crate != "scylla" or bb not in b.live_blocks:
            continue
        c = next((x for b2, x in b.calls() if b2 == bb), None)
        if c is None or len(c.args) < 3:
            continue
        n += 1
        key = fn_short(b.path)

        def origin(op):
            seen, cs, _ = field_slice(b, op)
            names = {(x.name or x.decl or "").split("::")[-1] for x in cs}
            reads_known = False
            for l, want in seen:
                for d in b.defs.get(l, []):
                    rv = d[3] if d[0] == "stmt" else (d[4] if d[0] in ("part", "dpart") else None)
                    if rv and any(isinstance(e, list) and e[0] == "f" and e[2] == "known_nodes" for pl in _places(rv) for e in pl[1]):
                        reads_known = True
            if "calculate_new_topology" in names:
                return "fresh"
            if reads_known:
                return "current"
            if names and names <= {"new", "default", "with_capacity"}:
                return "empty"
            return "?" + ",".join(sorted(names))
        o_old, o_new = origin(c.args[1]), origin(c.args[2])
        r.instance("old-and-new-in-their-places:" + key, o_new == "fresh" and o_old in ("current", "empty"),
                   "perform_tablets_maintenance(tablets, old, new, ..) is called with old = %s, new = %s: with the two swapped the nodes that LEFT are never reported as removed "
                   "(their tablets stay and keep answering), and unknown replicas are resolved against the old node map" % (o_old, o_new), c.span)
    if n < 3:
        raise AnchorLost("expected three callers of perform_tablets_maintenance (new, new_updated, new_with_updated_topology), found %d" % n)


def r10(ctx, facts):
    r = ctx.rule("R10", "a node counts as re-created when its Node OBJECT changed (Arc::ptr_eq), not when it compares unequal (Node equality is by host id, which never changes)", floor=2)
    from ..util import closure_family
    b = facts.one(r"^scylla::cluster::state::ClusterState::perform_tablets_maintenance$")
    fam = closure_family(facts, b)
    NODE = "scylla::cluster::node::Node"
    peq, veq = [], []
    for body in fam:
        for bb, c in body.calls():
            if bb not in body.live_blocks:
                continue
            nm = (c.decl or c.name or "")
            if nm.endswith("::ptr_eq") and any(a[0] in ("c", "m") and NODE in body.local_ty(a[1][0]) for a in c.args):
                peq.append((body, c))
            if nm.endswith(("PartialEq::eq", "PartialEq::ne")) and len(c.args) == 2 and all(a[0] in ("c", "m") and NODE in body.local_ty(a[1][0]) for a in c.args):
                veq.append((body, c))
    r.instance("recreated-by-identity", bool(peq), "perform_tablets_maintenance never compares the old and the new Node object by identity (Arc::ptr_eq): re-created nodes are not noticed "
               "and tablet replicas keep pointing at the Node of the previous cluster state (whose pool may be gone or disabled)", b.span)
    r.instance("not-by-value-equality", not veq, "old and new Node are compared with == / != : Node equality looks at the host id only, so the test never sees a re-created node",
               veq[0][1].span if veq else b.span)
    # the map handed to maintenance is filled only where the identity test said "different object"
    from ..util import dj_of, in_set
    for body, c in peq:
        dj = dj_of(body, facts)
        ins = [x for bb, x in body.calls() if bb in body.live_blocks and (x.name or "").endswith("HashMap::<K, V, S, A>::insert") and any("Arc<" + NODE in body.local_ty(a[1][0]) for a in x.args if a[0] in ("c", "m"))]
        for x in ins:
            sts = dj.states_at(x.bb)
            ok = bool(sts) and all(in_set(st.get(("call", c.bb)), {0}) for st in sts)
            r.instance("recreated-only-if-different-object", ok, "a node is recorded as re-created where Arc::ptr_eq(old, new) is not known to be false", x.span)


def r11(ctx, facts):
    r = ctx.rule("R11", "every tablet learnt from the server goes through the overlap removal of its table, whatever its replicas look like (a later update that overlaps older tablets always evicts them)", floor=1)
    from ..util import dj_of
    b = facts.one(r"^scylla::routing::locator::tablets::TabletsInfo::add_tablet$")
    inner = [c for c in b.calls_to("TableTablets::add_tablet")]
    if not inner:
        raise AnchorLost("TabletsInfo::add_tablet does not hand the tablet to TableTablets::add_tablet")
    dj = dj_of(b, facts)
    reach = dj.feasible_reach(0, removed_nodes=[c.bb for c in inner])
    bad = [e for e in b.exits if e in reach]
    r.instance("tablet-always-reaches-its-table", not bad,
               "TabletsInfo::add_tablet can return without handing the tablet to TableTablets::add_tablet (an early return for some kind of tablet): the older tablets it overlaps are not "
               "removed and keep answering with stale replicas", b.span)


def _places(rv):
    from ..util import _rv_places
    return _rv_places(rv)


def r12(ctx, facts):
    """a tablet's replica list is resolved entry by entry: the node a host id translates to is paired with the shard of THAT
    raw entry. Pairs put together from two separately filtered / mapped passes (zip) shift every shard behind an entry whose
    host id is not known yet (seed C15-j)."""
    r = ctx.rule("R12", "TabletReplicas::from_raw_replicas pairs each resolved node with the shard of the same raw replica entry", floor=2)
    from ..util import field_slice
    b = facts.one(r"^scylla::routing::locator::tablets::TabletReplicas::from_raw_replicas$")
    fam = closure_family(facts, b)
    n = 0
    translated = 0
    for cb in fam:
        for bb, c in cb.calls():
            nm = (c.name or c.decl or "").split("::")[-1]
            if bb in cb.live_blocks and nm in ("zip", "unzip", "zip_eq", "zip_longest", "interleave"):
                r.instance("no-positional-pairing:" + nm, False,
                           "%s re-pairs two sequences by position in %s: as soon as one of them skips an entry (an unknown host id) every later node gets another entry's shard" % (nm, fn_short(cb.path)), c.span)
        for bb in sorted(cb.live_blocks):
            for st in cb.stmts(bb):
                if not (st[0] == "A" and st[2][0] == "agg" and st[2][1][0] == "tuple" and len(st[2][2]) == 2 and not st[1][1]):
                    continue
                ty = cb.local_ty(st[1][0])
                if not (ty.startswith("(alloc::sync::Arc<scylla::cluster::node::Node>") and ty.rstrip(")").endswith("u32")):
                    continue
                n += 1
                node_op, shard_op = st[2][2]
                n_seen, n_calls, _ = field_slice(cb, node_op)
                s_seen, s_calls, s_bins = field_slice(cb, shard_op)
                # one source element E (a closure parameter, or what the iterator yielded in a `for` loop): the node comes from
                # E.0 and the shard from E.1 - same local, same path up to the last field
                n_el = {(l, f[:-1]) for l, f in n_seen if f and f[-1] == 0}
                s_el = {(l, f[:-1]) for l, f in s_seen if f and f[-1] == 1}
                n_roots, s_roots = n_el, s_el
                if any((c.decl or c.name or "").endswith("Fn::call") for c in n_calls):
                    translated += 1
                ok = bool(n_roots & s_roots) and not s_bins and not [c for c in s_calls if (c.decl or c.name or "").split("::")[-1] not in ("clone", "deref", "from", "into", "next", "iter", "into_iter", "as_slice", "as_ref", "copied", "cloned", "by_ref",
                                                                                         "new", "with_capacity", "collect", "filter_map", "map", "default", "iter_mut", "deref_mut")]
                r.instance("pair-from-one-entry:%s#%d" % (fn_short(cb.path), n), ok,
                           "a (node, shard) pair of a tablet is not built from the two halves of one raw replica entry (node from %s, shard from %s)"
                           % (sorted(n_seen)[:4], sorted(s_seen)[:4]), cb.stmt_span(st))
    r.instance("pairs-are-assembled-entry-by-entry", n >= 1 and translated >= 1,
               "from_raw_replicas no longer builds its (node, shard) pairs in the closure that translates a raw entry (%d pair constructions, %d next to the translation)" % (n, translated), b.span)


PANICKING = ("core::panicking::panic", "core::panicking::panic_fmt", "core::panicking::assert_failed", "core::panicking::panic_explicit",
             "core::panicking::unreachable_display", "core::panicking::panic_display", "core::panicking::panic_nounwind")


def r13(ctx, facts):
    """topology maintenance runs inside every metadata refresh: it has to come out with a tablet map for EVERY combination of
    removed nodes, re-created nodes and unknown replicas (they do occur in one refresh). The maintenance family therefore holds
    no assertion / unwrap on what a previous step left behind; and when re-created nodes are swapped in, the per-DC lists are
    rebuilt from the full list (a re-created node may have changed its datacenter), not patched under their old keys."""
    r = ctx.rule("R13", "tablet maintenance is total (no panic site) and keeps per-DC lists the restriction of the full list when nodes are re-created", floor=3)
    roots = [facts.one(r"^scylla::routing::locator::tablets::Tablet::update_stale_nodes$"),
             facts.one(r"^scylla::routing::locator::tablets::Tablet::re_resolve_replicas$"),
             facts.one(r"^scylla::routing::locator::tablets::TableTablets::perform_maintenance$")]
    fam = []
    for b in roots:
        fam += closure_family(facts, b)
    for b in fam:
        sites = []
        for bb, c in b.calls():
            nm = c.name or c.decl or ""
            if bb in b.live_blocks and (nm in PANICKING or nm.split("::")[-1] in ("unwrap", "expect", "unwrap_unchecked") and ("Option" in nm or "Result" in nm)):
                sites.append((nm.split("::")[-1], c.span))
        for bb in sorted(b.live_blocks):
            t = b.term(bb)
            if t[0] == "assert":
                sites.append(("assert:" + str(t[3]), b.term_span(bb)))
        r.instance("no-panic-site:" + fn_short(b.path), not sites,
                   "%s can panic (%s) on a state an earlier maintenance step legitimately produces - e.g. a tablet whose unknown replicas were just resolved against the "
                   "NEW node objects already holds the re-created node: the refresh dies instead of publishing a tablet map" % (fn_short(b.path), ", ".join(k for k, _ in sites)),
                   sites[0][1] if sites else b.span)
    ub = roots[0]
    inplace = [c for bb, c in ub.calls() if bb in ub.live_blocks and (c.name or c.decl or "").split("::")[-1] in ("values_mut", "iter_mut", "get_mut", "entry")
               and c.args and "per_dc" in slice_fields(ub, c.args[0])]
    r.instance("per_dc-rebuilt-not-patched", not inplace,
               "update_stale_nodes replaces nodes inside the per-DC lists in place (%s): a node re-created because its datacenter changed stays listed under the old "
               "datacenter and is missing under the new one" % ", ".join(sorted({(c.name or c.decl).split("::")[-1] for c in inplace})), inplace[0].span if inplace else ub.span)


def check(ctx):
    facts = inline_view(ctx.facts("default"))
    add = None
    try:
        add = r1(ctx, facts)
    except AnchorLost as ex:
        ctx.rule("R1x", "anchors of r1").fail("anchor-lost", str(ex))
    for fn in ((lambda c, f: r2(c, f, add)) if add else None, r3, r4, r5, r6, r7, r8, r9, r10, r11, r12, r13):
        if fn is None:
            continue
        try:
            fn(ctx, facts)
        except AnchorLost as ex:
            ctx.rule("ANCHOR%d" % len(ctx.rules), "anchors").fail("anchor-lost", str(ex))
