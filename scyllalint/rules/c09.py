"""C09 — request frames say exactly what the caller asked for (structure).

Decided statically:
 R1 flag <-> field <-> writer pairing in QueryParameters::serialize and Batch::do_serialize: each `flags |= C` site and the
    payload writer of the same optional item are guarded by the presence of the same field, the writer is the CQL v4 one for
    that item and writes that field; constants equal the v4 table.
 R2 order: the emission sequence (by control-flow order) equals the protocol order; the flags byte is written after every
    `|=` and before every optional payload.
 R4 opcode table (RequestOpcode discriminants, every SerializableRequest::OPCODE) equals v4; SerializedRequest::make writes
    version 4 at [0], flags at [1], opcode at [4], big-endian body length at [5..9] computed after the body is complete;
    set_stream writes [2..4].
 R5 no silently narrowing `as` cast of a length/count in the request-serialisation call graph (known sites listed).
 R6 body shape per request type: ordered primitive-writer sequence equals the v4 body grammar.
Not decided: compressed bodies decompress to the original (library), value encoding (C01), session-level captured frames.
"""
from ..inline import inline_view
from ..mir import AnchorLost
from ..util import enum_variant_of_operand, backward_slice, truth_edges, dj_of, df_of, operand_path, path_last, fn_short, in_set

REQ = "scylla_cql::frame::request::"
TYPES = "scylla_cql::frame::types::"

QP_FLAGS = {1: "values", 2: "skip_metadata", 4: "page_size", 8: "paging_state", 16: "serial_consistency", 32: "timestamp"}
QP_SEQ = [
    ("types::write_consistency", None, "consistency"),
    ("BufMut::put_u8", None, "<flags>"),
    ("SerializedValues::write_to_request", "values", "values"),
    ("types::write_int", "page_size", "page_size"),
    ("types::write_bytes", "paging_state", "paging_state"),
    ("types::write_serial_consistency", "serial_consistency", "serial_consistency"),
    ("types::write_long", "timestamp", "timestamp"),
]
BATCH_FLAGS = {16: "serial_consistency", 32: "timestamp"}

OPCODES = {"Startup": 0x01, "Options": 0x05, "Query": 0x07, "Prepare": 0x09, "Execute": 0x0A, "Register": 0x0B, "Batch": 0x0D, "AuthResponse": 0x0F}
RESP_OPCODES = {"Error": 0x00, "Ready": 0x02, "Authenticate": 0x03, "Supported": 0x06, "Result": 0x08, "Event": 0x0C,
                "AuthChallenge": 0x0E, "AuthSuccess": 0x10}


# ---- helpers ---------------------------------------------------------------------------------------------------

def buf_local(b):
    for l in range(1, b.argc + 1):
        t = b.local_ty(l)
        if t.startswith("&mut ") and ("BufMut" in t or "Vec<u8>" in t):
            return l
    raise AnchorLost("no buffer parameter in " + b.path)


def field_of_path(b, df, path, selfl=1, depth=0):
    """name of the `self` field a canonical path is derived from (through accessor calls on it)"""
    if path is None or depth > 8:
        return None
    root, elems = path
    if root == selfl:
        return elems[0] if elems else None
    sd = b.single_def(root)
    if sd is None:
        return None
    if sd[0] == "call":
        c = sd[2]
        if c.args and c.args[0][0] in ("c", "m"):
            return field_of_path(b, df, df.canon.path(c.args[0][1]), selfl, depth + 1)
    if sd[0] == "stmt":
        rv = sd[3]
        if rv[0] == "use" and rv[1][0] in ("c", "m"):
            return field_of_path(b, df, df.canon.path(rv[1][1]), selfl, depth + 1)
        if rv[0] == "cast" and rv[2][0] in ("c", "m"):
            return field_of_path(b, df, df.canon.path(rv[2][1]), selfl, depth + 1)
    return None


def guard_fields(b, df, st):
    """{field: True(present)/False(absent)} for the presence conditions known in a dataflow state"""
    out = {}
    if st is None:
        return out
    for k, v in st.items():
        if not (v[0] == "in" and len(v[1]) == 1):
            continue
        val = next(iter(v[1]))
        if k[0] == "call":
            t = b.term(k[1])
            nm = t[1].get("def", "")
            if not t[2] or t[2][0][0] not in ("c", "m"):
                continue
            f = field_of_path(b, df, df.canon.path(t[2][0][1]))
            if f is None:
                continue
            if nm.endswith("::is_some"):
                out[f] = val == 1
            elif nm.endswith("::is_none") or nm.endswith("::is_empty"):
                out[f] = val == 0
        elif k[0] == "disc":
            ty = df.disc_ty.get(k[1], "")
            if "option::Option" in ty:
                f = field_of_path(b, df, k[1])
                if f is not None:
                    out[f] = val == 1
        elif k[0] == "val":
            f = field_of_path(b, df, k[1])
            if f is not None and len(k[1][1]) == 1 and k[1][0] == 1:
                out[f] = val == 1
    return out


def rpo_index(b):
    seen, post = set(), []
    stack = [(0, iter(b.succ[0]))]
    seen.add(0)
    while stack:
        n, it = stack[-1]
        adv = False
        for s in it:
            if s not in seen:
                seen.add(s)
                stack.append((s, iter(b.succ[s])))
                adv = True
                break
        if not adv:
            post.append(n)
            stack.pop()
    return {n: i for i, n in enumerate(post[::-1])}


def emission_events(b, df, bufl):
    """calls that take the request buffer, in control-flow order: (bb, Call)"""
    ev = []
    for bb, c in b.calls():
        if bb not in b.live_blocks:
            continue
        for a in c.args:
            if a[0] in ("c", "m") and df.canon.path(a[1]) == (bufl, ()):
                ev.append((bb, c))
                break
    rpo = rpo_index(b)
    ev.sort(key=lambda x: rpo.get(x[0], 1 << 30))
    return ev


def flag_sites(b, flags_local=None):
    """(bb, stmt, const) for every `X = BitOr(X, const C)`"""
    out = []
    for bb in b.live_blocks:
        for st in b.stmts(bb):
            if st[0] == "A" and st[2][0] == "bin" and st[2][1] == "BitOr" and not st[1][1]:
                a, c = st[2][2], st[2][3]
                if a[0] == "k":
                    a, c = c, a
                if c[0] == "k" and c[1] == "int" and a[0] in ("c", "m") and a[1][0] == st[1][0]:
                    out.append((bb, st, int(c[3])))
    return out


def value_field(b, df, call, bufl):
    """field of self written by a writer call = field of its first non-buffer argument"""
    for a in call.args:
        if a[0] in ("c", "m"):
            p = df.canon.path(a[1])
            if p == (bufl, ()):
                continue
            f = field_of_path(b, df, p)
            if f is not None:
                return f
            e = df.expr_of_operand(a)
            if e[0] in ("val", "disc"):
                return field_of_path(b, df, e[1])
            if e[0] == "call":
                t = b.term(e[1])
                if t[2] and t[2][0][0] in ("c", "m"):
                    return field_of_path(b, df, df.canon.path(t[2][0][1]))
            return field_of_path(b, df, p)
    return None


def callee_matches(call, suffix):
    return any(n.endswith(suffix) for n in call.names())


# ---- R1 / R2 ---------------------------------------------------------------------------------------------------

def check_params_like(r1, r2, b, facts, flags_table, seq, tag, seq_from=None):
    df = df_of(b, facts)
    bufl = buf_local(b)
    sites = flag_sites(b)
    seen = {}
    for bb, st, c in sites:
        g = guard_fields(b, df, df.state_in.get(bb))
        want = flags_table.get(c)
        present = sorted(f for f, v in g.items() if v and f in flags_table.values())
        key = "%s:flag-0x%02x" % (tag, c)
        if want is None:
            r1.fail(key, "flag constant 0x%02x is not a CQL v4 flag of this request" % c, b.stmt_span(st))
            continue
        seen[c] = seen.get(c, 0) + 1
        r1.instance(key, present == [want], "flag 0x%02x must be set exactly under presence of `%s`; guard fields here: %s" % (c, want, present or "none"), b.stmt_span(st))
    for c, f in flags_table.items():
        if seen.get(c, 0) != 1:
            r1.fail("%s:flag-0x%02x-sites" % (tag, c), "expected exactly one `flags |= 0x%02x` (%s), found %d" % (c, f, seen.get(c, 0)), b.span)
    ev = emission_events(b, df, bufl)
    if seq_from is not None:
        # only the tail of the event list starting at the first callee matching seq_from
        idx = [i for i, (bb, c) in enumerate(ev) if callee_matches(c, seq_from)]
        if not idx:
            raise AnchorLost("no %s event in %s" % (seq_from, b.path))
        ev = ev[idx[-1]:]
    names = [(c.name or "?").replace("scylla_cql::frame::", "").replace("scylla_cql_core::serialize::row::", "").replace("bytes::buf::buf_mut::", "") for _, c in ev]
    ok_len = len(ev) == len(seq)
    r2.instance("%s:sequence-length" % tag, ok_len, "emission sequence is %s; expected %s" % (names, [s[0] for s in seq]), b.span)
    put_bb = None
    for i, ((bb, c), (suffix, gfield, vfield)) in enumerate(zip(ev, seq)):
        key = "%s:%d:%s" % (tag, i, suffix.split("::")[-1])
        r2.instance(key + ":order", callee_matches(c, suffix), "position %d must be %s, found %s" % (i, suffix, c.name), c.span)
        g = guard_fields(b, df, df.state_in.get(bb))
        present = sorted(f for f, v in g.items() if v and f in flags_table.values())
        if gfield is None:
            r1.instance(key + ":unconditional", present == [], "must be written unconditionally; guard fields: %s" % present, c.span)
        else:
            r1.instance(key + ":guard", present == [gfield], "payload writer must be guarded by presence of `%s` only; guard fields: %s" % (gfield, present or "none"), c.span)
        if vfield == "<flags>":
            put_bb = bb
            fl = {st[1][0] for _, st, _ in sites}
            arg = [a for a in c.args if a[0] in ("c", "m") and df.canon.path(a[1]) != (bufl, ())]
            e = df.expr_of_operand(arg[0]) if arg else None
            r1.instance(key + ":writes-flags", bool(arg) and e is not None and e[0] == "val" and e[1][0] in fl, "put_u8 must write the accumulated flags local", c.span)
        else:
            vf = value_field(b, df, c, bufl)
            r1.instance(key + ":value", vf == vfield, "writer must serialise field `%s`, it serialises `%s`" % (vfield, vf), c.span)
        # strict control-flow order w.r.t. the previous event
        if i > 0:
            pbb = ev[i - 1][0]
            fwd = bb in b.reachable_after(pbb) or bb == pbb
            back = pbb in b.reachable_after(bb)
            r2.instance(key + ":after-previous", fwd and not back, "must come after %s on every path" % seq[i - 1][0], c.span, nontrivial=False)
    if put_bb is not None:
        for bb, st, c in sites:
            r2.instance("%s:flag-0x%02x-before-flags-byte" % (tag, c), put_bb in b.reachable_after(bb) and bb not in b.reachable_after(put_bb),
                        "every `flags |=` must precede the flags byte", b.stmt_span(st))


def r1_r2(ctx, facts):
    r1 = ctx.rule("R1", "flag <-> field <-> writer pairing (QUERY/EXECUTE parameters, BATCH)", floor=39)
    r2 = ctx.rule("R2", "emission order equals CQL v4 order; flags byte after all |= and before optionals", floor=30)
    b = facts.one(r"^scylla_cql::frame::request::query::QueryParameters::<'_>::serialize$")
    check_params_like(r1, r2, b, facts, QP_FLAGS, QP_SEQ, "QueryParameters")
    bb_ = facts.one(r"^scylla_cql::frame::request::batch::Batch::<'_, Statement, Values>::do_serialize$")
    batch_tail = [
        ("types::write_consistency", None, "consistency"),
        ("BufMut::put_u8", None, "<flags>"),
        ("types::write_serial_consistency", "serial_consistency", "serial_consistency"),
        ("types::write_long", "timestamp", "timestamp"),
    ]
    check_params_like(r1, r2, bb_, facts, BATCH_FLAGS, batch_tail, "Batch", seq_from="types::write_consistency")
    # named flag constants equal the v4 table
    want = {"FLAG_VALUES": 1, "FLAG_SKIP_METADATA": 2, "FLAG_PAGE_SIZE": 4, "FLAG_WITH_PAGING_STATE": 8,
            "FLAG_WITH_SERIAL_CONSISTENCY": 16, "FLAG_WITH_DEFAULT_TIMESTAMP": 32, "FLAG_WITH_NAMES_FOR_VALUES": 64}
    for path, (ty, v) in facts.consts.items():
        nm = path.split("::")[-1]
        if path.startswith(REQ) and nm in want:
            r1.instance("const:%s:%s" % (path.split("::")[-2], nm), v == want[nm], "%s = %#x, CQL v4 says %#x" % (path, v, want[nm]), nontrivial=False)


# ---- Batch head: type byte, u16 count, per statement ------------------------------------------------------------

def r6(ctx, facts):
    r = ctx.rule("R6", "body shape per request type equals the v4 grammar", floor=60)
    TR = "scylla_cql::frame::request::SerializableRequest"
    impls = [i for i in facts.impls if i.get("trait_def") == TR]
    shapes = {
        "Startup": [("types::write_string_map", "options")],
        "Options": [],
        "Query": [("types::write_long_string", "contents"), ("QueryParameters::<'_>::serialize", "parameters")],
        "Prepare": [("types::write_long_string", "query")],
        "Execute": [("types::write_short_bytes", "id"), ("QueryParameters::<'_>::serialize", "parameters")],
        "ExecuteV2": [("types::write_short_bytes", "id"), ("types::write_short_bytes", "result_metadata_id"), ("QueryParameters::<'_>::serialize", "parameters")],
        "Register": [("types::write_string_list", "event_types_to_register_for")],
        "RegisterV2": [("types::write_string_list", "event_types_to_register_for")],
        "AuthResponse": [("types::write_bytes_opt", "response")],
        "Batch": [("do_serialize", None)],
    }
    found = set()
    for im in impls:
        adt = (im.get("self_adt") or im["self"]).split("::")[-1]
        found.add(adt)
        if adt not in shapes:
            r.fail("unknown-request:" + adt, "impl SerializableRequest for %s has no reference body grammar (new request type: add its v4 grammar)" % im["self"], im.get("file"))
            continue
        meth = [it for it in im["items"] if it[0] == "serialize"]
        b = facts.body(meth[0][1]) if meth else None
        if b is None:
            r.fail("anchor-lost:" + adt, "no MIR for serialize of " + adt)
            continue
        df = df_of(b, facts)
        try:
            bufl = buf_local(b)
        except AnchorLost:
            bufl = 2
        ev = emission_events(b, df, bufl)
        want = shapes[adt]
        names = [c.name for _, c in ev]
        r.instance("%s:sequence-length" % adt, len(ev) == len(want), "writer sequence %s; expected %s" % (names, [w[0] for w in want]), b.span)
        for i, ((bb, c), (suffix, fld)) in enumerate(zip(ev, want)):
            r.instance("%s:%d:%s" % (adt, i, suffix.split("::")[-1]), callee_matches(c, suffix), "position %d must be %s, found %s" % (i, suffix, c.name), c.span)
            if fld is not None:
                vf = value_field(b, df, c, bufl)
                # Register collects a temporary list from the field: accept derivation through the iterator chain
                okf = vf == fld or (vf is None and adt.startswith("Register"))
                r.instance("%s:%d:field" % (adt, i), okf, "must serialise field `%s`, serialises `%s`" % (fld, vf), c.span)
            if i > 0:
                pbb = ev[i - 1][0]
                r.instance("%s:%d:after-previous" % (adt, i), bb in b.reachable_after(pbb) and pbb not in b.reachable_after(bb), "order on every path", c.span, nontrivial=False)
            # result must be propagated: destination is consumed (not a dead temp) unless the writer returns ()
            dty = b.local_ty(c.dest[0]) if not c.dest[1] else ""
            if dty.startswith("core::result::Result"):
                used = any(True for bb2 in b.live_blocks for a in (b.term(bb2)[2] if b.term(bb2)[0] == "call" else []) if a[0] in ("c", "m") and a[1][0] == c.dest[0])
                r.instance("%s:%d:result-propagated" % (adt, i), used, "the writer's Result must be consumed (map_err/?), not dropped", c.span)
        if adt == "ExecuteV2" and len(ev) == 3:
            g = guard_fields(b, df, df.state_in.get(ev[1][0]))
            r.instance("ExecuteV2:metadata-id-iff-present", g.get("result_metadata_id") is True, "result metadata id is written only when present; guard: %s" % g, ev[1][1].span)
            g0 = guard_fields(b, df, df.state_in.get(ev[0][0]))
            g2 = guard_fields(b, df, df.state_in.get(ev[2][0]))
            r.instance("ExecuteV2:id-and-params-unconditional", not any(g0.values()) and not any(g2.values()), "statement id and parameters are unconditional", ev[0][1].span)
    for need in shapes:
        if need not in found:
            r.fail("missing-impl:" + need, "no impl SerializableRequest for %s found (renamed or removed: re-confirm)" % need)
    # batch head and per-statement shape
    b = facts.one(r"^scylla_cql::frame::request::batch::Batch::<'_, Statement, Values>::do_serialize$")
    df = df_of(b, facts)
    bufl = buf_local(b)
    ev = emission_events(b, df, bufl)
    names = [(c.name or "?") for _, c in ev]
    want_head = ["BufMut::put_u8", "types::write_short"]
    for i, suf in enumerate(want_head):
        r.instance("Batch:head:%d:%s" % (i, suf.split("::")[-1]), i < len(ev) and callee_matches(ev[i][1], suf), "batch head position %d must be %s; sequence: %s" % (i, suf, names[:4]), ev[i][1].span if i < len(ev) else b.span)
    if ev:
        vf = value_field(b, df, ev[0][1], bufl)
        r.instance("Batch:head:type-byte-field", vf == "batch_type", "first byte must be self.batch_type, is `%s`" % vf, ev[0][1].span)
    # count written through a checked conversion of statements.len()
    ws = ev[1][1] if len(ev) > 1 else None
    if ws is not None:
        from ..util import backward_slice
        _, calls, casts = backward_slice(b, ws.args[0])
        chain = sorted({(c.name or "?").split("::")[-1] for c in calls})
        narrowing = [c for c in casts if c[1].startswith("IntToInt")]
        ok = any(n in ("try_into", "try_from") for n in chain) and "len" in chain and not narrowing
        r.instance("Batch:head:count-checked", ok, "statement count must be statements.len() through a checked conversion; derivation: %s" % chain, ws.span)
    stm = facts.one(r"^scylla_cql::frame::request::batch::serialize_batch_statement$")
    sdf = df_of(stm, facts)
    sb = buf_local(stm)
    sev = emission_events(stm, sdf, sb)
    # two arms: kind byte 0 + long string / kind byte 1 + short bytes
    arms = {}
    for bb, c in sev:
        st = sdf.state_in.get(bb) or {}
        vs = [v for k, v in st.items() if k[0] == "disc" and "BatchStatement" in sdf.disc_ty.get(k[1], "")]
        names_ = sdf.variant_names(*[(k[1], v) for k, v in st.items() if k[0] == "disc" and "BatchStatement" in sdf.disc_ty.get(k[1], "")][0]) if vs else None
        arm = ",".join(sorted(names_)) if names_ else "?"
        arms.setdefault(arm, []).append(c)
    for arm, want_kind, want_w in (("Query", 0, "types::write_long_string"), ("Prepared", 1, "types::write_short_bytes")):
        cs = arms.get(arm, [])
        ok = len(cs) == 2 and callee_matches(cs[0], "BufMut::put_u8") and callee_matches(cs[1], want_w)
        kind = None
        if cs:
            a = [x for x in cs[0].args if x[0] == "k"]
            kind = int(a[0][3]) if a and a[0][1] == "int" else None
        r.instance("BatchStatement:%s" % arm, ok and kind == want_kind, "arm %s must write kind byte %d then %s; found %s kind=%s" % (arm, want_kind, want_w, [c.name for c in cs], kind), cs[0].span if cs else stm.span)


# ---- R4 ----------------------------------------------------------------------------------------------------------

def r4(ctx, facts):
    r = ctx.rule("R4", "opcode tables and header layout equal CQL v4", floor=53)
    for adt_path, table in ((REQ + "RequestOpcode", OPCODES), ("scylla_cql::frame::response::ResponseOpcode", RESP_OPCODES)):
        adt = facts.adt(adt_path)
        got = {v["name"]: int(v["discr"]) for v in adt["variants"]}
        for nm, val in table.items():
            r.instance("opcode:%s::%s" % (adt_path.split("::")[-1], nm), got.get(nm) == val, "%s::%s = %s, CQL v4 says %#04x" % (adt_path, nm, got.get(nm), val), nontrivial=False)
        for nm in got:
            if nm not in table:
                r.fail("opcode:%s::%s:unknown" % (adt_path.split("::")[-1], nm), "opcode variant without a v4 reference value")
    # OPCODE of each impl
    want_op = {"Startup": "Startup", "Options": "Options", "Query": "Query", "Prepare": "Prepare", "Execute": "Execute", "ExecuteV2": "Execute",
               "Register": "Register", "RegisterV2": "Register", "Batch": "Batch", "AuthResponse": "AuthResponse"}
    byval = {v: k for k, v in OPCODES.items()}
    n = 0
    for path, (ty, v) in facts.consts.items():
        if path.endswith("::OPCODE") and ty.endswith("RequestOpcode"):
            # path like <scylla_cql::frame::request::query::Query<'_> as ...SerializableRequest>::OPCODE
            who = path.split(" as ")[0].lstrip("<").split("<")[0].split("::")[-1]
            n += 1
            r.instance("OPCODE:" + who, byval.get(v) == want_op.get(who), "%s::OPCODE = %s(%#04x), expected %s" % (who, byval.get(v), v, want_op.get(who)))
    # generic impls (Batch) cannot be const-evaluated polymorphically: read the constant's own MIR body
    for cb in facts.find(r" as scylla_cql::frame::request::SerializableRequest>::OPCODE$"):
        who = cb.path.split(" as ")[0].lstrip("<").split("<")[0].split("::")[-1]
        if ("OPCODE:" + who) in {i["key"].split(":", 1)[1] for i in r.instances if i["key"].startswith("C09.R4:OPCODE:")}:
            continue
        vs = [st[2][1][2] for bb in cb.live_blocks for st in cb.stmts(bb) if st[0] == "A" and st[2][0] == "agg" and st[2][1][0] == "adt" and st[2][1][1].endswith("RequestOpcode")]
        n += 1
        r.instance("OPCODE:" + who, vs == [want_op.get(who)], "%s::OPCODE is %s, expected %s" % (who, vs, want_op.get(who)))
    if n < 10:
        r.fail("OPCODE:count", "expected 10 SerializableRequest::OPCODE constants, found %d" % n)
    # TryFrom<u8> tables
    for who, table in (("RequestOpcode", OPCODES), ("ResponseOpcode", RESP_OPCODES)):
        bs = facts.find(r"<scylla_cql::frame::(request|response)::%s as core::convert::TryFrom<u8>>::try_from$" % who)
        if len(bs) != 1:
            r.fail("try_from:%s" % who, "TryFrom<u8> for %s not found" % who)
            continue
        b = bs[0]
        df = df_of(b, facts)
        adt_path = [p for p in facts.adts if p.endswith("::" + who) and "frame" in p][0]
        # each Ok(variant) aggregate is built under switch value == discriminant
        sw = [bb for bb in b.live_blocks if b.term(bb)[0] == "switch"]
        mapping = {}
        for bb in b.live_blocks:
            for st in b.stmts(bb):
                if st[0] == "A" and st[2][0] == "agg" and st[2][1][0] == "adt" and st[2][1][1] == adt_path:
                    state = df.state_in.get(bb) or {}
                    vals = [v for k, v in state.items() if k[0] == "val" and k[1] == (1, ()) and v[0] == "in" and len(v[1]) == 1]
                    mapping[st[2][1][2]] = next(iter(vals[0][1])) if vals else None
        for nm, val in table.items():
            r.instance("try_from:%s:%s" % (who, nm), mapping.get(nm) == val, "byte %#04x must map to %s::%s; extracted mapping %s" % (val, who, nm, mapping.get(nm)), b.span)
    # header layout in SerializedRequest::make
    b = facts.one(r"^scylla_cql::frame::SerializedRequest::make$")
    df = df_of(b, facts)
    hs = facts.consts.get("scylla_cql::frame::HEADER_SIZE")
    r.instance("HEADER_SIZE", hs is not None and hs[1] == 9, "HEADER_SIZE = %s, v4 header is 9 bytes" % (hs,), nontrivial=False)
    stores = {}
    for c in b.calls_to("core::ops::index::IndexMut::index_mut"):
        if len(c.args) == 2 and c.args[1][0] == "k" and c.args[1][1] == "int":
            d = c.dest[0]
            for bb in b.live_blocks:
                for st in b.stmts(bb):
                    if st[0] == "A" and st[1][0] == d and st[1][1] == ["*"]:
                        stores[int(c.args[1][3])] = (bb, st)
    # data[0] = 4
    s0 = stores.get(0)
    r.instance("header[0]=version4", s0 is not None and s0[1][2][0] == "use" and s0[1][2][1][0] == "k" and int(s0[1][2][1][3]) == 4, "byte 0 must be the constant 4", b.stmt_span(s0[1]) if s0 else b.span)
    s1 = stores.get(1)
    s4 = stores.get(4)
    ok4 = False
    if s4:
        from ..util import backward_slice, _rv_locals
        locs = set(_rv_locals(s4[1][2]))
        for l in list(locs):
            ls, _, _ = backward_slice(b, ["c", [l, []]])
            locs |= ls
        txt = b.fmt_rv(s4[1][2])
        for l in locs:
            for d in b.defs.get(l, []):
                if d[0] == "stmt":
                    txt += " " + b.fmt_rv(d[3])
        ok4 = "SerializableRequest>::OPCODE" in txt
    r.instance("header[4]=opcode", ok4, "byte 4 must be R::OPCODE as u8", b.stmt_span(s4[1]) if s4 else b.span)
    # flag constants: COMPRESSION set in the Some(compression) region together with compress_append; TRACING iff parameter
    comp = b.calls_to("scylla_cql::frame::compress_append")
    ser = [c for bb, c in b.calls() if bb in b.live_blocks and c.decl and c.decl.endswith("SerializableRequest::serialize")]
    cflag = facts.consts.get("scylla_cql::frame::flag::COMPRESSION", (None, None))[1]
    tflag = facts.consts.get("scylla_cql::frame::flag::TRACING", (None, None))[1]
    r.instance("flag-constants", cflag == 1 and tflag == 2, "frame flags COMPRESSION=%s TRACING=%s; v4: 0x01, 0x02" % (cflag, tflag), nontrivial=False)
    # header byte 1, whatever way the code assembles it (`flags |= C` under ifs, or `a_flag | b_flag` of per-option values):
    # in every disjunctive state that reaches the store, the stored value is COMPRESSION iff compression is Some, TRACING iff
    # the tracing parameter is true
    dj = dj_of(b, facts)
    bad, n_states = [], 0
    if s1 is not None:
        bb1, st1 = s1
        j1 = b.stmts(bb1).index(st1)
        e1 = dj.expr_of_rvalue(st1[2])
        for stt in dj.states_before_stmt(bb1, j1):
            n_states += 1
            v = dj.eval_in(stt, e1)
            cd = [vv for k, vv in stt.items() if k[0] == "disc" and k[1] == (2, ())]
            comp_known = 1 if cd and in_set(cd[0], {1}) else 0 if cd and in_set(cd[0], {0}) else None
            tv = stt.get(("val", (3, ())))
            trac_known = 1 if in_set(tv, {1}) else 0 if in_set(tv, {0}) else None
            if v is None or comp_known is None or trac_known is None or v != (comp_known * (cflag or 0)) | (trac_known * (tflag or 0)):
                bad.append("flags=%s compression=%s tracing=%s" % (v, {1: "Some", 0: "None", None: "?"}[comp_known], trac_known))
    r.instance("header[1]=flags", s1 is not None and n_states > 0 and not bad,
               "byte 1 must be COMPRESSION iff the body was compressed, | TRACING iff tracing was requested; offending states: %s" % sorted(set(bad))[:4], b.stmt_span(s1[1]) if s1 else b.span)
    if len(comp) == 1:
        st_c = df.state_in.get(comp[0].bb) or {}
        kc = [k for k, v in st_c.items() if k[0] == "disc" and k[1][0] == 2 and in_set(v, {1})]
        r.instance("COMPRESSION-iff-compressed", bool(kc), "compress_append must run in the Some(compression) region", comp[0].span)
        if ser:
            st_s = df.state_in.get(ser[0].bb) or {}
            ks = [k for k, v in st_s.items() if k[0] == "disc" and k[1][0] == 2 and in_set(v, {0})]
            r.instance("uncompressed-in-None-region", bool(ks), "direct serialize() must be in the compression==None region", ser[0].span)
    else:
        r.fail("COMPRESSION-iff-compressed", "compress_append call not found in make")
    r.instance("TRACING-iff-parameter", s1 is not None and not any("tracing=?" in x for x in bad), "the flags byte must depend on the tracing parameter", b.span, nontrivial=False)
    # length: computed from data.len() - HEADER_SIZE after body; copy_from_slice of to_be_bytes into [5..9]
    tb = b.calls_to("num::<impl u32>::to_be_bytes", "core::num::<impl u32>::to_be_bytes")
    cps = b.calls_to("copy_from_slice")
    lens = b.calls_to("alloc::vec::Vec::<T, A>::len", "Vec::<T, A>::len")
    ok_len = False
    if len(tb) == 1 and cps and lens:
        body_calls = [c.bb for c in comp] + [c.bb for c in ser]
        ln = [l for l in lens if all(l.bb in b.reachable_after(x) for x in body_calls)]
        ok_len = bool(ln) and all(tb[0].bb in b.reachable_after(l.bb) for l in ln)
        # subtraction of HEADER_SIZE
        sub = [st for bb in b.live_blocks for st in b.stmts(bb) if st[0] == "A" and st[2][0] == "bin" and st[2][1].startswith("Sub")]
        ok_len = ok_len and any(st[2][3][0] == "k" and st[2][3][1] == "int" and int(st[2][3][3]) == 9 for st in sub)
    r.instance("length=len-HEADER_SIZE-after-body", ok_len, "the length field must be data.len() - HEADER_SIZE computed after the body was appended, big-endian", tb[0].span if tb else b.span)
    # the range 5..9
    rng = [st for bb in b.live_blocks for st in b.stmts(bb) if st[0] == "A" and st[2][0] == "agg" and st[2][1][0] == "adt" and st[2][1][1].endswith("ops::range::Range")]
    okr = any([o[3] for o in st[2][2] if o[0] == "k"] == ["5", "9"] for st in rng)
    r.instance("length-at-[5..9]", okr, "length bytes must go to data[5..9]", b.span)
    sb = facts.one(r"^scylla_cql::frame::SerializedRequest::set_stream$")
    rng = [st for bb in sb.live_blocks for st in sb.stmts(bb) if st[0] == "A" and st[2][0] == "agg" and st[2][1][0] == "adt" and st[2][1][1].endswith("ops::range::Range")]
    okr = any([o[3] for o in st[2][2] if o[0] == "k"] == ["2", "4"] for st in rng)
    be = sb.calls_to("num::<impl i16>::to_be_bytes")
    r.instance("stream-at-[2..4]-big-endian", okr and len(be) == 1, "set_stream must write i16::to_be_bytes into data[2..4]", sb.span)


# ---- R5 ----------------------------------------------------------------------------------------------------------

REVIEWED_CASTS = {
    # key: reason
}


def narrowing_len_casts(facts, roots):
    """[(body, stmt, from, to, origin)] for every IntToInt cast that narrows a value derived from a length / count"""
    WIDTH = {"u8": 8, "i8": 8, "u16": 16, "i16": 16, "u32": 32, "i32": 32, "u64": 64, "i64": 64, "usize": 64, "isize": 64}
    seen = set()
    out = []
    for b in roots:
        if b.path in seen or "deserialize" in b.path or "::read_" in b.path:
            continue
        seen.add(b.path)
        df = None
        for bb in b.live_blocks:
            for st in b.stmts(bb):
                if st[0] != "A" or st[2][0] != "cast" or not st[2][1].startswith("IntToInt"):
                    continue
                fr, to = b.ty(st[2][3]), b.ty(st[2][4])
                if fr not in WIDTH or to not in WIDTH or WIDTH[to] >= WIDTH[fr]:
                    continue
                df = df or df_of(b, facts)
                derived = _derives_from_len(b, df, st[2][2])
                if derived:
                    out.append((b, st, fr, to, derived))
    return out, len(seen)


def r5(ctx, facts):
    r = ctx.rule("R5", "no narrowing `as` cast of a length/count when building a request", floor=2)
    roots = [b for b in facts.find(r"^<?scylla_cql::frame::(request::|SerializedRequest|compress_append|types::write_)")]
    roots += facts.find(r"^scylla_cql_core::frame::types::write_")
    roots += facts.find(r"^scylla_cql_core::serialize::(row::SerializedValues|writers::)")
    found, nb = narrowing_len_casts(facts, roots)
    for b, st, fr, to, derived in found:
        key = "%s:%s->%s" % (fn_short(b.path), fr, to)
        if key in REVIEWED_CASTS:
            r.ok(key, "reviewed: " + REVIEWED_CASTS[key], b.stmt_span(st))
        else:
            r.fail(key, "`%s as %s` narrows a value derived from %s: oversize input would be truncated silently instead of refused" % (fr, to, derived), b.stmt_span(st))
    r.instance("scanned-bodies", nb >= 40, "%d request-building bodies scanned for narrowing casts" % nb, nontrivial=False)
    # non-vacuity: the same detector must fire on the fixture crate (and only on the truncating variant)
    fx = ctx.facts("fixtures")
    ffound, _ = narrowing_len_casts(fx, fx.find(r"^fixtures::request::"))
    names = sorted(fn_short(b.path) for b, _, _, _, _ in ffound)
    r.instance("fixture:detector-fires", names == ["request::write_len_truncating"], "on /verif/fixtures the detector reports %s; it must report exactly request::write_len_truncating" % names, nontrivial=False)


def _derives_from_len(b, df, op, depth=0):
    if depth > 6 or op[0] not in ("c", "m"):
        return None
    l = op[1][0]
    if op[1][1]:
        # tuple field of a checked arithmetic result
        sd = b.single_def(l)
        if sd and sd[0] == "stmt" and sd[3][0] == "bin":
            return _derives_from_len(b, df, sd[3][2], depth + 1) or _derives_from_len(b, df, sd[3][3], depth + 1)
        return None
    for d in b.defs.get(l, []):
        if d[0] == "call":
            nm = d[2].name or ""
            if nm.endswith("::len") or nm.endswith("::count") or nm.endswith("element_count") or nm.endswith("value_count"):
                return nm.split("::")[-2] + "::" + nm.split("::")[-1]
        elif d[0] == "stmt":
            rv = d[3]
            if rv[0] == "use":
                x = _derives_from_len(b, df, rv[1], depth + 1)
                if x:
                    return x
            elif rv[0] == "bin":
                x = _derives_from_len(b, df, rv[2], depth + 1) or _derives_from_len(b, df, rv[3], depth + 1)
                if x:
                    return x
            elif rv[0] == "cast":
                x = _derives_from_len(b, df, rv[2], depth + 1)
                if x:
                    return x
            elif rv[0] == "un" and rv[1] == "PtrMetadata":
                return "slice length"
    return None


def r7(ctx, facts):
    r = ctx.rule("R7", "frames are compressed only with what STARTUP negotiated: an unsupported algorithm is dropped from the connection's config", floor=2)
    bs = facts.find(r"^scylla::network::connection::open_connection::\{closure#0\}$") or facts.find(r"^scylla::network::connection::open_connection.*\{closure#0\}$")
    if len(bs) != 1:
        raise AnchorLost("open_connection future not found (%d)" % len(bs))
    b = bs[0]
    df = df_of(b, facts)
    dj = dj_of(b, facts)
    ins = []
    for c in b.calls_to("HashMap::<K, V, S>::insert", "HashMap::<K, V, S, A>::insert"):
        txt = str(c.args) + "".join(str(d[3]) for a in c.args if a[0] in ("c", "m") for l in backward_slice(b, a)[0] for d in b.defs.get(l, []) if d[0] == "stmt")
        if "options::COMPRESSION" in txt:
            ins.append(c)
    starts = b.calls_to("Connection::startup")
    if not ins or not starts:
        raise AnchorLost("open_connection: COMPRESSION option insert / startup call not found (%d/%d)" % (len(ins), len(starts)))
    resets = []
    for bb in b.live_blocks:
        for st in b.stmts(bb):
            if st[0] == "A" and st[1][1] and path_last_local(df, st[1]) == "compression":
                is_none = (st[2][0] == "agg" and st[2][1][0] == "adt" and st[2][1][2] == "None") or (st[2][0] == "use" and enum_variant_of_operand(b, st[2][1]) == "None")
                if is_none:
                    resets.append(bb)
    # the gate: a branch whose outcome depends on what SUPPORTED listed and which decides whether the option is inserted
    sup = {l for l in range(len(b.locals)) if b.local_name(l) == "supported_compression"}
    gates = []
    for bb in sorted(b.live_blocks):
        t = b.term(bb)
        if t[0] != "switch" or t[1][0] not in ("c", "m"):
            continue
        locs, _, _ = backward_slice(b, t[1])
        if not (locs & sup):
            continue
        targets = sorted({tg for _, tg in t[2]} | {t[3]})
        yes = [tg for tg in targets if ins[0].bb in b.reachable_from(tg)]
        no = [tg for tg in targets if tg not in yes]
        if yes and no:
            gates.append((bb, tuple(yes), tuple(no)))
    r.instance("compression-requested-only-if-supported", bool(gates) and bool(sup),
               "the COMPRESSION startup option must be inserted only on a branch decided by what the server's SUPPORTED listed", ins[0].span)
    ok = bool(gates)
    for sw, yes, no in gates:
        for ff in no:
            if any(r2 in b.reachable_from(ff) for r2 in resets) or not resets:
                if starts[0].bb in dj.feasible_reach_edge(sw, ff, removed_nodes=resets):
                    ok = False
    r.instance("unsupported-algorithm-is-forgotten", ok and bool(resets),
               "when the requested compression is not supported, connection.config.compression must be set to None before STARTUP: otherwise every later frame is compressed although STARTUP negotiated none", starts[0].span)


def path_last_local(df, place):
    p = df.canon.path(place)
    return p[1][-1] if p and p[1] else None


def r8(ctx, facts):
    r = ctx.rule("R8", "the serial consistency put on the wire is the statement's own setting whenever it was set - also when it was set to `none`; the profile's only when unset", floor=2)
    from ..util import field_slice
    OO = "core::option::Option<core::option::Option<scylla_cql_core::frame::types::SerialConsistency>>"
    n = 0
    for b in facts.bodies.mentioning('"serial_consistency"'):
        if b.crate != "scylla" or "::promoted[" in b.path:
            continue
        for bb in sorted(b.live_blocks):
            for st in b.stmts(bb):
                if not (st[0] == "A" and st[2][0] == "agg" and st[2][1][0] == "adt" and "serial_consistency" in (st[2][1][4] or [])):
                    continue
                op = st[2][2][st[2][1][4].index("serial_consistency")]
                seen, calls, _ = field_slice(b, op)
                oo = [c for c in calls if c.args and c.args[0][0] in ("c", "m") and OO in b.local_ty(c.args[0][1][0]).replace("&", "")]
                reads_profile = any("ExecutionProfile" in b.local_ty(l) for l, _ in seen)
                reads_statement = any("StatementConfig" in b.local_ty(l) for l, _ in seen)
                if not oo or not reads_profile or not reads_statement:
                    continue
                n += 1
                meths = sorted({(c.decl or c.name or "").split("::")[-1] for c in oo})
                ok = all(m in ("unwrap_or", "unwrap_or_else", "clone", "as_ref", "copied") for m in meths) and any(m in ("unwrap_or", "unwrap_or_else") for m in meths)
                r.instance("statement-setting-wins:" + fn_short(b.path), ok,
                           "the statement's serial consistency (Option<Option<_>>: unset / set to none / set to a level) is combined with the execution profile through %s: "
                           "only `unwrap_or(profile)` keeps an explicit `none`; flatten / or / and_then replace it by the profile's level and the frame carries a SERIAL flag the caller turned off" % meths, b.stmt_span(st))
    if n == 0:
        raise AnchorLost("no place found where a statement's serial consistency is combined with the execution profile's")


def r9(ctx, facts):
    r = ctx.rule("R9", "batch values: the adapter that pairs value lists with statement contexts is as long as the VALUE LISTS (running out of contexts never ends it), so surplus lists are seen and refused", floor=3)
    from ..util import dj_of
    bodies = facts.find(r"^<scylla_cql::serialize::raw_batch::RawBatchValuesIteratorAdapter<BVI, CTX> as scylla_cql::serialize::raw_batch::RawBatchValuesIterator<'bvi>>::(serialize_next|is_empty_next|skip_next)$")
    if len(bodies) < 3:
        raise AnchorLost("RawBatchValuesIteratorAdapter: expected serialize_next / is_empty_next / skip_next, found %d" % len(bodies))
    for b in bodies:
        meth = b.path.split("::")[-1]
        inner = [c for bb, c in b.calls() if bb in b.live_blocks and (c.decl or c.name or "").startswith("scylla_cql_core::serialize::batch::BatchValuesIterator::") or
                 (bb in b.live_blocks and "BatchValuesIterator" in (c.decl or c.name or "") and (c.decl or c.name or "").endswith(meth))]
        if not inner:
            r.fail("length-follows-values:" + meth, "the adapter's %s does not ask the value-list iterator at all" % meth, b.span)
            continue
        dj = dj_of(b, facts)
        reach = dj.feasible_reach(0, removed_nodes=[c.bb for c in inner])
        bad = [x for x in b.exits if x in reach]
        r.instance("length-follows-values:" + meth, not bad,
                   "RawBatchValuesIteratorAdapter::%s can return without consulting the value-list iterator (e.g. `self.contexts.next()?`): the adapter then ends with the statements, "
                   "Batch::do_serialize's check for surplus value lists sees None, and a batch with more value lists than statements is sent truncated instead of refused" % meth, b.span)


def r10(ctx, facts):
    """shared with C18 (stated there): a batch the driver rebuilds keeps the caller's configuration, so the BATCH frame carries the caller's timestamp and tracing flag"""
    from .c18 import r6 as c18_r6
    c18_r6(ctx, facts)


def r11(ctx, facts):
    """shared with C18 (stated there): the timestamp field of every QUERY / EXECUTE / BATCH frame is the statement's own timestamp, the generator's only as its fallback"""
    from .c18 import r5 as c18_r5
    c18_r5(ctx, facts)


def r12(ctx, facts):
    """shared with C14 (stated there as R2): the EXECUTE re-sent after UNPREPARED carries the caller's parameters - paging state,
    page size, consistencies, values - exactly as the first frame did"""
    from .c14 import r2_r3 as c14_r2_r3
    c14_r2_r3(ctx, facts)


def check(ctx):
    facts = inline_view(ctx.facts("default"))
    for fn in (r1_r2, r6, r4, r5, r7, r8, r9, r10, r11, r12):
        try:
            fn(ctx, facts)
        except AnchorLost as ex:
            ctx.rule(fn.__name__.upper() + "x", "anchors of " + fn.__name__).fail("anchor-lost", str(ex))
    ctx.assumptions += ["CQL binary protocol v4 tables (flag bits, opcodes, header layout, body grammars) transcribed by hand from the spec"]
