"""C17 — type mismatches are rejected; a failed bind leaves the request intact.

Decided statically:
 R1 the acceptance matrix, both directions: for every `impl SerializeValue` the set of ColumnType shapes under which
    serialize may return Ok, and for every `impl DeserializeValue` the shapes under which type_check may return Ok, are
    extracted from MIR (abstract-state dataflow over the ColumnType/NativeType/CollectionType discriminants, through helper
    gates and delegations) and compared cell by cell with the reference matrix; leaf carriers must agree between the two
    directions; every NativeType is accepted by some carrier on each side.
 R2 check before write: no CellWriter-consuming call is reachable under a shape for which serialize cannot return Ok.
 R3 TypedRowIterator has one constructor, it calls R::type_check(specs) and propagates its error before building Self.
 R4 rollback: SerializedValues::add_value restores the buffer to the length taken before CellWriter::new on the error edge,
    increments element_count only on the ok edge, tests u16::MAX first; who writes serialized_values / element_count.
 R5 count = cells: every make_cell_writer() result is consumed by a serialize / set_* call.
Not decided: error kinds and messages; third-party impls; byte-level equality (C01).
"""
from ..inline import inline_view
from ..mir import AnchorLost
from ..util import upvar_names, closure_family, df_of, fn_short, in_set, uses_of_local, operand_path, path_last, backward_slice
from ..shapes import Accept, SV, DV, impl_method, all_shapes

N = "Native:"
C = "Collection:"
ALL = "ALL"

# reference matrix: carrier (impl self type, lifetimes stripped) -> accepted shapes. Confirmed against
# docs/source/data-types/*.md and frozen; `ALL` = transparent wrapper / dynamic value (delegates, inherits inner table).
REF_SER = {
    "i8": {N + "TinyInt"}, "i16": {N + "SmallInt"}, "i32": {N + "Int"}, "i64": {N + "BigInt"},
    "bool": {N + "Boolean"}, "f32": {N + "Float"}, "f64": {N + "Double"},
    "scylla_cql_core::value::CqlDecimal": {N + "Decimal"}, "scylla_cql_core::value::CqlDecimalBorrowed": {N + "Decimal"},
    "scylla_cql_core::value::CqlDate": {N + "Date"}, "scylla_cql_core::value::CqlTimestamp": {N + "Timestamp"},
    "scylla_cql_core::value::CqlTime": {N + "Time"}, "uuid::Uuid": {N + "Uuid"},
    "scylla_cql_core::value::CqlTimeuuid": {N + "Timeuuid"},
    "scylla_cql_core::value::CqlVarint": {N + "Varint"}, "scylla_cql_core::value::CqlVarintBorrowed": {N + "Varint"},
    "str": {N + "Ascii", N + "Text"}, "alloc::string::String": {N + "Ascii", N + "Text"},
    "alloc::vec::Vec<u8>": {N + "Blob"}, "&[u8]": {N + "Blob"}, "[u8; N]": {N + "Blob"}, "bytes::bytes::Bytes": {N + "Blob"},
    "core::net::ip_addr::IpAddr": {N + "Inet"},
    "scylla_cql_core::value::Counter": {N + "Counter"}, "scylla_cql_core::value::CqlDuration": {N + "Duration"},
    "core::option::Option<T>": ALL, "scylla_cql_core::value::Unset": ALL, "scylla_cql_core::value::MaybeUnset<V>": ALL,
    "scylla_cql_core::value::MaybeEmpty<T>": ALL, "&T": ALL, "alloc::boxed::Box<T>": ALL, "alloc::sync::Arc<T>": ALL,
    "alloc::borrow::Cow<T>": ALL, "scylla_cql_core::value::CqlValue": ALL,
    "std::collections::hash::set::HashSet<V, S>": {C + "List", C + "Set"},
    "alloc::collections::btree::set::BTreeSet<V>": {C + "List", C + "Set"},
    "std::collections::hash::map::HashMap<K, V, S>": {C + "Map"}, "alloc::collections::btree::map::BTreeMap<K, V>": {C + "Map"},
    "alloc::vec::Vec<T>": {C + "List", C + "Set", "Vector"}, "[T]": {C + "List", C + "Set", "Vector"},
    "<tuple>": {"Tuple"},
}
REF_DE = {
    "i8": {N + "TinyInt"}, "i16": {N + "SmallInt"}, "i32": {N + "Int"}, "i64": {N + "BigInt"},
    "bool": {N + "Boolean"}, "f32": {N + "Float"}, "f64": {N + "Double"},
    "scylla_cql_core::value::CqlDecimal": {N + "Decimal"}, "scylla_cql_core::value::CqlDecimalBorrowed": {N + "Decimal"},
    "scylla_cql_core::value::CqlDate": {N + "Date"}, "scylla_cql_core::value::CqlTimestamp": {N + "Timestamp"},
    "scylla_cql_core::value::CqlTime": {N + "Time"}, "uuid::Uuid": {N + "Uuid"},
    "scylla_cql_core::value::CqlTimeuuid": {N + "Timeuuid"},
    "scylla_cql_core::value::CqlVarint": {N + "Varint"}, "scylla_cql_core::value::CqlVarintBorrowed": {N + "Varint"},
    "&str": {N + "Ascii", N + "Text"}, "alloc::string::String": {N + "Ascii", N + "Text"},
    "alloc::boxed::Box<str>": {N + "Ascii", N + "Text"}, "alloc::sync::Arc<str>": {N + "Ascii", N + "Text"},
    "alloc::vec::Vec<u8>": {N + "Blob"}, "&[u8]": {N + "Blob"}, "bytes::bytes::Bytes": {N + "Blob"},
    "core::net::ip_addr::IpAddr": {N + "Inet"},
    "scylla_cql_core::value::Counter": {N + "Counter"}, "scylla_cql_core::value::CqlDuration": {N + "Duration"},
    "core::option::Option<T>": ALL, "scylla_cql_core::value::MaybeEmpty<T>": ALL, "alloc::boxed::Box<T>": ALL,
    "alloc::sync::Arc<T>": ALL, "alloc::borrow::Cow<T>": ALL, "scylla_cql_core::value::CqlValue": ALL,
    "core::option::Option<scylla_cql_core::deserialize::frame_slice::FrameSlice>": ALL,
    "scylla_cql_core::deserialize::value::FrameSliceWithMetadata": ALL,
    "scylla_cql_core::deserialize::value::ListlikeIterator<T>": {C + "List", C + "Set"},
    "alloc::vec::Vec<T>": {C + "List", C + "Set", "Vector"},
    # deliberate asymmetry: sets serialize to list|set but type-check only against set (a list may hold duplicates)
    "alloc::collections::btree::set::BTreeSet<T>": {C + "Set"}, "std::collections::hash::set::HashSet<T, S>": {C + "Set"},
    "scylla_cql_core::deserialize::value::VectorIterator<T>": {"Vector"},
    "scylla_cql_core::deserialize::value::MapIterator<K, V>": {C + "Map"},
    "alloc::collections::btree::map::BTreeMap<K, V>": {C + "Map"}, "std::collections::hash::map::HashMap<K, V, S>": {C + "Map"},
    "scylla_cql_core::deserialize::value::UdtIterator": {"UserDefinedType"},
    "<tuple>": {"Tuple"},
}
# carriers that exist only under the `full-serialization` feature set (thorough tier, config `full`); confirmed against
# docs/source/data-types/{date,time,timestamp,varint,decimal}.md. Secret<V>/SecretBox<V> serialize only (transparent).
REF_OPT_SER = {
    "bigdecimal::BigDecimal": {N + "Decimal"}, "num_bigint::bigint::BigInt": {N + "Varint"},
    "chrono::naive::date::NaiveDate": {N + "Date"}, "time::date::Date": {N + "Date"},
    "chrono::naive::time::NaiveTime": {N + "Time"}, "time::time::Time": {N + "Time"},
    "chrono::datetime::DateTime<chrono::offset::utc::Utc>": {N + "Timestamp"}, "time::offset_date_time::OffsetDateTime": {N + "Timestamp"},
    "secrecy::Secret<V>": ALL, "secrecy::SecretBox<V>": ALL,
}
REF_OPT_DE = {k: v for k, v in REF_OPT_SER.items() if not k.startswith("secrecy::")}
# carriers whose two directions may legitimately differ (reason above)
ASYMMETRIC = {"std::collections::hash::set::HashSet", "alloc::collections::btree::set::BTreeSet"}


def norm_self(s):
    """strip lifetimes: `Foo<'a, T>` -> `Foo<T>`, `&'a str` -> `&str`"""
    import re
    s = re.sub(r"'\w+\s*,\s*", "", s)
    s = re.sub(r"<'\w+>", "", s)
    s = re.sub(r"&'\w+ ", "&", s)
    s = s.replace("<>", "")
    if s.startswith("(") and s.endswith(")"):
        return "<tuple>"
    return s


def fmt(sh, universe):
    if sh == universe:
        return ALL
    return ",".join(sorted(x.replace(N, "").replace(C, "coll:") for x in sh)) or "{}"


def head(s):
    return s.split("<")[0]


def r1_r2(ctx, facts, config):
    r1 = ctx.rule("R1", "acceptance matrix (serialize / type_check) equals the reference, directions agree [%s]" % config, floor=188)
    r2 = ctx.rule("R2", "check before write: no writer call under a shape serialize rejects [%s]" % config, floor=56)
    A = Accept(facts)
    U = A.universe
    tables = {}
    ref_ser, ref_de = dict(REF_SER), dict(REF_DE)
    if config == "full":
        ref_ser.update(REF_OPT_SER)
        ref_de.update(REF_OPT_DE)
    for tr, meth, ref, tag in ((SV, "serialize", ref_ser, "ser"), (DV, "type_check", ref_de, "de")):
        table = {}
        for im in [i for i in facts.impls if i.get("trait_def") == tr and i["crate"] == "scylla_cql_core"]:
            p = impl_method(facts, im, meth)
            if p is None or facts.body(p) is None:
                r1.fail("%s:%s:no-mir" % (tag, norm_self(im["self"])), "no MIR for %s of %s" % (meth, im["self"]))
                continue
            acc, marks = A.tc(p)
            carrier = norm_self(im["self"])
            arity = im["self"].count(",") + (0 if im["self"] in ("()",) else 1) if carrier == "<tuple>" else None
            keyname = carrier if arity is None else "tuple%d" % (0 if im["self"] == "()" else arity)
            table.setdefault(carrier, []).append((keyname, acc, marks, p, im))
            want = ref.get(carrier)
            site = "%s:%s" % (im["file"], im["span"][1])
            if want is None:
                r1.note("%s carrier %s not in the reference matrix: accepts %s" % (tag, im["self"], fmt(acc, U)))
                continue
            wantset = U if want == ALL else want
            if carrier == "<tuple>" and im["self"] == "()" and tag == "de":
                wantset = {"Tuple"}
            r1.instance("%s:%s" % (tag, keyname), acc == wantset,
                        "%s for %s accepts {%s}; reference matrix says {%s}" % (meth, im["self"], fmt(acc, U), fmt(wantset, U)), site,
                        data={"accepts": sorted(acc) if acc != U else ALL, "markers": sorted(marks)})
            if tag == "ser":
                w, wm = A.ser(p)
                r2.instance("ser:%s" % keyname, w <= acc,
                            "CellWriter is consumed under shapes {%s} but serialize can only succeed under {%s}: bytes of a mismatched value may be written" % (fmt(w - acc, U), fmt(acc, U)), site)
        tables[tag] = table
        for carrier in ref:
            if carrier not in table:
                r1.fail("%s:%s:missing" % (tag, carrier), "reference carrier %s has no impl of %s any more (renamed/removed: re-confirm)" % (carrier, tr.split("::")[-1]))
    # direction agreement for leaf carriers present on both sides
    for carrier, rows in tables.get("ser", {}).items():
        if carrier not in tables.get("de", {}) or carrier == "<tuple>":
            continue
        _, sacc, smarks, _, sim = rows[0]
        _, dacc, dmarks, _, dim = tables["de"][carrier][0]
        if head(carrier) in ASYMMETRIC:
            r1.instance("agree:%s" % carrier, dacc <= sacc, "documented asymmetry: type_check set must be within the serialize set", "%s:%s" % (sim["file"], sim["span"][1]), nontrivial=False)
            continue
        r1.instance("agree:%s" % carrier, sacc == dacc,
                    "serialize accepts {%s} but type_check accepts {%s} for the same carrier" % (fmt(sacc, U), fmt(dacc, U)), "%s:%s" % (sim["file"], sim["span"][1]))
    # coverage: every NativeType accepted by a non-wildcard carrier on each side
    for tag in ("ser", "de"):
        cov = set()
        for carrier, rows in tables.get(tag, {}).items():
            for _, acc, _, _, _ in rows:
                if acc != U:
                    cov |= acc
        for sh in sorted(s for s in U if s.startswith(N)):
            r1.instance("coverage:%s:%s" % (tag, sh[len(N):]), sh in cov, "no typed %s carrier accepts %s" % (tag, sh), nontrivial=False)
    return tables, A


def r3(ctx, facts):
    r = ctx.rule("R3", "type_check before any row: TypedRowIterator::new is the only constructor and checks first", floor=5)
    ADT = "scylla_cql_core::deserialize::result::TypedRowIterator"
    facts.adt(ADT)
    makers = []
    for b in facts.bodies.mentioning('"' + ADT + '"'):
        for bb in b.live_blocks:
            for st in b.stmts(bb):
                if st[0] == "A" and st[2][0] == "agg" and st[2][1][0] == "adt" and st[2][1][1] == ADT:
                    makers.append((b, bb, st))
    r.instance("single-constructor", len(makers) == 1 and makers[0][0].path.endswith("TypedRowIterator::<'frame, 'metadata, R>::new"),
               "TypedRowIterator values are built in: %s" % [fn_short(m[0].path) for m in makers])
    if not makers:
        raise AnchorLost("no TypedRowIterator aggregate found")
    b, abb, ast = makers[0]
    df = df_of(b, facts)
    tcs = [c for bb, c in b.calls() if bb in b.live_blocks and (c.decl or "").endswith("DeserializeRow::type_check")]
    r.instance("calls-type_check", len(tcs) == 1, "TypedRowIterator::new must call R::type_check exactly once", b.span)
    if tcs:
        tc = tcs[0]
        r.instance("type_check-dominates-construction", b.dominates(tc.bb, abb) and tc.bb != abb, "type_check must run before the iterator is built", tc.span)
        # argument derives from raw.specs()
        _, calls, _ = backward_slice(b, tc.args[0])
        r.instance("type_check-on-specs", any((c.name or "").endswith("RawRowIterator::<'frame, 'metadata>::specs") for c in calls),
                   "type_check must be given raw.specs()", tc.span)
        # construction only on the Continue/Ok edge of the check
        st = df.state_before_stmt(abb, b.stmts(abb).index(ast))
        ok = False
        for k, v in (st or {}).items():
            if k[0] == "disc" and k[1][1] == () and in_set(v, {0}):
                sd = b.single_def(k[1][0])
                if sd and sd[0] == "call":
                    _, cs, _ = backward_slice(b, ["c", [k[1][0], []]])
                    if any(c.bb == tc.bb for c in cs) or sd[2].bb == tc.bb:
                        ok = True
        r.instance("constructed-only-if-check-ok", ok, "the iterator must be built only where the type_check result is Ok; state: %s" % (df.fmt_state(st) if st else None), b.stmt_span(ast))
    # QueryPager re-checks per page: callers of TypedRowIterator::new / rows_iter exist in pager
    callers = facts.callers_of("scylla_cql_core::deserialize::result::TypedRowIterator::<'frame, 'metadata, R>::new")
    r.note("TypedRowIterator::new callers: %s" % sorted({fn_short(b.path) for b, _ in callers}))


def r4(ctx, facts):
    r = ctx.rule("R4", "add_value rolls back on error; element_count counts encoded cells", floor=8)
    b = facts.one(r"^scylla_cql_core::serialize::row::SerializedValues::add_value$")
    df = df_of(b, facts)
    sers = [c for bb, c in b.calls() if bb in b.live_blocks and (c.decl or "").endswith("SerializeValue::serialize")]
    if len(sers) != 1:
        raise AnchorLost("add_value: expected one SerializeValue::serialize call, found %d" % len(sers))
    ser = sers[0]
    news = b.calls_to("CellWriter::<'buf>::new")
    if len(news) != 1:
        raise AnchorLost("add_value: expected one CellWriter::new")
    new = news[0]
    lens = [c for c in b.calls_to("Vec::<T, A>::len") if path_last(operand_path(df, c.args[0])) == "serialized_values"]
    lens_before = [c for c in lens if b.dominates(c.bb, new.bb) and c.bb != new.bb]
    r.instance("len-taken-before-writer", bool(lens_before), "the buffer length must be read before CellWriter::new", new.span)
    # error edge of serialize result
    sws = [bb for bb in b.live_blocks if b.term(bb)[0] == "switch" and df.expr_of_operand(b.term(bb)[1]) == ("disc", (ser.dest[0], ()))]
    if len(sws) != 1:
        raise AnchorLost("add_value: serialize result is not matched exactly once")
    t = b.term(sws[0])
    edges = {int(v): tg for v, tg in t[2]}
    err_tg = edges.get(1, t[3] if 1 not in edges and 0 in edges else None)
    ok_tg = edges.get(0, t[3] if 0 not in edges else None)
    if err_tg is None or ok_tg is None:
        raise AnchorLost("add_value: cannot identify Ok/Err edges")
    trunc = [c for c in b.calls_to("Vec::<T, A>::resize", "Vec::<T, A>::truncate") if path_last(operand_path(df, c.args[0])) == "serialized_values"]
    err_reach = b.reachable_from(err_tg)
    ok_reach = b.reachable_from(ok_tg)
    tr_err = [c for c in trunc if c.bb in err_reach and c.bb not in ok_reach]
    good = False
    for c in tr_err:
        e = df.expr_of_operand(c.args[1])
        if any(e == ("call", l.bb) for l in lens_before):
            # every path from the error edge to return passes the truncation
            if not (b.reachable_from(err_tg, removed_nodes=[c.bb]) & set(b.exits)):
                good = True
    r.instance("error-edge-restores-length", good, "on Err the buffer must be resized/truncated to the length taken before serialising, on every path", b.term_span(sws[0]))
    # element_count increments
    incs = []
    for bb in b.live_blocks:
        for st in b.stmts(bb):
            if st[0] == "A" and st[1][1] and df.canon.path(st[1]) == (1, ("element_count",)):
                incs.append((bb, st))
    r.instance("element_count-written-once", len(incs) == 1, "element_count must be updated at exactly one place, found %d" % len(incs), b.span)
    for bb, st in incs:
        r.instance("element_count-only-on-ok", bb in ok_reach and bb not in err_reach, "element_count must be incremented only on the Ok edge", b.stmt_span(st))
        # value is element_count + 1
        _, _, _ = backward_slice(b, ["c", [0, []]])
        rv = st[2]
        src = rv
        if rv[0] == "use" and rv[1][0] in ("c", "m") and rv[1][1][1]:
            sd = b.single_def(rv[1][1][0])
            if sd and sd[0] == "stmt":
                src = sd[3]
        okinc = src[0] == "bin" and src[1].startswith("Add") and src[3][0] == "k" and int(src[3][3]) == 1
        r.instance("element_count-plus-one", okinc, "element_count must grow by exactly one per encoded cell", b.stmt_span(st))
    # u16::MAX test dominates the writer
    cnt = [c for c in b.calls_to("SerializedValues::element_count")]
    guard = False
    st_new = df.state_in.get(new.bb) or {}
    for k, v in st_new.items():
        if k[0] == "bin" and k[1] in ("Eq", "Ne", "Ge", "Lt") and ("const", 65535) in (k[2], k[3]):
            guard = True
    r.instance("max-values-test-first", guard, "the u16::MAX test must dominate serialisation; state at CellWriter::new: %s" % df.fmt_state(st_new), new.span)
    # who writes the two fields, crate-wide
    ADT = "scylla_cql_core::serialize::row::SerializedValues"
    allowed = {"add_value", "new_from_frame", "new", "from_closure", "EMPTY", "from_serializable", "default", "clone"}
    from ..dataflow import adt_of_type
    writers = set()
    for body in facts.bodies.mentioning('"element_count"', '"serialized_values"'):
        for bb in body.live_blocks:
            for st in body.stmts(bb):
                if st[0] != "A":
                    continue
                if st[1][1]:
                    flds = [e for e in st[1][1] if isinstance(e, list) and e[0] == "f"]
                    if flds and flds[-1][2] in ("element_count", "serialized_values") and adt_of_type(body.local_ty(st[1][0])) == ADT:
                        writers.add((_fname(body.path), flds[-1][2], "assign"))
                if st[2][0] == "ref" and st[2][1] == "m":
                    flds = [e for e in st[2][2][1] if isinstance(e, list) and e[0] == "f"]
                    if flds and flds[-1][2] in ("element_count", "serialized_values") and adt_of_type(body.local_ty(st[2][2][0])) == ADT:
                        writers.add((_fname(body.path), flds[-1][2], "&mut"))
                if st[2][0] == "agg" and st[2][1][0] == "adt" and st[2][1][1] == ADT:
                    writers.add((_fname(body.path), "*", "construct"))
    bad = sorted(w for w in writers if w[0] not in allowed)
    r.instance("who-writes-fields", not bad, "serialized_values/element_count may be written only by %s; other writers: %s" % (sorted(allowed), bad))
    # from_closure converts the writer's count with a checked conversion
    fc = facts.find(r"^scylla_cql_core::serialize::row::SerializedValues::from_closure$")
    if fc:
        fb = fc[0]
        vc = fb.calls_to("RowWriter::<'buf>::value_count")
        chk = fb.calls_to("TryInto::try_into", "TryFrom::try_from")
        casts = [st for bb in fb.live_blocks for st in fb.stmts(bb) if st[0] == "A" and st[2][0] == "cast" and st[2][1].startswith("IntToInt") and fb.ty(st[2][4]) == "u16"]
        r.instance("from_closure-checked-count", bool(vc) and bool(chk) and not casts, "from_closure must convert value_count() with a checked conversion (no `as u16`)", fb.span)


def _fname(path):
    parts = [p for p in path.split("::") if not p.startswith("{")]
    return parts[-1]


def r5(ctx, facts):
    r = ctx.rule("R5", "every make_cell_writer() result is consumed by a serialize/set_* call", floor=2)
    MK = "scylla_cql_core::serialize::writers::RowWriter::<'buf>::make_cell_writer"
    n = 0
    seen_def = set()
    for b, bb in facts.callers_of(MK):
        if bb not in b.live_blocks or not b.crate.startswith("scylla"):
            continue
        c = [c for bb2, c in b.calls() if bb2 == bb][0]
        # macro-instantiated impls collapse to their definition site
        dkey = "%s:%s" % (fn_short(b.path) if not c.span.macro else c.span.macro, c.span.line)
        if dkey in seen_def:
            continue
        seen_def.add(dkey)
        n += 1
        if c.dest[1]:
            r.fail("writer-stored:" + dkey, "make_cell_writer() result stored into a projection", c.span)
            continue
        uses = [u for u in uses_of_local(b, c.dest[0])]
        consumed = False
        work = [c.dest[0]]
        seen = set()
        while work:
            l = work.pop()
            if l in seen:
                continue
            seen.add(l)
            for ubb, kind, op in uses_of_local(b, l):
                if kind[0] == "arg":
                    consumed = True
                elif kind[0] == "stmt" and kind[1][2][0] in ("use", "agg"):
                    work.append(kind[1][1][0])
        r.instance("writer-consumed:" + dkey, consumed, "the CellWriter from make_cell_writer() must be handed to serialize()/set_null()/set_unset(); an unused writer makes value_count exceed the encoded cells", c.span)


def r6(ctx, facts):
    r = ctx.rule("R6", "WrittenCellProof (the type-level 'one cell was written' token every serialize() must return) is minted only by the cell writers, after writing", floor=9)
    W = "scylla_cql_core::serialize::writers::"
    mints = []
    for b in facts.bodies.mentioning("WrittenCellProof"):
        for bb in b.live_blocks:
            for st in b.stmts(bb):
                if st[0] == "A" and st[2][0] == "agg" and st[2][1][0] == "adt" and st[2][1][1] == W + "WrittenCellProof":
                    mints.append(fn_short(b.path))
    r.instance("constructed-only-in-new", sorted(set(mints)) == ["WrittenCellProof::new"], "WrittenCellProof values are built in %s; only the private WrittenCellProof::new may" % sorted(set(mints)))
    newp = [p for p in facts.bodies.keys() if p.startswith(W) and p.endswith("WrittenCellProof::<'_>::new")] or [p for p in facts.bodies.keys() if p.startswith(W) and "WrittenCellProof" in p and p.endswith("::new")]
    if len(newp) != 1:
        raise AnchorLost("WrittenCellProof::new not found (%s)" % newp)
    ALLOWED = {"CellWriter::set_null", "CellWriter::set_unset", "CellWriter::set_value", "CellValueBuilder::finish"}
    callers = {}
    for b, bb in facts.callers_of(newp[0]):
        if bb in b.live_blocks:
            callers.setdefault(fn_short(b.path), []).append((b, bb))
    for k in sorted(set(callers) | ALLOWED):
        r.instance("minter:" + k, k in ALLOWED and k in callers, "%s %s" % (k, "mints a WrittenCellProof but is not one of the four cell-finishing operations" if k not in ALLOWED else "no longer mints the proof (renamed/removed: re-confirm)"),
                   callers[k][0][0].span if k in callers else None)
    # the three direct writers append to the buffer on every path before minting
    for k in ("CellWriter::set_null", "CellWriter::set_unset", "CellWriter::set_value"):
        if k not in callers:
            continue
        b = callers[k][0][0]
        ext = [c.bb for c in b.calls_to("Vec::<T, A>::extend_from_slice", "Vec::<T>::extend_from_slice")]
        ok = bool(ext) and all(bb not in b.reachable_from(0, removed_nodes=ext) for _, bb in callers[k])
        r.instance("writes-before-proof:" + k, ok, "%s must append the cell to the buffer on every path that returns the proof" % k, b.span)
    fb = callers.get("CellValueBuilder::finish")
    if fb:
        b = fb[0][0]
        df = df_of(b, facts)
        cp = [c.bb for c in b.calls_to("core::slice::<impl [T]>::copy_from_slice")]
        # with the back-patch removed, the proof is reachable only through the `write_size == false` edge
        sws = [bb for bb in b.live_blocks if b.term(bb)[0] == "switch" and path_last(operand_path(df, b.term(bb)[1]) or (0, ())) == "write_size"
               or b.term(bb)[0] == "switch" and "write_size" in str(df.expr_of_operand(b.term(bb)[1]))]
        ok = bool(cp) and bool(sws)
        if ok:
            edges, other = switch_edges_local(b, sws[0])
            true_tg = other if 0 in edges else edges.get(1)
            ok = all(bb not in b.reachable_from(true_tg, removed_nodes=cp) for _, bb in fb)
        r.instance("finish-backpatches-length", ok, "CellValueBuilder::finish must back-patch the 4-byte length on every `write_size` path before returning the proof", b.span)


def r7(ctx, facts):
    r = ctx.rule("R7", "paged row stream: a page is marked type-checked only after its type check succeeded, and rows are deserialized only from checked pages", floor=3)
    bs = facts.find(r"TypedRowStream<RowT> as futures_core::stream::Stream>::poll_next$") or facts.find(r"TypedRowStream.*::poll_next$")
    if len(bs) != 1:
        raise AnchorLost("TypedRowStream::poll_next not found (%d)" % len(bs))
    fam = closure_family(facts, bs[0])
    found = 0
    for b in fam:
        df = df_of(b, facts)
        up = upvar_names(facts, b)

        def is_flag(path):
            """the place is the stream's current_page_typechecked, directly or through a captured `&mut`"""
            if path_last(path) == "current_page_typechecked":
                return True
            return path[0] == 1 and len(path[1]) == 1 and path[1][0].isdigit() and up.get(int(path[1][0])) == "current_page_typechecked"
        tcs = [c for c in b.calls_to("ColumnIterator::<'frame, 'metadata>::type_check", "ColumnIterator::type_check") if True]
        tcs = tcs or [c for bb0, c in b.calls() if bb0 in b.live_blocks and (c.name or "").endswith("::type_check") and "ColumnIterator" in (c.name or "")]
        stores = [(bb, j, st) for bb in sorted(b.live_blocks) for j, st in enumerate(b.stmts(bb))
                  if st[0] == "A" and st[1][1] and is_flag(df.canon.path(st[1])) and st[2][0] == "use" and st[2][1][0] == "k" and str(st[2][1][3]) in ("1", "true")]
        if not tcs and not stores:
            continue
        found += 1
        r.instance("type_check-called", len(tcs) >= 1, "poll_next must type-check each fresh page (ColumnIterator::type_check::<RowT>)", b.span)
        # the `?` on the type_check result: Continue edge
        brs = [c for c in b.calls_to("core::ops::try_trait::Try::branch") if any(t.dest[0] in backward_slice(b, c.args[0])[0] for t in tcs)]
        # ... or an explicit `if let Err(e) = it.type_check() { return .. }` / `match`: the check's own Result is known to be Ok
        roots = set()
        for t in tcs:
            roots.add(df.disc_root(df.canon.path(t.dest)))
            for bb0, c in b.calls():
                if bb0 in b.live_blocks and (c.decl or "").endswith("::map_err") and c.args and c.args[0][0] in ("c", "m") and t.dest[0] in backward_slice(b, c.args[0])[0]:
                    roots.add(df.disc_root(df.canon.path(c.dest)))

        def check_passed(stt):
            return any(in_set(stt.get(("disc", (br.dest[0], ()))), {0}) for br in brs) or any(in_set(stt.get(("disc", rt)), {0}) for rt in roots)
        for bb, j, st in stores:
            stt = df.state_before_stmt(bb, j) or {}
            passed = check_passed(stt)
            r.instance("checked-flag-set-after-success", passed,
                       "current_page_typechecked = true is stored where the type check of this page has not (yet) succeeded: after a failed check the remaining rows of the page would be deserialized unchecked", b.stmt_span(st))
        des = [c for bb0, c in b.calls() if bb0 in b.live_blocks and c.decl == "scylla_cql_core::deserialize::row::DeserializeRow::deserialize"]
        for c in des:
            stt = df.state_in.get(c.bb) or {}
            okd = any(k[0] == "val" and is_flag(k[1]) and in_set(v, {1}) for k, v in stt.items()) or \
                check_passed(stt)
            r.instance("rows-only-from-checked-page", okd, "a row is deserialized where the page is not known to be type-checked", c.span)
    if not found:
        raise AnchorLost("no type_check / checked-flag store found in TypedRowStream::poll_next")


def switch_edges_local(b, bb):
    t = b.term(bb)
    return {int(v): tg for v, tg in t[2]}, t[3]


def r8(ctx, facts):
    """shared with C16 (the generated code's side): the ordered-flavor type_check generated by #[derive(DeserializeValue)] checks the CQL type of every UDT field
    it matches to a Rust field - a mismatched pair must be refused at any nesting depth, also through derived structs"""
    from .c16 import r13 as c16_r13
    c16_r13(ctx, ctx.facts("family"))


def r9(ctx, facts):
    r = ctx.rule("R9", "`frozen` is not part of the type check: whether a collection / UDT column type is frozen decides neither acceptance nor rejection of a value", floor=1)
    FILES = ("serialize/value.rs", "deserialize/value.rs", "serialize/row.rs", "deserialize/row.rs")
    n = m = 0
    for b in facts.bodies.mentioning('"frozen"'):
        if b.crate != "scylla_cql_core" or "::promoted[" in b.path or not b.span.file.endswith(FILES):
            continue
        n += 1
        df = df_of(b, facts)
        for bb in sorted(b.live_blocks):
            t = b.term(bb)
            if t[0] != "switch":
                continue
            e = df.expr_of_operand(t[1])
            if "frozen" in str(e):
                m += 1
                r.instance("branch-on-frozen:" + fn_short(b.path), False,
                           "%s branches on `%s`: a frozen and a non-frozen column of the same element types take the same values; "
                           "refusing (or accepting) by this flag breaks every documented pairing for one of the two" % (fn_short(b.path), df.fmt_expr(e)), b.term_span(bb))
    # how many (de)serialization bodies look at a Collection / UserDefinedType at all (the population the rule ranges over)
    pop = [b for b in facts.bodies.mentioning("ColumnType") if b.crate == "scylla_cql_core" and "::promoted[" not in b.path and b.span.file.endswith(FILES)]
    r.instance("population", len(pop) >= 60, "only %d (de)serialization bodies mention ColumnType (expected at least 60): the scan lost its footing" % len(pop), None, nontrivial=False)
    r.note("%d bodies mention ColumnType, %d mention the `frozen` field, %d branch on it" % (len(pop), n, m))


def r10(ctx, facts):
    """vectors: `vector<T, N>` takes exactly N elements whatever T is. serialize_vector compares the sequence length with the
    declared dimension before it touches the cell writer, for fixed-size and variable-size element types alike."""
    r = ctx.rule("R10", "serialize_vector: the element count is compared with the declared dimension before the cell writer is used, on every path", floor=1)
    b = facts.one(r"^scylla_cql_core::serialize::value::serialize_vector$")
    names = {b.local_name(l): l for l in range(1, b.argc + 1)}
    if "len" not in names or "dimensions" not in names:
        raise AnchorLost("serialize_vector: parameters `len` / `dimensions` not found (%s)" % sorted(n for n in names if n))
    want = {names["len"], names["dimensions"]}
    cmps = []
    for bb in sorted(b.live_blocks):
        for st in b.stmts(bb):
            if st[0] == "A" and st[2][0] == "bin" and st[2][1] in ("Ne", "Eq"):
                locs = set()
                for op in st[2][2:4]:
                    locs |= backward_slice(b, op)[0]
                if want <= locs:
                    cmps.append(bb)
    if not cmps:
        r.instance("dimension-compared", False, "serialize_vector no longer compares `len` with `dimensions`", b.span)
        return
    # the block where the comparison is branched on
    sw = [bb for bb in cmps]
    uses = [c for bb, c in b.calls() if bb in b.live_blocks and any(
        a[0] in ("c", "m") and "CellWriter" in b.local_ty(a[1][0]) and "&" not in b.local_ty(a[1][0]) for a in c.args)]
    if not uses:
        raise AnchorLost("serialize_vector: no call consuming the CellWriter")
    for k, c in enumerate(uses):
        r.instance("dimension-check-before-writer#%d" % k, any(b.dominates(x, c.bb) for x in sw),
                   "the cell writer is used (%s) on a path that never compared the number of elements with the vector's dimension: for that "
                   "element type a sequence of the wrong length is accepted and sent" % (c.name or c.decl or "?").split("::")[-1], c.span)


TC_DECLS = ("scylla_cql_core::deserialize::value::DeserializeValue::type_check", "scylla_cql_core::deserialize::row::DeserializeRow::type_check")


def r11(ctx, facts):
    """`at any nesting depth`: a carrier's type_check delegates the check of its element / field types. The verdict of every
    delegated check must reach the caller: from the point where a delegated check is known to have FAILED no `Ok` may be
    returned (seed C17-k: the element error is built and dropped, the vector carrier accepts any element type)."""
    r = ctx.rule("R11", "a failed delegated type_check (element, key, value, field, column) is never turned into acceptance", floor=60)
    n = 0
    fam = ctx.facts("family")       # the generated type_checks of /verif/derive_family delegate per field / column in the same way
    pool = [(facts, x) for x in facts.bodies.mentioning('DeserializeValue::type_check', 'DeserializeRow::type_check')] + \
           [(fam, x) for x in fam.bodies.mentioning('DeserializeValue::type_check', 'DeserializeRow::type_check')]
    for facts_, b in pool:
        if b.crate not in ("scylla_cql_core", "derive_family") or "::promoted[" in b.path:
            continue
        calls = [c for bb, c in b.calls() if bb in b.live_blocks and (c.decl or "") in TC_DECLS]
        if not calls:
            continue
        df = df_of(b, facts_)
        oks = set()
        for bb in b.live_blocks:
            for st in b.stmts(bb):
                if st[0] == "A" and st[2][0] == "agg" and st[2][1][0] == "adt" and st[2][1][1] == "core::result::Result" and st[2][1][2] == "Ok" \
                        and (st[1][0] == 0 or "Result<" in b.local_ty(st[1][0])):
                    oks.add(bb)
        for k, c in enumerate(calls):
            n += 1
            key = "%s#%d" % (fn_short(b.path), k)
            if c.dest[0] == 0 and not c.dest[1]:
                r.instance("delegated-verdict-propagates:" + key, True, "returned directly", c.span, nontrivial=False)
                continue
            # locals that carry the verdict: the call's result, moved / mapped (map_err) / branched (`?`)
            carriers, work = {c.dest[0]}, [c.dest[0]]
            while work:
                l = work.pop()
                for ubb, kind, op in uses_of_local(b, l):
                    if kind[0] == "stmt" and kind[1][2][0] == "use" and not kind[1][1][1] and kind[1][1][0] not in carriers:
                        carriers.add(kind[1][1][0])
                        work.append(kind[1][1][0])
                    elif kind[0] == "arg":
                        t = b.term(ubb)
                        d = (t[1].get("def") or "").split("::")[-1]
                        if d in ("map_err", "branch", "or_else", "into", "from") and kind[1] == 0 and t[3][0] not in carriers:
                            carriers.add(t[3][0])
                            work.append(t[3][0])
            returned = 0 in carriers
            err_edges = []
            for sw in sorted(b.live_blocks):
                t = b.term(sw)
                if t[0] != "switch":
                    continue
                e = df.expr_of_operand(t[1])
                if e[0] == "disc" and e[1][0] in carriers and not e[1][1]:
                    edges = {int(v): tg for v, tg in t[2]}
                    tg = edges.get(1, t[3] if 1 not in edges and len(edges) == 1 and 0 in edges else None)
                    if tg is not None:
                        err_edges.append((sw, tg))
            if not err_edges and not returned:
                r.instance("delegated-verdict-propagates:" + key, False,
                           "the result of the delegated type_check is neither returned, nor `?`-propagated, nor matched on: a mismatch at this nesting level is ignored", c.span)
                continue
            leak = [tg for sw, tg in err_edges if (b.reachable_from(tg) | {tg}) & oks and not _loops_back_before(b, tg, c.bb, oks)]
            r.instance("delegated-verdict-propagates:" + key, not leak,
                       "after the delegated type_check has FAILED the function can still return Ok: the mismatch found at this nesting level is dropped "
                       "and bytes of another type are reinterpreted", c.span)
    if n == 0:
        raise AnchorLost("no delegated type_check call found")


def _loops_back_before(b, tg, call_bb, oks):
    """an Ok reachable from the error edge only by going through the delegated call again (next loop iteration) is not a leak"""
    return not ((b.reachable_from(tg, removed_nodes=[call_bb]) | {tg}) & oks)


def r12(ctx, facts):
    """shared with C01 (stated there as R13): the zero-length `empty` value is accepted exactly for the types that have it - bound
    to a UDT / collection / counter / duration column it is a mismatched value and must be refused"""
    from .c01 import r13 as c01_r13
    c01_r13(ctx, facts)


def check(ctx):
    facts = inline_view(ctx.facts("default"))
    config = ctx.alias.get("default", "default")   # the thorough tier re-runs this module over `full` and `unstable`
    for fn in (lambda c, f: r1_r2(c, f, config), r3, r4, r5, r6, r7, r8, r9, r10, r11, r12):
        try:
            fn(ctx, facts)
        except AnchorLost as ex:
            ctx.rule("ANCHOR", "anchors").fail("anchor-lost:%d" % len(ctx.rules), str(ex))
    ctx.assumptions += ["reference acceptance matrix transcribed from docs/source/data-types and frozen", "third-party SerializeValue/DeserializeValue impls out of scope"]
