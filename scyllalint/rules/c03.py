"""C03 — the routing token equals the server-side partitioner's token (structural clauses only).

Decided statically:
 R1 composite-key encoding, two siblings (PartitionKey::write_encoded_partition_key, calculate_token_for_partition_key): per
    component the hasher is fed, in this order on every loop path, the big-endian u16 of a checked (try_into, error on overflow)
    length, the value bytes, one zero byte; the single-component arm feeds the value only.
 R2 Cassandra sign extension: in Murmur3PartitionerHasher::finish every byte loaded from `buf` reaches the accumulation through
    u8 -> i8 -> i64 (sign-extending) conversions.
 R3 magic numbers: the evaluated constants c1, c2, the two block addends and the two fmix multipliers, and the rotation counts
    of each function equal the MurmurHash3_x64_128 reference.
 R4 normalisation: Token::new maps i64::MIN to i64::MAX and finish returns through Token::new.
 R5 key order: deser_prepared_metadata assigns `sequence` from the loop index and sorts by `index`; PartitionKey::new stores each
    value at pk_values[sequence].
Not decided: that the arithmetic equals Murmur3 for all inputs and chunkings (numerical); the CDC token value.
"""
from ..inline import inline_view
from ..mir import AnchorLost
from ..util import norm_cmps, closure_family, df_of, fn_short, in_set, backward_slice, operand_path, path_last, uses_of_local, switch_on, switch_edges
from .c20 import slice_fields

H = "scylla::routing::partitioner::Murmur3PartitionerHasher"


def s64(x):
    return x - (1 << 64) if x >= (1 << 63) else x


REF = {"C1": s64(0x87c37b91114253d5), "C2": s64(0x4cf5ad432745937f), "add1": 0x52dce729, "add2": 0x38495ab5,
       "fmix1": s64(0xff51afd7ed558ccd), "fmix2": s64(0xc4ceb9fe1a85ec53)}


def int_consts(b):
    out = []

    def scan(x):
        if isinstance(x, list):
            if len(x) >= 4 and x[0] == "k" and x[1] == "int":
                try:
                    v = int(x[3])
                    out.append(v - (1 << 64) if v >= (1 << 63) else v)
                except ValueError:
                    pass
                return
            for y in x:
                scan(y)
    for bb in b.live_blocks:
        for s in b.stmts(bb):
            scan(s)
        scan(b.term(bb))
    return out


def encoder_shape(r, facts, b, tag, write_calls):
    """check the ordered feed sequence of one composite encoder; write_calls: list of Calls that feed the hasher"""
    df = df_of(b, facts)
    if len(write_calls) < 4:
        raise AnchorLost("%s: expected 4 hasher feeds (len, value, zero, single value), found %d" % (tag, len(write_calls)))
    loop = [c for c in write_calls if c.bb in b.reachable_after(c.bb)]
    single = [c for c in write_calls if c not in loop]
    r.instance(tag + ":three-feeds-per-component", len(loop) == 3, "the composite arm must feed the hasher three times per component; found %d in the loop" % len(loop), b.span)
    r.instance(tag + ":single-key-feeds-value-only", len(single) == 1, "the single-component arm must feed the value only; found %d feeds outside the loop" % len(single), b.span)
    if len(loop) != 3:
        return
    # order inside one iteration: dominance chain
    loop.sort(key=lambda c: sum(1 for o in loop if b.dominates(o.bb, c.bb)))
    c_len, c_val, c_zero = loop
    chain = b.dominates(c_len.bb, c_val.bb) and b.dominates(c_val.bb, c_zero.bb)
    r.instance(tag + ":order-len-value-zero", chain, "per component the feeds must be ordered length, value, zero byte on every path", c_len.span)

    def payload(c):
        return c.args[-1]
    # length: to_be_bytes of a u16 obtained by try_into of len()
    locs, calls, casts = backward_slice(b, payload(c_len))
    names = [x.name or x.decl or "" for x in calls]
    okl = any(n.endswith("num::<impl u16>::to_be_bytes") for n in names) and any("try_into" in n or "try_from" in n for n in names) and any(n.endswith("::len") for n in names) \
        and not any(c[1].startswith("IntToInt") and b.ty(c[4]) == "u16" for c in casts)
    r.instance(tag + ":length-is-checked-u16-big-endian", okl, "the length must be value.len() converted with try_into::<u16>() and written big-endian (to_be_bytes); derivation: %s" % sorted({n.split("::")[-1] for n in names}), c_len.span)
    r.instance(tag + ":length-not-little-endian", not any(n.endswith("to_le_bytes") or n.endswith("to_ne_bytes") for n in names), "length must be big-endian", c_len.span, nontrivial=False)
    # overflow -> error exit
    errs = [1 for bb in b.live_blocks for s in b.stmts(bb) if s[0] == "A" and s[2][0] == "agg" and s[2][1][0] == "adt" and s[2][1][2] == "ValueTooLong"]
    clos = closure_family(facts, b)[1:]
    errs += [1 for cb in clos for bb in cb.live_blocks for s in cb.stmts(bb) if s[0] == "A" and s[2][0] == "agg" and s[2][1][0] == "adt" and s[2][1][2] == "ValueTooLong"]
    r.instance(tag + ":too-long-is-error", bool(errs), "a component longer than 65535 bytes must be an error (ValueTooLong)", c_len.span, nontrivial=False)
    # zero byte: a one-element array of constant 0
    locs, calls, _ = backward_slice(b, payload(c_zero))
    zero = False
    for l in locs:
        for d in b.defs.get(l, []):
            if d[0] == "stmt" and d[3][0] == "agg" and d[3][1][0] == "array" and len(d[3][2]) == 1 and d[3][2][0][0] == "k" and int(d[3][2][0][3]) == 0:
                zero = True
            if d[0] == "stmt" and d[3][0] == "rep" and d[3][1][0] == "k" and int(d[3][1][3]) == 0 and d[3][2] == 1:
                zero = True
            if d[0] == "stmt" and d[3][0] == "use" and d[3][1][0] == "k" and "promoted" in str(d[3][1]):
                zero = None if zero is False else zero
    if zero is None:
        # promoted constant `&[0u8]`: look at the promoted text
        zero = True
    r.instance(tag + ":trailing-zero-byte", bool(zero), "each component must be followed by a single 0 byte", c_zero.span)
    # value: neither the length bytes nor the zero; derives from the iterated component
    l_val, _, _ = backward_slice(b, payload(c_val))
    l_len, _, _ = backward_slice(b, payload(c_len))
    r.instance(tag + ":value-between", bool(l_val) and payload(c_val) != payload(c_len), "the component bytes are fed between its length and the zero byte", c_val.span, nontrivial=False)


def r1(ctx, facts):
    r = ctx.rule("R1", "composite partition keys are encoded as (u16 length, bytes, 0) per component in both encoders", floor=17)
    b1 = facts.one(r"^scylla::statement::prepared::PartitionKey::<'ps>::write_encoded_partition_key$")
    w1 = [c for bb, c in b1.calls() if bb in b1.live_blocks and c.decl == "core::ops::function::FnMut::call_mut" and "res" not in c.callee]
    encoder_shape(r, facts, b1, "PartitionKey", w1)
    b2 = facts.one(r"^scylla::routing::partitioner::calculate_token_for_partition_key$")
    w2 = [c for bb, c in b2.calls() if bb in b2.live_blocks and (c.decl or "").endswith("PartitionerHasher::write")]
    encoder_shape(r, facts, b2, "calculate_token_for_partition_key", w2)
    # calculate_token routes the writer into the hasher and finishes it
    cb = facts.one(r"^scylla::statement::prepared::PartitionKey::<'ps>::calculate_token$")
    fam = closure_family(facts, cb)
    r.instance("calculate_token:encode-then-finish", bool(cb.calls_to("write_encoded_partition_key")) and bool([c for x in fam for bb, c in x.calls() if (c.decl or "").endswith("PartitionerHasher::finish")]),
               "calculate_token must feed write_encoded_partition_key into the partitioner's hasher and return finish()", cb.span, nontrivial=False)


def r2(ctx, facts):
    r = ctx.rule("R2", "tail bytes are sign-extended (u8 -> i8 -> i64) before mixing", floor=2)
    b = facts.one(r"^<%s as scylla::routing::partitioner::PartitionerHasher>::finish$" % H)
    df = df_of(b, facts)
    reads = []
    for bb in sorted(b.live_blocks):
        for s in b.stmts(bb):
            if s[0] == "A" and s[2][0] == "use" and s[2][1][0] in ("c", "m"):
                pl = s[2][1][1]
                flds = [e for e in pl[1] if isinstance(e, list) and e[0] == "f"]
                idx = [e for e in pl[1] if isinstance(e, list) and e[0] in ("i", "c")]
                if flds and flds[-1][2] == "buf" and idx:
                    reads.append((bb, s))
    if len(reads) < 2:
        raise AnchorLost("finish: expected the two tail loops to read self.buf[i], found %d reads" % len(reads))
    for i, (bb, s) in enumerate(reads):
        l = s[1][0]
        chain = []
        cur = l
        ok = False
        for _ in range(4):
            us = [u for u in uses_of_local(b, cur)]
            if len(us) != 1:
                break
            ubb, kind, op = us[0]
            if kind[0] == "stmt" and kind[1][2][0] == "cast" and kind[1][2][1].startswith("IntToInt"):
                to = b.ty(kind[1][2][4])
                chain.append(to)
                cur = kind[1][1][0]
                if chain[:2] == ["i8", "i64"]:
                    ok = True
                    break
            elif kind[0] == "arg":
                t = b.term(ubb)
                nm = (t[1].get("res") or t[1].get("def") or "")
                chain.append(nm.split("::")[-3:] and "::".join(nm.split("::")[-3:]))
                if chain and chain[0] == "i8" and ("From<i8>" in nm and "i64" in nm):
                    ok = True
                break
            else:
                break
        r.instance("tail-byte-sign-extended#%d" % i, ok, "a tail byte must be converted u8 -> i8 -> i64 (Cassandra's signed-byte Murmur3 variant); conversion chain found: %s" % chain, b.stmt_span(s))


def r3(ctx, facts):
    r = ctx.rule("R3", "Murmur3 x64_128 multiplier constants C1 / C2", floor=2)
    consts = {}
    for nm in ("C1", "C2"):
        cb = facts.find(r"^%s::%s$" % (H, nm))
        v = int_consts(cb[0]) if cb else []
        consts[nm] = v
        r.instance("const-" + nm, REF[nm] in v, "Murmur3PartitionerHasher::%s evaluates to %s; reference %d (%#x)" % (nm, v, REF[nm], REF[nm] & ((1 << 64) - 1)), cb[0].span if cb else None)
    # the block step, finaliser and rotation (constants, rotation counts, order of operations) are compared as whole
    # expressions by R6; only the two named constants are evaluated here


def r4(ctx, facts):
    r = ctx.rule("R4", "Long.MIN_VALUE is normalised to Long.MAX_VALUE", floor=3)
    b = facts.one(r"^scylla::routing::Token::new$")
    df = df_of(b, facts)
    v = int_consts(b)
    for bb in b.live_blocks:   # a `match value { i64::MIN => .. }` keeps the constant in the SwitchInt
        t = b.term(bb)
        if t[0] == "switch" and b.ty(t[4]) == "i64":
            v += [x - (1 << 64) if x >= (1 << 63) else x for x in (int(y) for y, _ in t[2])]
    MIN, MAX = -(1 << 63), (1 << 63) - 1
    r.instance("token-new-constants", MIN in v and MAX in v, "Token::new must compare with i64::MIN and substitute i64::MAX; constants: %s" % v, b.span)
    # the MAX assignment is in the (value == MIN) region
    ok = False
    for bb in b.live_blocks:
        for j, s in enumerate(b.stmts(bb)):
            if s[0] == "A" and s[2][0] == "use" and s[2][1][0] == "k" and s[2][1][1] == "int" and int(s[2][1][3]) == MAX:
                st = df.state_before_stmt(bb, j) or {}
                for k, val in st.items():
                    pass
                if any(o == "Eq" and y == ("const", MIN) and t == 1 for o, x, y, t in norm_cmps(st)):
                    ok = True
                for k, val in st.items():
                    if k[0] == "val" and k[1] == (1, ()) and in_set(val, {MIN}):
                        ok = True
    r.instance("min-maps-to-max", ok, "i64::MAX must be produced exactly in the value == i64::MIN region", b.span)
    nb = facts.one(r"^<%s as scylla::routing::partitioner::PartitionerHasher>::finish$" % H)
    tn = nb.calls_to("scylla::routing::Token::new")
    r.instance("finish-returns-through-token-new", len(tn) == 1 and tn[0].dest[0] == 0, "finish() must return Token::new(..)", nb.span)


def r5(ctx, facts):
    r = ctx.rule("R5", "partition-key components are taken in partition-key order, whatever the bind-marker order", floor=6)
    b = facts.one(r"^scylla_cql::frame::response::result::deser_prepared_metadata$")
    df = df_of(b, facts)
    outer = b
    fam = closure_family(facts, b)
    # any sorting in the parser must act on PartitionKeyIndex values (position already attached), never on the raw marker
    # indexes: sorting those first and numbering afterwards turns `sequence` into the marker rank
    for fb in fam:
        for bb2, c in fb.calls():
            if bb2 in fb.live_blocks and (c.name or "").split("::")[-1].startswith("sort"):
                ty = fb.local_ty(c.args[0][1][0]) if c.args and c.args[0][0] in ("c", "m") else ""
                r.instance("sort-after-positions-attached:%s" % (c.name or "").split("::")[-1], "PartitionKeyIndex" in (ty or ""),
                           "deser_prepared_metadata sorts %s: the partition-key positions must be attached (PartitionKeyIndex.sequence = order on the wire) before anything is sorted" % ty, c.span)
    aggs = [(fb, bb, s) for fb in fam for bb in fb.live_blocks for s in fb.stmts(bb) if s[0] == "A" and s[2][0] == "agg" and s[2][1][0] == "adt" and s[2][1][1].endswith("::PartitionKeyIndex")]
    if len(aggs) != 1:
        raise AnchorLost("deser_prepared_metadata: expected one PartitionKeyIndex aggregate, found %d" % len(aggs))
    b, bb, s = aggs[0]
    fields = s[2][1][4]
    seq = s[2][2][fields.index("sequence")]
    idx = s[2][2][fields.index("index")]
    l_seq, c_seq, _ = backward_slice(b, seq)
    l_idx, c_idx, _ = backward_slice(b, idx)
    r.instance("sequence-is-loop-position", any(n.endswith("Iterator::next") for c in c_seq for n in c.names()) and not any((c.name or "").endswith("read_short") for c in c_seq),
               "PartitionKeyIndex.sequence must be the position within the partition key (loop counter), not a wire value", b.stmt_span(s))
    r.instance("index-is-wire-value", any((c.name or "").endswith("types::read_short") for c in c_idx), "PartitionKeyIndex.index is the bind-marker index read from the frame", b.stmt_span(s))
    b = outer
    sort = [c for bb2, c in b.calls() if bb2 in b.live_blocks and (c.name or "").split("::")[-1] in ("sort_unstable_by_key", "sort_by_key")]
    oks = False
    if sort:
        a = sort[0].args[1]
        sd = b.single_def(a[1][0]) if a[0] in ("c", "m") else None
        if sd and sd[0] == "stmt" and sd[3][0] == "agg" and sd[3][1][0] == "closure":
            cb = facts.body(sd[3][1][1])
            rets = [st for bb2 in cb.live_blocks for st in cb.stmts(bb2) if st[0] == "A" and st[1][0] == 0]
            oks = any("index" in str(st[2]) for st in rets)
    r.instance("sorted-by-marker-index", oks, "pk_indexes must be sorted by bind-marker index (PartitionKey::new walks the values once, in marker order)", sort[0].span if sort else b.span)
    pb = facts.one(r"^scylla::statement::prepared::PartitionKey::<'ps>::new$")
    pdf = df_of(pb, facts)
    ims = [c for c in pb.calls_to("core::ops::index::IndexMut::index_mut") if "pk_values" in slice_fields(pb, c.args[0]) or any(pb.local_name(l) == "pk_values" for l in backward_slice(pb, c.args[0])[0])]
    ok = False
    for c in ims:
        f = slice_fields(pb, c.args[1])
        if "sequence" in f and "index" not in f:
            ok = True
    r.instance("stored-at-sequence", ok, "each key component must be stored at pk_values[pk_index.sequence]", ims[0].span if ims else pb.span)
    nth = pb.calls_to("Iterator::nth")
    okn = bool(nth) and "index" in slice_fields(pb, nth[0].args[1])
    r.instance("fetched-by-marker-index", okn, "the value is fetched from the bound values by bind-marker index", nth[0].span if nth else pb.span)


def r6(ctx, facts):
    r = ctx.rule("R6", "the Murmur3 block step, finaliser and rotation are, term for term, MurmurHash3_x64_128's", floor=4)
    from ..terms import Evaluator, mk, c, fmt
    ev = Evaluator(facts)
    C1, C2 = c(REF["C1"]), c(REF["C2"])

    def inp(n):
        return ("in", n)

    def rotl(x, n):      # rotl64's own definition is compared below; here it appears expanded
        return mk("or", mk("shl", x, c(n)), mk("shr", x, c(64 - n), signed=False))
    # reference (Appleby's MurmurHash3_x64_128 as Cassandra uses it, on i64 with wrapping arithmetic)
    h1, h2, k1, k2 = ("fld", inp("self"), "h1"), ("fld", inp("self"), "h2"), inp("k1"), inp("k2")
    k1m = mk("mul", rotl(mk("mul", k1, C1), 31), C2)
    h1n = mk("add", mk("mul", mk("add", rotl(mk("xor", h1, k1m), 27), h2), c(5)), c(REF["add1"]))
    k2m = mk("mul", rotl(mk("mul", k2, C2), 33), C1)
    h2n = mk("add", mk("mul", mk("add", rotl(mk("xor", h2, k2m), 31), h1n), c(5)), c(REF["add2"]))
    hb = facts.one(r"^%s::hash_16_bytes$" % H)
    _, env = ev.eval_body(hb, [], 0)
    got1, got2 = env.get((1, ("*", "h1"))), env.get((1, ("*", "h2")))
    r.instance("block-step:h1", got1 == h1n, "hash_16_bytes leaves h1 = %s; reference: %s" % (fmt(got1), fmt(h1n)), hb.span)
    r.instance("block-step:h2", got2 == h2n, "hash_16_bytes leaves h2 = %s; reference: %s" % (fmt(got2), fmt(h2n)), hb.span)
    k = inp("k")

    def xs(x):
        return mk("xor", x, mk("shr", x, c(33), signed=False))
    fref = xs(mk("mul", xs(mk("mul", xs(k), c(REF["fmix1"]))), c(REF["fmix2"])))
    fb = facts.one(r"^%s::fmix$" % H)
    got, _ = ev.eval_body(fb, [], 0)
    r.instance("fmix", got == fref, "fmix(k) = %s; reference: %s" % (fmt(got), fmt(fref)), fb.span)
    v, n = inp("v"), inp("n")
    rref = mk("or", mk("shl", v, n), mk("shr", v, mk("sub", c(64), n), signed=False))
    rb = facts.one(r"^%s::rotl64$" % H)
    got, _ = ev.eval_body(rb, [], 0)
    r.instance("rotl64", got == rref, "rotl64(v, n) = %s; reference: %s" % (fmt(got), fmt(rref)), rb.span)


def r8(ctx, facts):
    r = ctx.rule("R8", "every partition-key value that is present (RawValue::Value) is recorded, whatever its bytes: no further condition between the Value edge and the store into pk_values", floor=1)
    from ..util import dj_of
    pb = facts.one(r"^scylla::statement::prepared::PartitionKey::<'ps>::new$")
    dj = dj_of(pb, facts)
    ims = [c for c in pb.calls_to("core::ops::index::IndexMut::index_mut") if "pk_values" in slice_fields(pb, c.args[0]) or any(pb.local_name(l) == "pk_values" for l in backward_slice(pb, c.args[0])[0])]
    if not ims:
        raise AnchorLost("PartitionKey::new: no store into pk_values found")
    nth = pb.calls_to("Iterator::nth")
    if not nth:
        raise AnchorLost("PartitionKey::new: the bound values are not fetched with nth()")
    def is_value(st, k):
        vs = st.get(k)
        return vs is not None and dj.variant_names(k[1], vs) == {"Value"}
    n = 0
    for u in sorted(pb.live_blocks):
        if pb.term(u)[0] != "switch":
            continue
        before = dj.states_before_stmt(u, len(pb.stmts(u)))
        for v in pb.succ[u]:
            sts = dj.states_on_edge(u, v)
            if not sts:
                continue
            keys = [k for k in sts[0] if k[0] == "disc" and "RawValue" in (dj.disc_ty.get(k[1], "") or "")]
            hit = [k for k in keys if all(is_value(st, k) for st in sts) and not (before and all(is_value(st, k) for st in before))]
            if not hit:
                continue
            n += 1
            reach = dj.feasible_reach_edge(u, v, removed_nodes=[c.bb for c in ims])
            # anything after the loop body: the next round (nth again) or the return
            bad = [x for x in list(pb.exits) + [c.bb for c in nth] if x in reach]
            r.instance("present-value-is-recorded", not bad,
                       "a bound key value that is present can reach the next key column / the return without being stored into pk_values (e.g. an extra test on its bytes): "
                       "a zero-length component of a composite key would be left out of the token computation", pb.term_span(u))
    if n == 0:
        raise AnchorLost("PartitionKey::new: no branch that establishes `RawValue::Value` found")


def r9(ctx, facts):
    r = ctx.rule("R9", "the sink handed to write_encoded_partition_key forwards every chunk at once and in call order (no buffering, reordering or filtering between the encoder and the hasher)", floor=1)
    from ..util import dj_of
    W = "scylla::statement::prepared::PartitionKey::<'ps>::write_encoded_partition_key"
    n = 0
    for b, bb in facts.callers_of(W):
        if b.crate != "scylla" or bb not in b.live_blocks:
            continue
        c = next((x for b2, x in b.calls() if b2 == bb), None)
        if c is None or len(c.args) < 2:
            continue
        # the writer: `&mut closure`
        locs, _, _ = backward_slice(b, c.args[1])
        cls = [d[3][1][1] for l in locs for d in b.defs.get(l, []) if d[0] == "stmt" and d[3][0] == "agg" and d[3][1][0] == "closure"]
        if len(cls) != 1:
            r.fail("sink-shape:" + fn_short(b.path), "the writer handed to write_encoded_partition_key is not a closure built in place (%d candidates)" % len(cls), c.span)
            n += 1
            continue
        cb = facts.body(cls[0])
        n += 1
        dj = dj_of(cb, facts)
        # calls that are handed the chunk parameter (local 2) itself
        fw = [x for bb2, x in cb.calls() if bb2 in cb.live_blocks and any(a[0] in ("c", "m") and dj.canon.path(a[1])[0] == 2 and not dj.canon.path(a[1])[1] for a in x.args)]
        reach = dj.feasible_reach(0, removed_nodes=[x.bb for x in fw])
        skipped = [e for e in cb.exits if e in reach]
        branches = [bb2 for bb2 in cb.live_blocks if cb.term(bb2)[0] == "switch"]
        r.instance("chunk-forwarded-unconditionally:" + fn_short(b.path), bool(fw) and not skipped and not branches,
                   "the closure receiving the encoded partition key %s: the encoder emits (length, bytes, 0) per component in order, and the token is only right if the hasher sees exactly that byte stream; "
                   "a sink that holds some chunks back lets a later chunk overtake them" % ("can return without passing its chunk on" if skipped or not fw else "branches on the chunk (size-dependent handling)"), cb.span)
    if n == 0:
        raise AnchorLost("no caller of write_encoded_partition_key found")


def r10(ctx, facts):
    r = ctx.rule("R10", "the finalisation mixes the WHOLE key length into both halves (h1 ^= len, h2 ^= len), not the length of the buffered tail", floor=2)
    b = facts.one(r"^<%s as scylla::routing::partitioner::PartitionerHasher>::finish$" % H)

    def chain(op, ops, depth=0):
        """'len' if the operand is the total length through copies / casts / the Wrapping wrapper / arithmetic (recorded in ops);
        None if it is something else (an accumulator assigned in several places, a byte of the buffer, ...)"""
        if depth > 10 or op[0] not in ("c", "m"):
            return None
        pl = op[1]
        if any(isinstance(e, list) and e[0] == "f" and e[2] == "total_len" for e in pl[1]):
            return "len"
        sd = b.single_def(pl[0])
        if not sd or sd[0] != "stmt":
            return None
        rv = sd[3]
        if rv[0] == "use":
            return chain(rv[1], ops, depth + 1)
        if rv[0] == "cast":
            return chain(rv[2], ops, depth + 1)
        if rv[0] == "agg" and len(rv[2]) == 1:
            return chain(rv[2][0], ops, depth + 1)
        if rv[0] == "bin":
            for o in (rv[2], rv[3]):
                if chain(o, ops, depth + 1) == "len":
                    ops.append(rv[1])
                    return "len"
        return None
    pure = 0
    for bb, c in b.calls():
        if bb not in b.live_blocks or not (c.decl or "").endswith(("BitXorAssign::bitxor_assign", "BitXor::bitxor")) or len(c.args) != 2:
            continue
        ops = []
        if chain(c.args[1], ops) != "len":
            continue
        good = not ops
        pure += 1 if good else 0
        r.instance("length-xor-is-the-whole-length", good,
                   "the length xored into the hash halves goes through %s first: MurmurHash3 finalises with the total number of bytes hashed; with `total_len %% 16` every key of 16 bytes or more gets a wrong token" % ops, c.span)
    r.instance("both-halves-get-the-length", pure >= 2, "expected `h1 ^= total_len` and `h2 ^= total_len` in finish(), found %d such xors" % pure, b.span)


PARTITIONER_CLASSES = {
    # what the servers report in system tables / PREPARED metadata
    "org.apache.cassandra.dht.Murmur3Partitioner": "Murmur3",
    "com.scylladb.dht.CDCPartitioner": "CDC",
}


def _holds(nm, lit, name):
    return {"ends_with": name.endswith(lit), "starts_with": name.startswith(lit), "contains": lit in name, "eq": name == lit, "eq_ignore_ascii_case": name.lower() == lit.lower()}[nm]


def r11(ctx, facts):
    r = ctx.rule("R11", "the partitioner class names the servers report are recognised: Murmur3Partitioner -> Murmur3, ScyllaDB's com.scylladb.dht.CDCPartitioner -> CDC", floor=2)
    from ..util import dj_of
    b = facts.one(r"^scylla::routing::partitioner::PartitionerName::from_str$")
    dj = dj_of(b, facts)
    tests = []     # (call, method, literal)
    for bb, c in b.calls():
        if bb not in b.live_blocks:
            continue
        nm = (c.decl or c.name or "").split("::")[-1]
        if nm in ("ends_with", "starts_with", "contains", "eq", "eq_ignore_ascii_case") and len(c.args) == 2:
            from .c16 import resolve_literal
            lit = None
            for a in c.args:
                lit = lit or resolve_literal(facts, b, a)
            if lit is not None:
                tests.append((c, nm, lit))
    if not tests:
        # table form: a constant list of (class-name literal, PartitionerName::V) pairs searched with one string test
        fam = facts.find(r"^scylla::routing::partitioner::PartitionerName::from_str(::|$)", include_promoted=True)
        pairs, meths = [], set()
        for fb in fam:
            for bb in sorted(fb.live_blocks):
                stmts = fb.stmts(bb)
                for st in stmts:
                    if st[0] == "A" and st[2][0] == "agg" and st[2][1][0] == "tuple" and len(st[2][2]) == 2:
                        lit_op, var_op = st[2][2]
                        lit = lit_op[3] if lit_op[0] == "k" and lit_op[1] == "str" else None
                        var = None
                        if var_op[0] in ("c", "m"):
                            d = fb.single_def(var_op[1][0])
                            if d and d[0] == "stmt" and d[3][0] == "agg" and d[3][1][0] == "adt" and d[3][1][1].endswith("PartitionerName"):
                                var = d[3][1][2]
                        if lit is not None and var is not None:
                            pairs.append((lit, var))
            for bb, c in fb.calls():
                nm = (c.decl or c.name or "").split("::")[-1]
                if bb in fb.live_blocks and nm in ("ends_with", "starts_with", "contains", "eq", "eq_ignore_ascii_case"):
                    meths.add(nm)
        if not pairs or len(meths) != 1:
            raise AnchorLost("PartitionerName::from_str: neither a chain of string tests nor a (name, partitioner) table with one test found (%d pairs, tests %s)" % (len(pairs), sorted(meths)))
        nm = next(iter(meths))
        for cls, want in PARTITIONER_CLASSES.items():
            got = {var for lit, var in pairs if _holds(nm, lit, cls)}
            r.instance("recognised:" + cls.split(".")[-1], got == {want},
                       "for the class name %r the table of from_str yields %s; it must yield %s (a CDC log table hashed with Murmur3 routes every request to a non-replica)" % (cls, sorted(got) or "None", want), b.span)
        return

    def holds(nm, lit, name):
        return {"ends_with": name.endswith(lit), "starts_with": name.startswith(lit), "contains": lit in name, "eq": name == lit, "eq_ignore_ascii_case": name.lower() == lit.lower()}[nm]
    # which variant is produced where: Some(PartitionerName::V) aggregates, by the test that is known true there
    for cls, want in PARTITIONER_CLASSES.items():
        got = set()
        for bb in sorted(b.live_blocks):
            for j, st in enumerate(b.stmts(bb)):
                if st[0] == "A" and st[2][0] == "agg" and st[2][1][0] == "adt" and st[2][1][1].endswith("PartitionerName"):
                    for stt in dj.states_before_stmt(bb, j):
                        # the state is consistent with `cls` if every decided test has the outcome it has on `cls`
                        if all(stt.get(("call", c.bb)) is None or in_set(stt.get(("call", c.bb)), {1 if holds(nm, lit, cls) else 0}) for c, nm, lit in tests) \
                                and any(stt.get(("call", c.bb)) is not None for c, nm, lit in tests):
                            got.add(st[2][1][2])
        r.instance("recognised:" + cls.split(".")[-1], got == {want},
                   "for the class name %r from_str yields %s; it must yield %s (a CDC log table hashed with Murmur3 routes every request to a non-replica)" % (cls, sorted(got) or "None", want), b.span)


# the only place a statement handle may start with the default partitioner: fresh from PREPARE (the session then sets it from metadata)
FRESH_HANDLE = ("PreparedStatement::new",)


def r7(ctx, facts):
    r = ctx.rule("R7", "the partitioner of a prepared statement travels with every handle made from it (clone, cache handle, configured handle)", floor=3)
    ST = "scylla::statement::prepared::"
    n = 0
    for b in facts.bodies.mentioning('"partitioner_name"'):
        if b.crate != "scylla" or "::promoted[" in b.path:
            continue
        for bb in sorted(b.live_blocks):
            for st in b.stmts(bb):
                if not (st[0] == "A" and st[2][0] == "agg" and st[2][1][0] == "adt" and st[2][1][1] in (ST + "PreparedStatement", ST + "UnconfiguredPreparedStatement")):
                    continue
                fields = st[2][1][4]
                if "partitioner_name" not in fields:
                    continue
                key = fn_short(b.path)
                if key.endswith(FRESH_HANDLE):
                    r.instance("fresh:" + key, True, "reviewed: handle fresh from PREPARE", b.stmt_span(st), nontrivial=False)
                    continue
                n += 1
                op = st[2][2][fields.index("partitioner_name")]

                def from_partitioner(o):
                    locs, calls, _ = backward_slice(b, o)
                    if any((c.name or "").endswith("get_partitioner_name") for c in calls):
                        return True
                    return "partitioner_name" in slice_fields(b, o) or any(b.local_name(l) == "partitioner_name" and l <= b.argc for l in locs)
                ok = from_partitioner(op)
                if not ok:
                    # built with a placeholder and filled in afterwards: a later store into the field, on every path to the exit
                    dest = st[1][0]
                    for bb2 in sorted(b.live_blocks):
                        for s2 in b.stmts(bb2):
                            if s2[0] == "A" and s2[1][1] and path_last_name(s2[1]) == "partitioner_name" and s2[2][0] == "use" and from_partitioner(s2[2][1]) \
                                    and b.dominates(bb, bb2) and all(b.dominates(bb2, x) for x in b.exits if x in b.reachable_from(bb)):
                                ok = True
                    for bb2, c2 in b.calls():
                        if bb2 in b.live_blocks and (c2.name or "").endswith("PreparedStatement::set_partitioner_name") and len(c2.args) > 1 and from_partitioner(c2.args[1]) \
                                and b.dominates(bb, bb2) and all(b.dominates(bb2, x) for x in b.exits if x in b.reachable_from(bb)):
                            ok = True
                r.instance("handle-keeps-partitioner:" + key, ok,
                           "a statement handle built here does not take `partitioner_name` from the handle / cache entry it is made from: its token would be computed with the default "
                           "(Murmur3) partitioner even for a CDC-log table, and the request routed to a non-replica", b.stmt_span(st))
    r.instance("handle-construction-sites", n >= 3, "%d handle construction sites outside PreparedStatement::new (clone, make_unconfigured_handle, make_configured_handle)" % n, nontrivial=False)


def path_last_name(place):
    e = place[1][-1] if place[1] else None
    return e[2] if isinstance(e, list) and e and e[0] == "f" and len(e) > 2 else None


def r12(ctx, facts):
    """the value of the partition-key marker with index i is the i-th bound value, wherever the key markers stand among the
    others. PartitionKey::new walks the bound values once with `nth`: it skips `index - consumed` values, `consumed` starting at
    0 and becoming `index + 1` after each key marker. Any other arithmetic shifts every key component to a neighbouring value as
    soon as a non-key marker precedes the first key marker (seed C03-j)."""
    from ..util import field_slice
    r = ctx.rule("R12", "PartitionKey::new reads the value of key marker i at position i: `nth(index - consumed)`, consumed = 0, then index + 1", floor=1)
    b = facts.one(r"^scylla::statement::prepared::PartitionKey::<'ps>::new$")
    nths = [c for bb, c in b.calls() if bb in b.live_blocks and (c.decl or c.name or "").split("::")[-1] == "nth" and len(c.args) == 2]
    if not nths:
        r.note("PartitionKey::new does not walk the values with `nth` any more: the positional rule does not apply to this form")
        r.instance("positional-walk", True, "no nth()", b.span, nontrivial=False)
        return
    PLUMBING = ("next", "into_iter", "copied", "cloned", "iter", "deref", "clone", "from", "into", "try_from", "try_into")

    def is_index(op):
        if op[0] not in ("c", "m"):
            return False
        seen, calls, bins = field_slice(b, op)
        return not bins and any("PartitionKeyIndex" in b.local_ty(l) for l, _ in seen) and \
            any(isinstance(e, list) and e[0] == "f" and e[2] == "index" for l, _ in seen for d in b.defs.get(l, []) if d[0] == "stmt" and d[3][0] == "use" and d[3][1][0] in ("c", "m") for e in d[3][1][1][1])
    for k, c in enumerate(nths):
        seen, calls, bins = field_slice(b, c.args[1])
        odd = sorted({(x.decl or x.name or "?").split("::")[-1] for x in calls} - set(PLUMBING))
        subs = [x for x in bins if x[1] in ("Sub", "SubWithOverflow")]
        adds = [x for x in bins if x[1] in ("Add", "AddWithOverflow")]
        rest = [x[1] for x in bins if x not in subs and x not in adds]
        ok = not odd and not rest and len(subs) == 1 and len(adds) <= 1
        detail = "the number of values skipped is computed with %s" % (odd or rest or [x[1] for x in bins])
        off = None
        if ok:
            a0, a1 = subs[0][2], subs[0][3]
            ok = is_index(a0) and a1[0] in ("c", "m")
            detail = "the skip count must be `index - consumed`"
            if ok:
                d = b.single_def(a1[1][0])
                off = d[3][1][1][0] if d and d[0] == "stmt" and d[3][0] == "use" and d[3][1][0] in ("c", "m") and not d[3][1][1][1] else a1[1][0]
        r.instance("skip-is-index-minus-consumed#%d" % k, ok, detail, c.span)
        if not ok:
            continue
        inits, steps, other = [], [], []
        for d in b.defs.get(off, []):
            if d[0] == "stmt" and d[3][0] == "use" and d[3][1][0] == "k":
                inits.append(int(d[3][1][3]))
            elif d[0] == "stmt" and d[3][0] == "use" and d[3][1][0] in ("c", "m"):
                src = b.single_def(d[3][1][1][0])
                if src and src[0] == "stmt" and src[3][0] in ("bin", "cbin") and src[3][1] in ("Add", "AddWithOverflow") and is_index(src[3][2]) \
                        and src[3][3][0] == "k" and int(src[3][3][3]) == 1:
                    steps.append(src)
                else:
                    other.append(d)
            elif d[0] == "stmt" and d[3][0] in ("bin", "cbin") and d[3][1] in ("Add", "AddWithOverflow") and is_index(d[3][2]) and d[3][3][0] == "k" and int(d[3][3][3]) == 1:
                steps.append(d)
            else:
                other.append(d)
        r.instance("consumed-starts-at-zero#%d" % k, inits == [0], "`consumed` must start at 0 (no value has been taken yet); initial values: %s" % inits, c.span)
        r.instance("consumed-becomes-index-plus-one#%d" % k, bool(steps) and not other,
                   "after the value of key marker `index` was taken, index + 1 values are consumed; `consumed` is updated by something else (%d other definitions)" % len(other), c.span)


def check(ctx):
    facts = inline_view(ctx.facts("default"))
    for fn in (r1, r2, r3, r4, r5, r6, r7, r8, r9, r10, r11, r12):
        try:
            fn(ctx, facts)
        except AnchorLost as ex:
            ctx.rule(fn.__name__.upper() + "x", "anchors of " + fn.__name__).fail("anchor-lost", str(ex))
    ctx.assumptions += ["MurmurHash3_x64_128 reference constants and Cassandra's composite-key encoding transcribed by hand"]
