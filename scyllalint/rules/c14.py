"""C14 — prepared statements survive server-side eviction transparently and faithfully.

Decided statically:
 R1 id check: in Connection::reprepare every Ok exit lies in the region where the re-prepared id was compared equal to
    previous_prepared.get_id(); the unequal outcome is an error exit building RepreparedIdChanged.
 R2 resend shape: in execute_raw_with_consistency the second EXECUTE is sent only on the Unprepared arm, after the awaited
    reprepare returned Ok; the re-sent frame takes id, values, consistency, serial consistency, page size, paging state and
    timestamp from the first frame (no regeneration); in batch_with_consistency the loop re-sends only after an awaited
    reprepare Ok, and an unknown statement id is an error exit.
 R3 ask/decode pairing: at each EXECUTE send, the frame's skip_metadata and result_metadata_id and the decode-metadata
    argument of send_request come from the same calculate_cached_metadata_params result, computed after the latest
    get_current_result_metadata (for the resend: after reprepare); inside it cached_metadata is `skip_metadata.then_some(..)`.
 R4 who updates the cache: update_current_result_metadata is called only from reprepare and handle_result_metadata_new_id; the
    latter is called on every EXECUTE response.
Not decided: server histories; that the decoded rows are right (C01).
"""
from ..inline import inline_view
from ..mir import AnchorLost
from ..util import dj_of, truth_edges, bool_edges, df_of, fn_short, in_set, backward_slice, callers_keys, operand_path, path_last, switch_on, switch_edges
from .c10 import ok_sites
from .c20 import slice_fields

CN = "scylla::network::connection::Connection::"


def r1(ctx, facts):
    r = ctx.rule("R1", "reprepare succeeds only if the statement id is unchanged", floor=3)
    b = facts.one(r"^scylla::network::connection::Connection::reprepare::\{closure#0\}$")
    df = df_of(b, facts)
    cmps = []
    for bb, c in b.calls():
        if bb in b.live_blocks and c.decl in ("core::cmp::PartialEq::ne", "core::cmp::PartialEq::eq"):
            _, calls0, _ = backward_slice(b, c.args[0])
            _, calls1, _ = backward_slice(b, c.args[1])
            g0 = [x for x in calls0 if (x.name or "").endswith("::get_id")]
            g1 = [x for x in calls1 if (x.name or "").endswith("::get_id")]
            if g0 and g1:
                cmps.append((c, g0[0], g1[0]))
    if len(cmps) != 1:
        raise AnchorLost("reprepare: expected one comparison between two get_id() results, found %d" % len(cmps))
    c, g0, g1 = cmps[0]
    kinds = sorted(x.name.split("::")[-3] + "::get_id" for x in (g0, g1))
    r.instance("compares-new-id-with-previous", {"RawPreparedStatementData", "PreparedStatement"} <= {x.name.split("::")[-2] for x in (g0, g1)} or len({g0.name, g1.name}) == 2,
               "the comparison must be between the re-prepared statement's id and previous_prepared.get_id(); compares %s" % kinds, c.span)
    want = 0 if c.decl.endswith("::ne") else 1
    oks = ok_sites(b)
    if not oks:
        raise AnchorLost("reprepare has no Ok exit")
    good = True
    for bb, s in oks:
        st = df.state_in.get(bb) or {}
        if not in_set(st.get(("call", c.bb)), {want}):
            good = False
    r.instance("ok-only-if-id-equal", good, "every Ok(()) of reprepare must be in the ids-equal region", b.stmt_span(oks[0][1]))
    sws = truth_edges(b, df, ("call", c.bb))
    okerr = False
    if len(sws) == 1:
        _sw, tt, ff = sws[0]
        diff_tg = tt if want == 0 else ff
        reach = b.reachable_from(diff_tg)
        errs = [1 for x in reach for s in b.stmts(x) if s[0] == "A" and s[2][0] == "agg" and s[2][1][0] == "adt" and s[2][1][2] == "RepreparedIdChanged"]
        okerr = bool(errs) and not any(bb in reach for bb, _ in oks)
    r.instance("different-id-is-error", okerr, "a changed id must produce RequestAttemptError::RepreparedIdChanged and never Ok", c.span)


def r2_r3(ctx, facts):
    r2 = ctx.rule("R2", "the EXECUTE re-sent after UNPREPARED repeats the original request", floor=10)
    r3 = ctx.rule("R3", "skip_metadata / metadata id sent and the metadata used for decoding come from one snapshot", floor=14)
    b = facts.one(r"^scylla::network::connection::Connection::execute_raw_with_consistency::\{closure#0\}$")
    df = df_of(b, facts)
    sends = sorted(b.calls_to(CN + "send_request"), key=lambda c: (0 if not any(True for _ in []) else 0, c.bb))
    reps = b.calls_to(CN + "reprepare")
    calcs = b.calls_to(CN + "calculate_cached_metadata_params")
    gets = b.calls_to("PreparedStatement::get_current_result_metadata")
    if len(sends) != 2 or len(reps) != 1 or len(calcs) != 2:
        raise AnchorLost("execute_raw_with_consistency: expected 2 send_request, 1 reprepare, 2 calculate_cached_metadata_params; found %d/%d/%d" % (len(sends), len(reps), len(calcs)))
    rep = reps[0]
    s1, s2 = (sends[0], sends[1]) if b.dominates(sends[0].bb, sends[1].bb) else (sends[1], sends[0])
    c1, c2 = (calcs[0], calcs[1]) if b.dominates(calcs[0].bb, calcs[1].bb) else (calcs[1], calcs[0])
    r2.instance("resend-after-first-send", b.dominates(s1.bb, s2.bb) and s1.bb != s2.bb, "the second send must follow the first", s2.span)
    # Unprepared arm
    st = df.state_in.get(s2.bb) or {}
    unp = [k for k, v in st.items() if k[0] == "disc" and "DbError" in df.disc_ty.get(k[1], "") and df.variant_names(k[1], v) == {"Unprepared"}]
    r2.instance("resend-only-on-unprepared", bool(unp), "the re-send must be in the DbError::Unprepared arm; state: " + df.fmt_state(st)[:300], s2.span)
    # after awaited reprepare Ok
    cont = False
    for k, v in st.items():
        if k[0] == "disc" and k[1][1] == () and in_set(v, {0}):
            sd = b.single_def(k[1][0])
            if sd and sd[0] == "call" and sd[2].is_("core::ops::try_trait::Try::branch"):
                locs, calls, _ = backward_slice(b, sd[2].args[0])
                if rep.dest[0] in locs:
                    cont = True
    r2.instance("resend-after-reprepare-ok", b.dominates(rep.bb, s2.bb) and cont, "the re-send must follow an awaited reprepare() that returned Ok", s2.span)
    _every_unprepared(r2, facts, b, rep, [], "execution")
    # frames
    EX = "scylla_cql::frame::request::execute::ExecuteV2"
    QP = "scylla_cql::frame::request::query::QueryParameters"
    frames = [(bb, s) for bb in sorted(b.live_blocks) for s in b.stmts(bb) if s[0] == "A" and s[2][0] == "agg" and s[2][1][0] == "adt" and s[2][1][1] == EX]
    params = [(bb, s) for bb in sorted(b.live_blocks) for s in b.stmts(bb) if s[0] == "A" and s[2][0] == "agg" and s[2][1][0] == "adt" and s[2][1][1] == QP]
    if len(frames) != 2 or len(params) != 2:
        raise AnchorLost("expected two ExecuteV2 and two QueryParameters aggregates, found %d/%d" % (len(frames), len(params)))
    f1, f2 = (frames[0], frames[1]) if b.dominates(frames[0][0], frames[1][0]) else (frames[1], frames[0])
    p1, p2 = (params[0], params[1]) if b.dominates(params[0][0], params[1][0]) else (params[1], params[0])
    frame1_local = f1[1][1][0]

    def fld(agg, name):
        return agg[1][2][2][agg[1][2][1][4].index(name)]
    # re-sent frame: id from frame 1
    e = df.expr_of_operand(fld(f2, "id"))
    r2.instance("resend:id", e == ("val", (frame1_local, ("id",))), "the re-sent id must be the first frame's id; it is " + df.fmt_expr(e), b.stmt_span(f2[1]))
    def origins(op):
        """(captured request arguments, producing calls) an operand derives from"""
        if op[0] == "k":
            return (frozenset(), frozenset(["const:%s" % op[3]]))
        locs, calls, _ = backward_slice(b, op)
        ups = set()

        def scan(x):
            if isinstance(x, list):
                if len(x) == 2 and x[0] == 1 and isinstance(x[1], list) and x[1] and isinstance(x[1][0], list) and x[1][0][0] == "f":
                    ups.add(x[1][0][1])
                for y in x:
                    scan(y)
        scan(op)
        for l in locs:
            for d in b.defs.get(l, []):
                if d[0] == "stmt":
                    scan(d[3])
                elif d[0] == "call":
                    for a in d[2].args:
                        scan(a)
        trivial = ("::into", "::from", "::map", "::clone", "::as_ref", "::deref", "::borrow", "::to_owned")
        names = frozenset(c.name or c.decl or "?" for c in calls if not (c.name or c.decl or "").endswith(trivial))
        return (frozenset(ups), names)
    for name in ("consistency", "serial_consistency", "values", "page_size", "paging_state", "timestamp"):
        op2 = fld(p2, name)
        e = df.expr_of_operand(op2)
        same_field = e == ("val", (frame1_local, ("parameters", name)))
        same_origin = origins(op2) == origins(fld(p1, name))
        r2.instance("resend:" + name, same_field or same_origin,
                    "the re-sent `%s` must be the first frame's `%s` or be built from the same request argument (not regenerated / defaulted); it is %s from %s, first frame used %s"
                    % (name, name, df.fmt_expr(e), _fmt_or(origins(op2)), _fmt_or(origins(fld(p1, name)))), b.stmt_span(p2[1]))
    # R3 pairing
    for tag, send, calc, frame, par in (("first", s1, c1, f1, p1), ("resend", s2, c2, f2, p2)):
        cl = calc.dest[0]
        e = df.expr_of_operand(fld(par, "skip_metadata"))
        r3.instance(tag + ":skip_metadata-from-snapshot", e == ("val", (cl, ("skip_metadata",))), "frame.skip_metadata must come from this send's calculate_cached_metadata_params; it is " + df.fmt_expr(e), b.stmt_span(par[1]))
        locs, _, _ = backward_slice(b, fld(frame, "result_metadata_id"))
        r3.instance(tag + ":metadata-id-from-snapshot", cl in locs and not (({c1.dest[0], c2.dest[0]} - {cl}) & locs), "frame.result_metadata_id must come from this send's snapshot only", b.stmt_span(frame[1]))
        e = df.expr_of_operand(send.args[4])
        r3.instance(tag + ":decode-metadata-from-snapshot", e == ("val", (cl, ("cached_metadata",))),
                    "the metadata handed to send_request for decoding must be this send's snapshot .cached_metadata; it is " + df.fmt_expr(e), send.span)
        # the frame sent is this frame
        fl, _, _ = backward_slice(b, send.args[1])
        r3.instance(tag + ":sends-its-frame", frame[1][1][0] in fl, "send_request must be given the frame built for it", send.span)
    r3.instance("resend-snapshot-after-reprepare", b.dominates(rep.bb, c2.bb), "the resend's metadata snapshot must be taken after reprepare (it may have changed the metadata)", c2.span)
    # each calc uses the metadata fetched right before it
    for tag, calc in (("first", c1), ("resend", c2)):
        locs, calls, _ = backward_slice(b, calc.args[2])
        g = [x for x in calls if (x.name or "").endswith("get_current_result_metadata")]
        okg = bool(g) and all(b.dominates(x.bb, calc.bb) for x in g) and (tag == "first" or all(b.dominates(rep.bb, x.bb) for x in g))
        r3.instance(tag + ":snapshot-of-current-metadata", okg, "calculate_cached_metadata_params must be given a fresh get_current_result_metadata()", calc.span)
    # inside calculate_cached_metadata_params
    cb = facts.one(r"^scylla::network::connection::Connection::calculate_cached_metadata_params$")
    cdf = df_of(cb, facts)
    aggs = [(bb, s) for bb in cb.live_blocks for s in cb.stmts(bb) if s[0] == "A" and s[2][0] == "agg" and s[2][1][0] == "adt" and s[2][1][1].endswith("CachedMetadataParameters")]
    if len(aggs) != 1:
        raise AnchorLost("calculate_cached_metadata_params: expected one CachedMetadataParameters aggregate")
    s = aggs[0][1]
    fields = s[2][1][4]
    cm = s[2][2][fields.index("cached_metadata")]
    sk = s[2][2][fields.index("skip_metadata")]
    ts = cb.calls_to("bool::then_some", "<impl bool>::then_some")
    ok = False
    if ts:
        l1, _, _ = backward_slice(cb, cm)
        ok = ts[0].dest[0] in l1 and cdf.expr_of_operand(ts[0].args[0]) == cdf.expr_of_operand(sk)
    r3.instance("cached-metadata-iff-skip", ok, "cached_metadata must be `skip_metadata.then_some(statement_metadata)` for the very skip_metadata that is sent", cb.stmt_span(s))
    # R4 part: handle_result_metadata_new_id after each send
    hs = b.calls_to(CN + "handle_result_metadata_new_id")
    # the post-processing of a response may have been moved into a NEW `async fn` (not spliced by the inliner): a call of such a
    # helper whose future calls handle_result_metadata_new_id on one of its parameters counts as that call, on that argument
    from ..util import new_async_helpers
    class _Pseudo:
        pass
    for hb, ops in new_async_helpers(facts, b):
        for hc in hb.calls_to(CN + "handle_result_metadata_new_id"):
            locs = backward_slice(hb, hc.args[1])[0]
            # upvar k of the helper's future = its k-th parameter = ops[k]
            idx = None
            for bbx in hb.live_blocks:
                for stx in hb.stmts(bbx):
                    if stx[0] == "A" and stx[1][0] in locs:
                        for pl in _rv_places14(stx[2]):
                            if pl[0] == 1:
                                f = [e for e in pl[1] if isinstance(e, list) and e[0] == "f"]
                                if f:
                                    idx = f[0][1]
            # every place where the helper's future is built (the async fn's own body is spliced into b by the inliner, so the
            # coroutine aggregate and its operands - the actual arguments - are visible here)
            for bb0 in sorted(b.live_blocks):
                for st0 in b.stmts(bb0):
                    if st0[0] == "A" and st0[2][0] == "agg" and st0[2][1][0] == "coroutine" and st0[2][1][1] == hb.path and idx is not None and idx < len(st0[2][2]):
                        if any(getattr(h, "bb", None) == bb0 and isinstance(h, _Pseudo) for h in hs):
                            continue
                        ps = _Pseudo()
                        ps.bb, ps.args, ps.span = bb0, [None, st0[2][2][idx]], b.stmt_span(st0)
                        hs = hs + [ps]
    for tag, send in (("first", s1), ("resend", s2)):
        mine = [h for h in hs if b.dominates(send.bb, h.bb) and send.dest[0] in backward_slice(b, h.args[1])[0] | set()]
        # the response local flows through the await; accept dominance + slice containing the send's future
        ok = any(b.dominates(send.bb, h.bb) for h in hs) and (tag == "resend" or any(not b.dominates(s2.bb, h.bb) for h in hs))
        r3.instance(tag + ":new-metadata-id-recorded", ok, "each EXECUTE response must be passed to handle_result_metadata_new_id", send.span, nontrivial=False)
    # ... and what it is handed is the answer to the LATEST EXECUTE sent on that path, not an earlier one
    for h in hs:
        latest = s2 if b.dominates(s2.bb, h.bb) else (s1 if b.dominates(s1.bb, h.bb) else None)
        if latest is None:
            r3.fail("metadata-id-from-latest-response", "handle_result_metadata_new_id is called where no EXECUTE has been sent yet", h.span)
            continue
        locs = backward_slice(b, h.args[1])[0]
        other = s1 if latest is s2 else s2
        ok = latest.dest[0] in locs and not (other.dest[0] in locs and latest is s2 and latest.dest[0] not in locs)
        r3.instance("metadata-id-from-latest-response:" + ("resend" if latest is s2 else "first"), ok,
                    "handle_result_metadata_new_id is handed a response that is not the answer to the EXECUTE just sent on this path (after the re-sent EXECUTE it must look at the NEW response): "
                    "a metadata id announced with the re-sent EXECUTE's result is never stored, and the next execution presents the stale id", h.span)
    return b


def _rv_places14(rv):
    from ..util import _rv_places
    return _rv_places(rv)


def r5(ctx, facts):
    r = ctx.rule("R5", "result metadata is skipped only on the user's opt-in or when this connection can be told a stale id; never for 0-column metadata", floor=2)
    cb = facts.one(r"^scylla::network::connection::Connection::calculate_cached_metadata_params$")
    dj = dj_of(cb, facts)
    df = df_of(cb, facts)
    aggs = [(bb, j, s) for bb in sorted(cb.live_blocks) for j, s in enumerate(cb.stmts(bb))
            if s[0] == "A" and s[2][0] == "agg" and s[2][1][0] == "adt" and s[2][1][1].endswith("CachedMetadataParameters")]
    if len(aggs) != 1:
        raise AnchorLost("calculate_cached_metadata_params: expected one CachedMetadataParameters aggregate")
    bb, j, s = aggs[0]
    sk = s[2][2][s[2][1][4].index("skip_metadata")]
    use = cb.calls_to("PreparedStatement::get_use_cached_result_metadata")
    cols = cb.calls_to("ResultMetadata::col_count", "ResultMetadata::<'a>::col_count")
    if len(use) != 1 or len(cols) != 1:
        raise AnchorLost("calculate_cached_metadata_params: expected one get_use_cached_result_metadata and one col_count call (%d/%d)" % (len(use), len(cols)))
    USE, COL = ("call", use[0].bb), ("call", cols[0].bb)
    e = dj.expr_of_operand(sk)

    def is_ext(x):
        return x is not None and x[0] == "val" and x[1][1][-1:] == ("scylla_metadata_id_supported",)

    def ext_of(stt):
        for k, v in stt.items():
            if is_ext(k):
                return 1 if in_set(v, {1}) else 0 if in_set(v, {0}) else None
        return None
    bad, n = [], 0
    for stt in dj.states_before_stmt(bb, j):
        n += 1
        v = dj.eval_in(stt, e) if e is not None else None
        u = 1 if in_set(stt.get(USE), {1}) else 0 if in_set(stt.get(USE), {0}) else None
        x = ext_of(stt)
        cv = stt.get(COL)
        zero = not (cv is not None and ((cv[0] == "notin" and 0 in cv[1]) or (cv[0] == "in" and 0 not in cv[1])))
        if v == 0:
            continue
        if zero:
            bad.append("may skip metadata although the cached metadata has 0 columns")
        elif v == 1:
            if not (u == 1 or x == 1):
                bad.append("skips with use_cached_result_metadata=%s extension=%s" % (u, x))
        elif not (is_ext(e) or is_ext(_resolve(dj, stt, e)) or e == USE):
            bad.append("skip_metadata is %s (use_cached=%s extension=%s)" % (df.fmt_expr(e), u, x))
    r.instance("skip-needs-opt-in-or-extension", n > 0 and not bad,
               "skip_metadata may be true only if statement.get_use_cached_result_metadata() or this connection negotiated the metadata-id extension "
               "(otherwise the server omits metadata and cannot signal that the cached one is stale: rows are decoded with stale metadata after a reprepare), "
               "and never when the cached metadata has 0 columns: %s" % sorted(set(bad))[:3], cb.stmt_span(s))
    r.instance("states", n > 0, "%d states at the snapshot" % n, cb.span, nontrivial=False)


def _resolve(dj, stt, e):
    """the expression a bool temp holds in this state, if the state records one"""
    if e is not None and e[0] == "val":
        v = stt.get(e)
        if isinstance(v, tuple) and v and v[0] == "expr":
            return v[1]
    return None


def _fmt_or(o):
    return "args%s calls%s" % (sorted(o[0]), sorted(x.split("::")[-1] for x in o[1]))


def r2_batch(ctx, facts):
    r = ctx.rule("R2b", "batch: re-send only after an awaited reprepare Ok; unknown id is an error", floor=4)
    b = facts.one(r"^scylla::network::connection::Connection::batch_with_consistency::\{closure#0\}$")
    df = df_of(b, facts)
    sends = b.calls_to(CN + "send_request")
    reps = b.calls_to(CN + "reprepare")
    if len(sends) != 1 or len(reps) != 1:
        raise AnchorLost("batch_with_consistency: expected one send_request and one reprepare, found %d/%d" % (len(sends), len(reps)))
    s, rep = sends[0], reps[0]
    # every cycle through the send passes through reprepare
    r.instance("resend-needs-reprepare", s.bb not in b.reachable_after(s.bb, removed_nodes=[rep.bb]), "the batch may be re-sent only through reprepare()", s.span)
    # ... and through the Continue edge of its `?`
    brs = [c for c in b.calls_to("core::ops::try_trait::Try::branch") if rep.dest[0] in backward_slice(b, c.args[0])[0]]
    ok = False
    for br in brs:
        sws = switch_on(b, df, ("disc", (br.dest[0], ())))
        for sw in sws:
            edges, other = switch_edges(b, sw)
            brk = edges.get(1, other)
            if s.bb not in b.reachable_from(brk):
                ok = True
    r.instance("failed-reprepare-does-not-resend", ok, "a failed reprepare must exit, not loop", rep.span)
    # the statement to re-prepare is looked up in the list that was actually sent (the output of prepare_batch, where
    # statements with values were prepared on the fly), not in the caller's batch
    calls = []
    for a_ in rep.args[1:]:
        calls += backward_slice(b, a_, data_only=True)[1]
    from_prepared = any((x.name or "").endswith("Connection::prepare_batch") for x in calls)
    frame = [st for bb in b.live_blocks for st in b.stmts(bb) if st[0] == "A" and st[2][0] == "agg" and st[2][1][0] == "adt" and st[2][1][1].endswith("request::batch::Batch")]
    frame_ok = bool(frame) and all(any((x.name or "").endswith("Connection::prepare_batch") for x in backward_slice(b, st[2][2][0])[1]) for st in frame)
    r.instance("lookup-in-the-sent-statements", from_prepared and frame_ok,
               "the UNPREPARED id must be searched in the statements of the batch that was sent (prepare_batch's output, also the frame's `statements`); statement handed to reprepare derives from prepare_batch: %s, frame derives from prepare_batch: %s" % (from_prepared, frame_ok), rep.span)
    errs = [bb for bb in b.live_blocks for st in b.stmts(bb) if st[0] == "A" and st[2][0] == "agg" and st[2][1][0] == "adt" and st[2][1][2] == "RepreparedIdMissingInBatch"]
    r.instance("unknown-id-is-error", bool(errs) and all(s.bb not in b.reachable_from(e) for e in errs), "UNPREPARED for an id that is not in the batch must be an error exit", s.span)
    _every_unprepared(r, facts, b, rep, errs, "batch")


def _every_unprepared(r, facts, b, rep, errs, what):
    """whenever the answer is UNPREPARED the statement is re-prepared: from the edge on which the error is known to be
    DbError::Unprepared no exit is feasibly reachable that bypasses reprepare (the `id not in this batch` error excepted)"""
    from ..util import variant_edges, dj_of
    dj = dj_of(b, facts)
    edges = variant_edges(b, dj, "DbError", "Unprepared")
    if not edges:
        raise AnchorLost("%s: no branch that establishes DbError::Unprepared" % what)
    for (u, v) in edges:
        reach = dj.feasible_reach_edge(u, v, removed_nodes=[rep.bb] + list(errs))
        bad = [x for x in b.exits if x in reach]
        r.instance("every-unprepared-is-reprepared:" + what, not bad,
                   "an UNPREPARED answer can reach the caller without a re-preparation (e.g. only the first one per request is handled): a %s whose statements "
                   "were all evicted fails although every one of them could have been re-prepared" % what, b.term_span(u))


def r4(ctx, facts):
    r = ctx.rule("R4", "the statement's current result metadata is replaced only by reprepare / a new id in a response", floor=2)
    cs = callers_keys(facts, "scylla::statement::prepared::PreparedStatement::update_current_result_metadata")
    ok = bool(cs) and all(c in ("Connection::reprepare{closure}", "Connection::handle_result_metadata_new_id") for c in cs)
    r.instance("update-callers", ok, "update_current_result_metadata callers: %s" % cs)
    hb = facts.one(r"^scylla::network::connection::Connection::handle_result_metadata_new_id$")
    df = df_of(hb, facts)
    up = hb.calls_to("PreparedStatement::update_current_result_metadata")
    isn = hb.calls_to("Option::<T>::is_none")
    ok = bool(up) and bool(isn) and all(in_set((df.state_in.get(u.bb) or {}).get(("call", isn[0].bb)), {0}) for u in up)
    r.instance("update-only-if-response-has-id", ok, "the cache is updated only where the response metadata carries an id", up[0].span if up else hb.span)


def r6(ctx, facts):
    """shared with C17 (stated there): every page of a paged execution is type-checked against the metadata that came with it, so a later page whose
    metadata changed (METADATA_CHANGED) is refused instead of being decoded with the first page's row type"""
    from .c17 import r7 as c17_r7
    c17_r7(ctx, facts)


def r7(ctx, facts):
    """rows are decoded with the metadata that came WITH them: the cached metadata of the prepared statement stands in only when
    the response carries none (the server honoured skip-metadata). A server that sends metadata anyway - stale cache after
    ALTER TABLE, a proxy ignoring the flag - is believed (seed C14-k: the frame's metadata was parsed and then dropped)."""
    from ..util import dj_of
    r = ctx.rule("R7", "deserialize_metadata uses the cached result metadata only for a response that carries no metadata", floor=1)
    b = facts.one(r"^scylla_cql::frame::response::result::RawMetadataAndRawRows::<'frame>::deserialize_metadata$|^scylla_cql::frame::response::result::RawMetadataAndRawRows::deserialize_metadata$")
    dj = dj_of(b, facts)
    nm = [c for bb, c in b.calls() if bb in b.live_blocks and (c.name or c.decl or "").split("::")[-1] == "no_metadata"]
    sites = [(bb, st) for bb in sorted(b.live_blocks) for st in b.stmts(bb)
             if st[0] == "A" and st[2][0] == "agg" and st[2][1][0] == "adt" and st[2][1][1].endswith("ResultMetadataHolder") and st[2][1][2] == "SharedCached"]
    if not sites or not nm:
        raise AnchorLost("deserialize_metadata: SharedCached construction / no_metadata() test not found (%d/%d)" % (len(sites), len(nm)))
    for k, (bb, st) in enumerate(sites):
        bad = [s_ for s_ in dj.states_at(bb) if not any(in_set(s_.get(("call", c.bb)), {1}) for c in nm)]
        r.instance("cached-metadata-only-without-sent-metadata#%d" % k, not bad,
                   "the cached metadata is chosen in a state where the response is not known to come without metadata: columns the server "
                   "described in this very response are ignored and the rows are decoded against the cache", b.stmt_span(st))


def r8(ctx, facts):
    """what a node announces at RE-preparation is adopted: after a transparent re-prepare the statement presents the new metadata
    id and decodes with the new columns. The one exception is deliberate - metadata WITH columns is never replaced by metadata
    without (some statements only get their real metadata with EXECUTE). Every way out of `reprepare` that skips the update, once
    the guard has looked at the cached column count, is therefore either `ids are equal` or `cached has columns and the
    response has none` (seed C14-l: `||` for `&&` made it skip whenever the cached metadata has columns)."""
    from ..util import dj_of, norm_cmps
    r = ctx.rule("R8", "reprepare skips the metadata update only when the ids are equal or the update would replace columns by none", floor=1)
    b = facts.one(r"^scylla::network::connection::Connection::reprepare::\{closure#0\}$")
    dj = dj_of(b, facts)
    U = [c for bb, c in b.calls() if bb in b.live_blocks and (c.name or "").endswith("update_current_result_metadata")]
    cc = sorted([c for bb, c in b.calls() if bb in b.live_blocks and (c.name or c.decl or "").split("::")[-1] == "col_count"], key=lambda c: c.bb)
    if not U or len(cc) != 2:
        raise AnchorLost("reprepare: update_current_result_metadata / the two col_count() calls not found (%d/%d)" % (len(U), len(cc)))
    # which col_count is the cached one: its receiver derives from get_current_result_metadata
    def is_cached(c):
        _, cs_, _ = backward_slice(b, c.args[0])
        return any((x.name or "").endswith("get_current_result_metadata") for x in cs_)
    cur = [c for c in cc if is_cached(c)]
    resp = [c for c in cc if not is_cached(c)]
    if len(cur) != 1 or len(resp) != 1:
        raise AnchorLost("reprepare: cannot tell the cached column count from the response's")
    # the comparison of the two METADATA ids comes after the guard (the earlier one compares the statement ids)
    idcmp = [c for bb, c in b.calls() if bb in b.live_blocks and (c.decl or "") in ("core::cmp::PartialEq::ne", "core::cmp::PartialEq::eq")
             and b.dominates(cur[0].bb, c.bb)]
    reach = dj.feasible_reach(0, removed_nodes=[u.bb for u in U], with_states=True)
    bad = None
    n = 0
    for e in sorted(set(b.exits) & set(reach)):
        for st in reach[e] or []:
            cmps = {(o, x, y): t for o, x, y, t in norm_cmps(st)}
            looked = any(x == ("call", cur[0].bb) for (o, x, y) in cmps)
            if not looked:
                continue           # left before the guard (id mismatch of the statement, response without metadata id, ...)
            n += 1
            ids_equal = any(in_set(st.get(("call", c.bb)), {0 if c.decl.endswith("::ne") else 1}) for c in idcmp)
            cur_has = cmps.get(("Eq", ("call", cur[0].bb), ("const", 0))) == 0
            resp_none = cmps.get(("Eq", ("call", resp[0].bb), ("const", 0))) == 1
            if not (ids_equal or (cur_has and resp_none)):
                bad = st
    r.instance("update-skipped-only-if-equal-or-destructive", n > 0 and bad is None,
               "reprepare can return without update_current_result_metadata in a state where the ids are not known to be equal and it is not the case that "
               "(cached metadata has columns and the response has none): metadata announced at re-preparation is discarded, the next EXECUTE presents the old id", U[0].span)


def check(ctx):
    facts = inline_view(ctx.facts("default"))
    for fn in (r1, r2_r3, r2_batch, r4, r5, r6, r7, r8):
        try:
            fn(ctx, facts)
        except AnchorLost as ex:
            ctx.rule(fn.__name__.upper() + "x", "anchors of " + fn.__name__).fail("anchor-lost", str(ex))
