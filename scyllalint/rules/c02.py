"""C02 — every response reaches exactly its request (stream-id discipline on a shared connection).

Decided statically (necessary conditions of 'a stream number is never carried by two unanswered requests' and 'no
mis-delivery'):
 R1 who frees / who un-orphans: StreamIdSet::free is called only by ResponseHandlerMap::lookup (the response path), so an
    orphaned id stays reserved until the server answers; the orphanage (OrphanageTracker.orphans / by_orphaning_times) is
    mutated only by its insert/remove/new; insert is called only by orphan(), remove only by lookup().
 R2 who allocates / who looks up: StreamIdSet::allocate <- ResponseHandlerMap::allocate <- Connection::alloc_stream_id <- writer;
    the key inserted into `handlers` is the id StreamIdSet::allocate returned; lookup <- reader with the stream of the frame
    read in the same iteration; orphan <- orphaner; who mutates ResponseHandlerMap's fields.
 R3 lookup order: the orphanage test dominates handlers.remove; the Handler exit removes request_to_stream[handler.request_id].
 R4 orphan() is complete on the mapped path (orphanage insert + handlers.remove + request_to_stream.remove).
 R5 the response delivered is the frame read: the value sent through response_sender is the TaskResponse built from this
    iteration's read_response_frame result; the Missing arm exits with Err.
 R6 no MutexGuard on the handler map is held across an await in reader / writer / orphaner.
 R7 drop guard: OrphanhoodNotifier::disable() is reachable only after the awaited response arrived.
Not decided: interleavings as such; the bit arithmetic of StreamIdSet (allocate sets the bit free clears); server ordering.
"""
import re
from ..inline import inline_view
from ..mir import AnchorLost
from ..util import uses_of_local, new_async_helpers, must_pass, df_of, fn_short, in_set, operand_path, path_last, backward_slice, field_writers, callers_keys, guard_across_yield, switch_on, switch_edges, yields

C = "scylla::network::connection::"


def r1_r2(ctx, facts):
    r1 = ctx.rule("R1", "ids are freed / un-orphaned only on the response path", floor=6)
    r2 = ctx.rule("R2", "who allocates, looks up, orphans; allocated id is the one registered", floor=11)
    free = callers_keys(facts, C + "StreamIdSet::free")
    r1.instance("free-callers", free == ["ResponseHandlerMap::lookup"], "StreamIdSet::free callers: %s (must be exactly ResponseHandlerMap::lookup: an orphaned id must stay reserved until the server answers)" % free)
    w = field_writers(facts, C + "StreamIdSet", ["used_bitmap"])
    okw = {x[0] for x in w} <= {"StreamIdSet::new", "StreamIdSet::allocate", "StreamIdSet::free"}
    r1.instance("bitmap-writers", okw, "StreamIdSet.used_bitmap is written by %s" % sorted(w))
    w = field_writers(facts, C + "OrphanageTracker", ["orphans", "by_orphaning_times"])
    okw = {x[0] for x in w} <= {"OrphanageTracker::new", "OrphanageTracker::insert", "OrphanageTracker::remove"}
    r1.instance("orphanage-writers", okw, "the orphanage is mutated by %s; only new/insert/remove may (an id leaves the orphanage only when its response arrives)" % sorted(w))
    ins = callers_keys(facts, C + "OrphanageTracker::insert")
    rem = callers_keys(facts, C + "OrphanageTracker::remove")
    r1.instance("orphanage-insert-callers", ins == ["ResponseHandlerMap::orphan"], "OrphanageTracker::insert callers: %s" % ins)
    r1.instance("orphanage-remove-callers", rem == ["ResponseHandlerMap::lookup"], "OrphanageTracker::remove callers: %s" % rem)
    # orphan() must not free
    ob = facts.one(r"^scylla::network::connection::ResponseHandlerMap::orphan$")
    r1.instance("orphan-does-not-free", not ob.calls_to("StreamIdSet::free"), "orphan() must not free the stream id", ob.span)
    # R2
    al = callers_keys(facts, C + "StreamIdSet::allocate")
    r2.instance("allocate-callers", al == ["ResponseHandlerMap::allocate"], "StreamIdSet::allocate callers: %s" % al)
    al2 = callers_keys(facts, C + "ResponseHandlerMap::allocate")
    r2.instance("map-allocate-callers", al2 == ["Connection::alloc_stream_id"], "ResponseHandlerMap::allocate callers: %s" % al2)
    al3 = callers_keys(facts, C + "Connection::alloc_stream_id")
    r2.instance("alloc_stream_id-callers", al3 == ["Connection::writer{closure}"], "Connection::alloc_stream_id callers: %s" % al3)
    lk = callers_keys(facts, C + "ResponseHandlerMap::lookup")
    r2.instance("lookup-callers", lk == ["Connection::reader{closure}"], "ResponseHandlerMap::lookup callers: %s" % lk)
    orp = callers_keys(facts, C + "ResponseHandlerMap::orphan")
    r2.instance("orphan-callers", orp == ["Connection::orphaner{closure}"] or all(x.startswith("Connection::orphaner") for x in orp) and orp, "ResponseHandlerMap::orphan callers: %s" % orp)
    w = field_writers(facts, C + "ResponseHandlerMap", ["stream_set", "handlers", "request_to_stream", "orphanage_tracker"])
    allowed = {"ResponseHandlerMap::new", "ResponseHandlerMap::allocate", "ResponseHandlerMap::orphan", "ResponseHandlerMap::lookup", "ResponseHandlerMap::into_handlers"}
    bad = sorted(x for x in w if x[0] not in allowed)
    r2.instance("map-field-writers", not bad, "ResponseHandlerMap fields are mutated outside allocate/orphan/lookup/into_handlers/new: %s" % bad)
    # the id registered in `handlers` / `request_to_stream` is the id StreamIdSet::allocate returned
    ab = facts.one(r"^scylla::network::connection::ResponseHandlerMap::allocate$")
    df = df_of(ab, facts)
    allocs = ab.calls_to("StreamIdSet::allocate")
    inserts = [c for c in ab.calls_to("HashMap::<K, V, S>::insert", "HashMap::<K, V, S, A>::insert")]
    if len(allocs) != 1 or len(inserts) < 2:
        raise AnchorLost("ResponseHandlerMap::allocate: expected one StreamIdSet::allocate and two map inserts, found %d/%d" % (len(allocs), len(inserts)))
    for c in inserts:
        which = path_last(operand_path(df, c.args[0]))
        idarg = c.args[1] if which == "handlers" else c.args[2]
        _, calls, _ = backward_slice(ab, idarg)
        from_alloc = any(x.bb == allocs[0].bb for x in calls) or _derives_from_local(ab, idarg, allocs[0].dest[0])
        other = [x.name for x in calls if x.name and x.bb != allocs[0].bb and not x.name.startswith("core::") and not x.name.startswith("<")]
        r2.instance("registered-id-is-allocated-id:" + str(which), from_alloc and not other,
                    "the id stored in %s must come from StreamIdSet::allocate only (other sources: %s)" % (which, other), c.span)
        st = df.state_in.get(c.bb) or {}
        r2.instance("register-only-if-allocated:" + str(which), in_set(st.get(("disc", (allocs[0].dest[0], ()))), {1}),
                    "registration must be in the Some(stream_id) region of StreamIdSet::allocate", c.span)
    # reader passes the stream of the frame it just read
    rb = facts.one(r"^scylla::network::connection::Connection::reader::\{closure#0\}$")
    rdf = df_of(rb, facts)
    lks = rb.calls_to("ResponseHandlerMap::lookup")
    if len(lks) != 1:
        raise AnchorLost("reader: expected one lookup call")
    e = rdf.expr_of_operand(lks[0].args[1])
    ok = e[0] == "val" and e[1][1][-1:] == ("stream",)
    # root of that path must be the frame tuple produced by this iteration's read_response_frame poll
    r2.instance("lookup-arg-is-frame-stream", ok, "lookup() must be given params.stream of the frame just read; it gets " + rdf.fmt_expr(e), lks[0].span)


def _derives_from_local(b, operand, target, depth=0):
    if operand[0] not in ("c", "m"):
        return False
    seen, _, _ = backward_slice(b, operand)
    return target in seen


def r3_r4(ctx, facts):
    r3 = ctx.rule("R3", "lookup: orphanage test first; Handler exit forgets the request->stream mapping", floor=3)
    r4 = ctx.rule("R4", "orphan(): orphanage insert + handlers.remove + request_to_stream.remove on the mapped path", floor=3)
    b = facts.one(r"^scylla::network::connection::ResponseHandlerMap::lookup$")
    df = df_of(b, facts)
    contains = b.calls_to("OrphanageTracker::contains")
    hrem = [c for c in b.calls_to("HashMap::<K, V, S>::remove", "HashMap::<K, V, S, A>::remove") if path_last(operand_path(df, c.args[0])) == "handlers"]
    rrem = [c for c in b.calls_to("HashMap::<K, V, S>::remove", "HashMap::<K, V, S, A>::remove") if path_last(operand_path(df, c.args[0])) == "request_to_stream"]
    if len(contains) != 1 or len(hrem) != 1:
        raise AnchorLost("lookup: expected one orphanage contains() and one handlers.remove()")
    st = df.state_in.get(hrem[0].bb) or {}
    r3.instance("orphan-test-before-handler-removal", b.dominates(contains[0].bb, hrem[0].bb) and in_set(st.get(("call", contains[0].bb)), {0}),
                "handlers.remove must be in the region where the id is known not to be orphaned", hrem[0].span)
    # Handler aggregate exits pass through request_to_stream.remove
    hsites = [(bb, s) for bb in b.live_blocks for s in b.stmts(bb) if s[0] == "A" and s[2][0] == "agg" and s[2][1][0] == "adt" and s[2][1][2] == "Handler"]
    if not hsites:
        raise AnchorLost("lookup: no HandlerLookupResult::Handler aggregate")
    for bb, s in hsites:
        ok = bool(rrem) and must_pass(b, facts, [c.bb for c in rrem], bb) and any(must_pass(b, facts, [hrem[0].bb], c.bb) for c in rrem)
        r3.instance("handler-exit-forgets-mapping", ok, "before returning Handler(handler), request_to_stream.remove(&handler.request_id) must run (else a late orphan notice orphans a re-allocated id)", b.stmt_span(s))
    if rrem:
        _, calls, _ = backward_slice(b, rrem[0].args[1])
        e = df.expr_of_operand(rrem[0].args[1])
        r3.instance("mapping-key-is-handlers-request-id", "request_id" in df.fmt_expr(e) or any(True for _ in []), "the key removed must be handler.request_id; it is " + df.fmt_expr(e), rrem[0].span)
    ob = facts.one(r"^scylla::network::connection::ResponseHandlerMap::orphan$")
    odf = df_of(ob, facts)
    get = [c for c in ob.calls_to("HashMap::<K, V, S>::get", "HashMap::<K, V, S, A>::get") if path_last(operand_path(odf, c.args[0])) == "request_to_stream"]
    ins = ob.calls_to("OrphanageTracker::insert")
    hr = [c for c in ob.calls_to("HashMap::<K, V, S>::remove", "HashMap::<K, V, S, A>::remove") if path_last(operand_path(odf, c.args[0])) == "handlers"]
    rr = [c for c in ob.calls_to("HashMap::<K, V, S>::remove", "HashMap::<K, V, S, A>::remove") if path_last(operand_path(odf, c.args[0])) == "request_to_stream"]
    if len(get) != 1:
        raise AnchorLost("orphan: expected one request_to_stream.get")
    sws = switch_on(ob, odf, ("disc", (get[0].dest[0], ())))
    if len(sws) != 1:
        raise AnchorLost("orphan: result of request_to_stream.get is not matched once")
    edges, other = switch_edges(ob, sws[0])
    some_tg = edges.get(1, other)
    exits = set(ob.exits)
    for nm, cs in (("orphanage-insert", ins), ("handlers-remove", hr), ("request_to_stream-remove", rr)):
        ok = bool(cs) and not (ob.reachable_from(some_tg, removed_nodes=[c.bb for c in cs]) & exits)
        r4.instance(nm, ok, "on the mapped path orphan() must call %s on every path" % nm, cs[0].span if cs else ob.span)


class _Src:
    """where a future is created in a body: a call, or (for a new async fn, whose trivial constructor body is spliced in) the coroutine aggregate"""
    def __init__(self, bb, dest, span):
        self.bb, self.dest, self.span = bb, dest, span


def frame_source(facts, b):
    """[(body, source)] from the reader down to the call of read_response_frame: the call itself, or - if the read was moved into a
    new `async fn` - the place that creates that helper's future followed by the read inside the helper"""
    direct = [c for c in b.calls_to("scylla_cql::frame::read_response_frame") if not (c.name or "").endswith("{closure#0}")]
    if len(direct) == 1:
        return [(b, _Src(direct[0].bb, direct[0].dest, direct[0].span))]
    for hb, _ops in new_async_helpers(facts, b):
        inner = frame_source(facts, hb)
        if not inner:
            continue
        fn_path = hb.path[:-len("::{closure#0}")]
        mk = [_Src(c.bb, c.dest, c.span) for bb, c in b.calls() if bb in b.live_blocks and ((c.callee.get("res") or "") == fn_path or (c.name or "") == fn_path)]
        mk += [_Src(bb, st[1], b.stmt_span(st)) for bb in sorted(b.live_blocks) for st in b.stmts(bb)
               if st[0] == "A" and st[2][0] == "agg" and st[2][1][0] == "coroutine" and st[2][1][1] == hb.path]
        if len(mk) == 1:
            return [(b, mk[0])] + inner
    return []


def r5(ctx, facts):
    r = ctx.rule("R5", "reader delivers the frame it just read; unsolicited frame breaks the connection", floor=4)
    b = facts.one(r"^scylla::network::connection::Connection::reader::\{closure#0\}$")
    df = df_of(b, facts)
    chain = frame_source(facts, b)
    reads = [chain[0][1]] if chain else []
    sends = b.calls_to("tokio::sync::oneshot::Sender::<T>::send")
    if len(reads) != 1 or len(sends) != 1:
        raise AnchorLost("reader: expected one read_response_frame and one response_sender.send, found %d/%d" % (len(reads), len(sends)))
    send = sends[0]
    aggs = [(bb, s) for bb in b.live_blocks for s in b.stmts(bb) if s[0] == "A" and s[2][0] == "agg" and s[2][1][0] == "adt" and s[2][1][1] == C + "TaskResponse"]
    seen, calls, _ = backward_slice(b, send.args[1])
    if len(aggs) == 1:
        from_frame = aggs[0][1][1][0] in seen and reads[0].dest[0] in backward_slice(b, ["m", [aggs[0][1][1][0], []]])[0]
    elif not aggs and len(chain) > 1:
        from_frame = reads[0].dest[0] in seen       # the TaskResponse is built inside the helper whose result is awaited here
    else:
        raise AnchorLost("reader: expected one TaskResponse aggregate")
    r.instance("sent-value-is-this-frame", from_frame, "the value sent to the handler must be the TaskResponse built from the frame just read", send.span)
    # the TaskResponse is built from the polled read future of this iteration: every path from the send back to itself passes the read
    reach = b.reachable_after(send.bb, removed_nodes=[reads[0].bb])
    r.instance("fresh-read-per-delivery", send.bb not in reach, "each delivery must be preceded by a fresh read_response_frame", send.span)
    # sender comes from the looked-up handler
    lk = b.calls_to("ResponseHandlerMap::lookup")[0]
    s2, _, _ = backward_slice(b, send.args[0])
    r.instance("sender-is-looked-up-handler", lk.dest[0] in s2, "the oneshot sender must belong to the handler returned by lookup()", send.span)
    # Missing arm -> Err exit, cannot reach the loop head again
    sws = switch_on(b, df, ("disc", (lk.dest[0], ())))
    if len(sws) != 1:
        raise AnchorLost("reader: lookup result not matched once")
    t = b.term(sws[0])
    names = {facts.variant_by_discr(C + "HandlerLookupResult", v): tg for v, tg in t[2]}
    mt = names.get("Missing")
    if mt is None:
        # may be the otherwise edge
        listed = set(names)
        allv = set(facts.variants(C + "HandlerLookupResult"))
        if allv - listed == {"Missing"}:
            mt = t[3]
    ok = mt is not None and reads[0].bb not in b.reachable_from(mt)
    r.instance("missing-breaks-connection", ok, "an unsolicited stream id must end the reader with an error (no further frames are read)", b.term_span(sws[0]))


def r6(ctx, facts):
    r = ctx.rule("R6", "no handler-map guard held across an await in reader / writer / orphaner / router", floor=5)
    for nm in ("reader", "writer", "orphaner", "router"):
        bs = facts.find(r"^scylla::network::connection::Connection::%s::\{closure#0\}$" % nm)
        if len(bs) != 1:
            r.fail("anchor:" + nm, "coroutine body of Connection::%s not found" % nm)
            continue
        bad = guard_across_yield(bs[0])
        r.instance("no-guard-across-await:" + nm, not bad, "a MutexGuard may be held across an await: %s" % [(bs[0].fmt_place([l, []]), d, y) for l, d, y in bad[:3]], bs[0].span)
    ab = facts.one(r"^scylla::network::connection::Connection::alloc_stream_id$")
    r.instance("alloc_stream_id-is-sync", not ab.is_coroutine and not yields(ab), "alloc_stream_id takes the lock and must stay synchronous", ab.span, nontrivial=False)


def r7(ctx, facts):
    r = ctx.rule("R7", "OrphanhoodNotifier is disabled only after the response arrived", floor=3)
    b = facts.one(r"^scylla::network::connection::RouterHandle::send_request::\{closure#0\}$")
    df = df_of(b, facts)
    dis = b.calls_to("OrphanhoodNotifier::<'a>::disable", "OrphanhoodNotifier::<'_>::disable", "OrphanhoodNotifier::disable")
    if len(dis) != 1:
        raise AnchorLost("send_request: expected one OrphanhoodNotifier::disable call, found %d" % len(dis))
    d = dis[0]
    polls = [c for c in b.calls_to("core::future::future::Future::poll")]
    # the receiver await: the poll whose Ready value leads to disable
    st = df.state_in.get(d.bb) or {}
    ready = [k for k, v in st.items() if k[0] == "disc" and in_set(v, {0}) and any(k[1][0] == p.dest[0] for p in polls)]
    r.instance("disable-after-response-ready", bool(ready), "disable() must be in the Poll::Ready region of the awaited response; state: " + df.fmt_state(st), d.span)
    # ...and in the Ok region of that response (a dropped sender must not disable before erroring is fine either way) - check no yield after disable
    ys = set(yields(b))
    r.instance("no-await-after-disable", not (b.reachable_after(d.bb) & ys), "no await may follow disable() (the request can no longer be cancelled un-noticed)", d.span)
    nb = facts.find(r"^<scylla::network::connection::OrphanhoodNotifier<'_> as core::ops::drop::Drop>::drop$")
    if nb:
        snd = nb[0].calls_to("UnboundedSender::<T>::send")
        r.instance("drop-notifies-orphaner", bool(snd), "Drop for OrphanhoodNotifier must send the request id to the orphaner", nb[0].span)
    else:
        r.fail("drop-notifies-orphaner", "Drop for OrphanhoodNotifier not found")


def r8(ctx, facts):
    r = ctx.rule("R8", "stream-id bitmap: new / allocate / free agree on the word width and cover exactly the 32768 ids", floor=4)
    import re as _re
    SS = C + "StreamIdSet::"
    nb, ab, fb = facts.one("^" + _re.escape(SS) + "new$"), facts.one("^" + _re.escape(SS) + "allocate$"), facts.one("^" + _re.escape(SS) + "free$")
    widths = set()
    for b in (ab, fb):
        for l in range(len(b.locals)):
            m = _re.search(r"\[u(\d+)\]", b.local_ty(l) or "")
            if m:
                widths.add(int(m.group(1)))
    if len(widths) != 1:
        raise AnchorLost("StreamIdSet: cannot read the bitmap word type (%s)" % sorted(widths))
    W = widths.pop()

    def bin_consts(b, ops):
        out = []
        for bb in b.live_blocks:
            for st in b.stmts(bb):
                if st[0] == "A" and st[2][0] == "bin" and any(st[2][1].startswith(o) for o in ops):
                    for o in (st[2][2], st[2][3]):
                        if o[0] == "k" and o[1] == "int":
                            out.append(int(o[3]))
        return out
    mul = [v for v in bin_consts(ab, ("Mul",)) if v > 1]
    div = bin_consts(fb, ("Div",))
    rem = bin_consts(fb, ("Rem",))
    r.instance("allocate-scales-by-word-width", mul == [W] or (mul and all(v == W for v in mul)), "allocate computes id = off + block * %s; the bitmap words have %d bits" % (mul, W), ab.span)
    r.instance("free-divides-by-word-width", bool(div) and all(v == W for v in div), "free computes block = id / %s; the bitmap words have %d bits" % (div, W), fb.span)
    r.instance("free-offset-modulo-word-width", bool(rem) and all(v == W for v in rem), "free computes off = id %% %s; the bitmap words have %d bits (a different modulus releases another request's id)" % (rem, W), fb.span)
    sizes = [v for v in int_consts_of(nb) if v >= 64]
    r.instance("bitmap-covers-id-space", any(v * W == 32768 for v in sizes), "new() allocates %s words of %d bits; 32768 ids need %d" % (sizes, W, 32768 // W), nb.span)


def int_consts_of(b):
    out = []

    def scan(x):
        if isinstance(x, list):
            if len(x) >= 4 and x[0] == "k" and x[1] == "int":
                try:
                    out.append(int(x[3]))
                except ValueError:
                    pass
                return
            for y in x:
                scan(y)
    for bb in b.live_blocks:
        for st in b.stmts(bb):
            scan(st)
        scan(b.term(bb))
    return out


def r9(ctx, facts):
    r = ctx.rule("R9", "the frame reader consumes exactly one frame: 9 header bytes, then at most `length` body bytes", floor=3)
    b = facts.one(r"^scylla_cql::frame::read_response_frame::\{closure#0\}$")
    outer = b
    bodies = [(b, None)] + new_async_helpers(facts, b)
    if not any(c for bd, _ in bodies for bb, c in bd.calls() if bb in bd.live_blocks and (c.decl or "").startswith("tokio::io::util::async_read_ext::AsyncReadExt::")):
        raise AnchorLost("read_response_frame: no AsyncReadExt call found")
    n_exact = n_buf = 0

    def from_length(bd, created_with, operand, **kw):
        """the operand derives from the header's length field (through the helper's arguments if bd is a helper)"""
        locs, lc, _ = backward_slice(bd, operand, **kw)
        if any((y.decl or "").endswith("Buf::get_u32") for y in lc):
            return True, lc
        if created_with is not None and 1 in locs:
            return any(any((y.decl or "").endswith("Buf::get_u32") for y in backward_slice(outer, a)[1]) for a in created_with if a[0] in ("c", "m")), lc
        return False, lc
    work = []
    for b, created_with in bodies:
        work += [(b, created_with, c) for bb, c in b.calls() if bb in b.live_blocks and (c.decl or "").startswith("tokio::io::util::async_read_ext::AsyncReadExt::")]
    for b, created_with, c in work:
        m = c.decl.split("::")[-1]
        if m == "read_exact":
            # reads exactly the length of the slice: a fixed-size array (the header) or a buffer sized from the header's length
            locs, calls, _ = backward_slice(b, c.args[1], data_only=True)
            arr = [l for l in locs if re.match(r"^\[u8; [A-Za-z_0-9:]+\]$", b.local_ty(l))]
            sized = from_length(b, created_with, c.args[1])[0]
            n_exact += 1
            r.instance("read_exact-into-bounded-buffer", bool(arr) or sized,
                       "read_exact must fill a fixed-size header array or a buffer sized by the header's length field", c.span)
        elif m == "read_buf":
            n_buf += 1
            ty = b.local_ty(c.args[1][1][0]) if c.args[1][0] in ("c", "m") else ""
            limited = "bytes::buf::limit::Limit<" in ty
            ok = False
            if limited:
                locs, calls, _ = backward_slice(b, c.args[1], data_only=True, pointer_only=True)
                lim = [x for x in calls if (x.decl or "") == "bytes::buf::buf_mut::BufMut::limit"]
                ok = bool(lim)
                for x in lim:
                    fl, lc = from_length(b, created_with, x.args[1])
                    ok = ok and fl and not any((y.decl or "").split("::")[-1] in ("max", "saturating_add", "checked_add", "next_power_of_two") for y in lc)
            r.instance("body-read-is-limited-to-length", ok,
                       "read_buf appends whatever the transport has ready, up to the buffer's spare capacity: the body buffer must be `…limit(length)` with `length` from the "
                       "header's get_u32, or bytes of the next frame are swallowed and the next response is attributed by garbage (buffer type here: %s)" % ty, c.span)
        else:
            r.instance("reader-method:" + m, False, "read_response_frame uses AsyncReadExt::%s, which does not stop at the frame boundary by construction" % m, c.span)
    b = outer
    r.instance("header-then-body", n_exact + n_buf >= 2, "expected a header read and a body read (%d/%d)" % (n_exact, n_buf), b.span, nontrivial=False)


AWAIT_PLUMBING = ("core::future::into_future::IntoFuture::into_future", "core::pin::Pin::<Ptr>::new_unchecked", "core::pin::Pin::<&'a mut T>::new_unchecked",
                  "core::future::future::Future::poll", "core::pin::Pin::<Ptr>::as_mut", "core::pin::Pin::<&mut T>::new")


def r10(ctx, facts):
    r = ctx.rule("R10", "a frame read, once started, is driven to its end: the reader awaits read_response_frame directly (never under a timeout / select)", floor=1)
    b0 = facts.one(r"^scylla::network::connection::Connection::reader::\{closure#0\}$")
    chain = frame_source(facts, b0)
    if not chain:
        raise AnchorLost("Connection::reader: call of frame::read_response_frame not found")
    for b, c in chain:
        work, seen, escapes = [c.dest[0]], set(), []
        while work:
            l = work.pop()
            if l in seen:
                continue
            seen.add(l)
            for ub, where, _op in uses_of_local(b, l):
                if where[0] == "stmt":
                    st = where[1]
                    if st[2][0] == "agg" and st[2][1][0] in ("closure", "coroutine", "coroutine_closure", "adt", "tuple"):
                        escapes.append(("stored into %s" % st[2][1][0], b.stmt_span(st)))
                    else:
                        work.append(st[1][0])
                elif where[0] == "ref":
                    work.append(where[1][1][0])
                elif where[0] == "arg":
                    t = b.term(ub)
                    nm = t[1].get("def") or ""
                    last = nm.split("::")[-1]
                    if last == "poll" and nm.startswith("core::future::"):
                        pass            # polled in place: what comes out is the frame, not the future
                    elif nm in AWAIT_PLUMBING or (nm.startswith("core::") and last in ("into_future", "new_unchecked", "as_mut")):
                        work.append(t[3][0])
                    else:
                        escapes.append(("handed to " + (nm or "?"), b.term_span(ub)))
        r.instance("frame-read-awaited-directly", not escapes,
                   "the future of read_response_frame is %s: a wrapper that can drop it half-way (timeout, select, race) loses the bytes already consumed, and the reader "
                   "re-synchronises inside the frame's body - the next 'header' and stream id are payload bytes" % "; ".join(e[0] for e in escapes[:2]),
                   escapes[0][1] if escapes else c.span)


def r11(ctx, facts):
    r = ctx.rule("R11", "the stream-id bookkeeping of a connection is created once, when the connection's router starts, and never replaced or reset while the connection lives", floor=3)
    from ..util import callers_keys
    want = {
        "ResponseHandlerMap::new": ["Connection::router{closure}"],
        "StreamIdSet::new": ["ResponseHandlerMap::new"],
        "OrphanageTracker::new": ["ResponseHandlerMap::new"],
    }
    for nm, allowed in want.items():
        got = sorted(set(callers_keys(facts, "scylla::network::connection::" + nm)))
        r.instance("constructed-only-by:" + nm, got == allowed,
                   "%s is called from %s (must be %s only): a fresh bitmap / orphan tracker forgets which stream ids the server still owes an answer for - an abandoned request's id is "
                   "handed out again and its late response reaches the new request" % (nm, got, allowed))
    # no whole-value overwrite of the map or its trackers from within their own methods
    for b in facts.find(r"^scylla::network::connection::(ResponseHandlerMap|StreamIdSet|OrphanageTracker)::[a-z_]+$"):
        if b.path.endswith("::new"):
            continue
        for bb in sorted(b.live_blocks):
            for st in b.stmts(bb):
                if st[0] == "A" and st[1][0] == 1 and st[1][1] == ["*"]:
                    r.fail("no-reset:" + fn_short(b.path), "`*self = ..` replaces the whole stream-id bookkeeping", b.stmt_span(st))
            t = b.term(bb)
            if t[0] == "call" and t[3][0] == 1 and t[3][1] == ["*"]:
                r.fail("no-reset:" + fn_short(b.path), "`*self = ..` replaces the whole stream-id bookkeeping", b.term_span(bb))


def r12(ctx, facts):
    r = ctx.rule("R12", "the writer hands every request frame to the socket completely (write_all): a partial write would leave a frame whose header promises more bytes than follow", floor=1)
    b = facts.one(r"^scylla::network::connection::Connection::writer::\{closure#0\}$")
    n = 0
    for bb, c in b.calls():
        if bb not in b.live_blocks:
            continue
        nm = (c.decl or c.name or "")
        if "AsyncWriteExt::" in nm or "AsyncWrite::" in nm:
            meth = nm.split("::")[-1]
            if meth in ("flush", "shutdown", "poll_flush", "poll_shutdown"):
                continue
            n += 1
            r.instance("frame-written-completely:" + meth, meth in ("write_all", "write_all_buf"),
                       "Connection::writer sends request bytes with %s(): it may accept only part of a large frame (the BufWriter passes slices of its capacity or more straight to the socket), the rest is dropped "
                       "and the server reads the following requests as the body of this one" % meth, c.span)
    if n == 0:
        raise AnchorLost("Connection::writer: no AsyncWriteExt write call found")


def check(ctx):
    facts = inline_view(ctx.facts("default"))
    for fn in (r1_r2, r3_r4, r5, r6, r7, r8, r9, r10, r11, r12):
        try:
            fn(ctx, facts)
        except AnchorLost as ex:
            ctx.rule(fn.__name__.upper() + "x", "anchors of " + fn.__name__).fail("anchor-lost", str(ex))
    ctx.assumptions += ["the single-threaded router (reader/writer/orphaner joined in one task) is the only mutator of the handler map, as the who-calls rules show"]
