"""C19 — the metadata hand-off channel (merge_channel.rs) loses and duplicates nothing.

Decided statically (each rule is the code shape of one race the property names):
 R1 Receiver::recv: Notified::enable() precedes every slot inspection in every loop iteration (a fresh notified() per
    iteration); on the sender-dropped edge the returned value comes from a take() executed AFTER the flag load; the await
    is reachable only after a take returned None and the flag read false.
 R2 Drop for Sender: store(sender_dropped, true) dominates notify_one().
 R3 Sender::modify: receiver_dropped is tested before f runs (true => Err, f not applied); notify_one() on every path
    where slot.is_some() (evaluated after f) was true.
 R4 cancel safety: no Yield is reachable after a take() that may have returned Some.
 R5 memory orderings: flag stores >= Release, flag loads >= Acquire.
 R6 SPSC by construction: no Clone for Sender/Receiver; modify/recv take &mut self; `slot` only reached through Mutex::lock;
    no MutexGuard local in the recv coroutine.
 R7 wiring: who calls modify / recv / merge_channel.
Not decided: liveness ("a requested refresh is eventually answered"), end-to-end freshness of published state.
"""
from ..inline import inline_view
from ..mir import AnchorLost
from ..util import dj_of, truth_edges, bool_edges, uses_of_local, guard_across_yield, df_of, enum_variant_of_operand, operand_path, path_last, one_call, yields, switch_on, switch_edges, in_set, fn_short

MOD = "scylla::cluster::metadata::merge_channel::"


def is_take_closure(facts, path):
    b = facts.body(path)
    if b is None:
        return False
    return bool(b.calls_to("core::option::Option::<T>::take")) and bool(b.calls_to("mutex::Mutex::<T>::lock"))


def take_calls(facts, b):
    out = []
    for bb, c in b.calls():
        if bb not in b.live_blocks:
            continue
        if c.is_("core::option::Option::<T>::take"):
            out.append(c)
        elif c.name and c.name.startswith(b.path + "::{closure") and is_take_closure(facts, c.name):
            out.append(c)
    return out


def flag_call(b, df, method, field):
    out = []
    for c in b.calls_to("core::sync::atomic::Atomic::<bool>::" + method, "core::sync::atomic::AtomicBool::" + method):
        p = operand_path(df, c.args[0])
        if path_last(p) == field:
            out.append(c)
    return out


def r1_r4(ctx, facts):
    r1 = ctx.rule("R1", "recv: enable() before inspect, per iteration; dropped edge re-takes; await only after None+flag false", floor=9)
    r4 = ctx.rule("R4", "recv is cancel-safe: no Yield reachable after a take that may hold a value", floor=1)
    b = facts.one(r"merge_channel::Receiver::<T>::recv::\{closure#0\}$")
    df = df_of(b, facts)
    notified = one_call(b, "tokio::sync::notify::Notify::notified")
    enable = one_call(b, "tokio::sync::notify::Notified::<'_>::enable")
    takes = take_calls(facts, b)
    if len(takes) < 1:
        raise AnchorLost("expected a slot take() site in recv, found none")
    loads = flag_call(b, df, "load", "sender_dropped")
    if len(loads) != 1:
        raise AnchorLost("expected one load of sender_dropped in recv, found %d" % len(loads))
    load = loads[0]
    polls = [c for c in b.calls_to("core::future::future::Future::poll")]
    # the await this rule is about is the one on this iteration's notified(); any other suspension point is judged by
    # R4 (cancel safety) on its own position, not refused for merely existing
    waits = [p for p in polls if _derives_from(b, df, p, notified)]
    if len(waits) != 1:
        raise AnchorLost("expected exactly one await on notified() in recv, found %d (of %d awaits)" % (len(waits), len(polls)))
    poll = waits[0]
    ys = yields(b)
    # enable's receiver derives from this iteration's notified()
    r1.instance("notified-dominates-enable", b.dominates(notified.bb, enable.bb), "notified() must be created before enable()", enable.span)
    for i, t in enumerate(takes):
        r1.instance("enable-dominates-take#%d" % i, b.dominates(enable.bb, t.bb) and enable.bb != t.bb,
                    "Notified::enable() must dominate the slot inspection (else a concurrent modify() between inspect and register is lost)", t.span)
    r1.instance("enable-dominates-flag-load", b.dominates(enable.bb, load.bb), "enable() must dominate the sender_dropped load", load.span)
    # per iteration: after the await (poll) no take is reachable without passing notified() and enable() again
    tb = {t.bb for t in takes}
    for nm, cut in (("enable", enable.bb), ("notified", notified.bb)):
        reach = b.reachable_after(poll.bb, removed_nodes=[cut])
        r1.instance("fresh-%s-per-iteration" % nm, not (reach & tb),
                    "after being woken, recv must pass %s() again before inspecting the slot" % nm, poll.span)
    # dropped edge: the return value derives from a take executed after the load on the true edge
    sws3 = truth_edges(b, df, ("call", load.bb))
    if len(sws3) != 1:
        raise AnchorLost("no unique switch on the sender_dropped load")
    sws = [sws3[0][0]]
    true_tg, false_tg = sws3[0][1], sws3[0][2]
    reach_true = b.reachable_from(true_tg, removed_nodes=[notified.bb])
    retake = [t for t in takes if t.bb in reach_true and b.dominates(sws[0], t.bb)]
    ok = False
    detail = "on the sender-dropped edge recv must re-inspect the slot (a value merged just before the sender died would be lost)"
    for t in retake:
        # all exits reachable from the true edge must pass through that take, and the take feeds the return value
        exits = [e for e in b.exits if e in reach_true]
        passes = all(b.reachable_from(true_tg, removed_nodes=[t.bb]).isdisjoint({e}) for e in exits)
        feeds = (t.dest[0] == 0) or any(
            st[0] == "A" and st[1][0] == 0 and _mentions_local(st[2], t.dest[0]) for bb in reach_true for st in b.stmts(bb))
        if passes and feeds:
            ok = True
    r1.instance("dropped-edge-retakes", ok, detail, load.span)
    # the await is reachable only in the (flag false) region and after some take returned None
    st = df.state_in.get(poll.bb)
    flag_false = st is not None and in_set(st.get(("call", load.bb)), {0})
    none_seen = st is not None and any(in_set(st.get(("disc", (t.dest[0], ()))), {0}) for t in takes if not t.dest[1])
    r1.instance("await-after-flag-false", flag_false, "the await must be in the sender_dropped==false region; state: " + (df.fmt_state(st) if st else "unreachable"), poll.span)
    r1.instance("await-after-empty-slot", none_seen, "the await must follow a take() that returned None; state: " + (df.fmt_state(st) if st else "unreachable"), poll.span)
    r1.instance("await-target-is-notified", _derives_from(b, df, poll, notified), "the awaited future must be this iteration's notified()", poll.span)
    # R4
    ysb = set(ys)
    def returned_directly(l, depth=0):
        """local l is the return place, or is only ever moved (through temporaries) into it"""
        if l == 0:
            return True
        us = uses_of_local(b, l)
        if depth > 4 or len(us) != 1 or us[0][1][0] != "stmt":
            return False
        st = us[0][1][1]
        return st[2][0] == "use" and not st[1][1] and returned_directly(st[1][0], depth + 1)
    for i, t in enumerate(takes):
        if not t.dest[1] and returned_directly(t.dest[0]):
            reach = b.reachable_after(t.bb)
            r4.instance("take#%d-returned-directly" % i, not (reach & ysb), "take() assigned to the return place must not be followed by an await", t.span)
            continue
        sw = switch_on(b, df, ("disc", (t.dest[0], ())))
        if not sw:
            r4.fail("take#%d-unknown-shape" % i, "take() result is neither returned directly nor matched on", t.span)
            continue
        for s in sw:
            edges, other = switch_edges(b, s)
            some_tg = edges.get(1, other)
            reach = b.reachable_from(some_tg)
            r4.instance("take#%d-some-arm" % i, not (reach & ysb),
                        "no await may be reachable once take() returned Some (the value would be dropped with the cancelled future)", t.span)


def _mentions_local(rv, l):
    import json
    return ("[%d, []]" % l) in json.dumps(rv)


def _derives_from(b, df, poll, notified):
    """poll's pinned receiver derives (through single-def temps and calls) from the `pinned` local of notified()"""
    target = notified.dest[0]
    seen = set()
    work = []
    for a in poll.args[:1]:
        if a[0] in ("c", "m"):
            work.append(a[1][0])
    while work:
        l = work.pop()
        if l == target:
            return True
        if l in seen:
            continue
        seen.add(l)
        for d in b.defs.get(l, []):
            if d[0] == "stmt":
                work += _locals_in(d[3])
            elif d[0] == "call":
                for a in d[2].args:
                    if a[0] in ("c", "m"):
                        work.append(a[1][0])
    return False


def _locals_in(rv):
    out = []

    def walk(x):
        if isinstance(x, list):
            if len(x) == 2 and isinstance(x[0], int) and isinstance(x[1], list):
                out.append(x[0])
            for y in x:
                walk(y)
    walk(rv)
    return out


def r2(ctx, facts):
    r = ctx.rule("R2", "Drop for Sender: flag store dominates notify_one", floor=3)
    b = facts.one(r"<scylla::cluster::metadata::merge_channel::Sender<T> as core::ops::drop::Drop>::drop$")
    df = df_of(b, facts)
    stores = flag_call(b, df, "store", "sender_dropped")
    if len(stores) != 1:
        raise AnchorLost("expected one store to sender_dropped in Drop for Sender, found %d" % len(stores))
    st = stores[0]
    val = st.args[1]
    r.instance("stores-true", val[0] == "k" and val[1] == "int" and int(val[3]) == 1, "Drop for Sender must store true", st.span)
    notes = b.calls_to("tokio::sync::notify::Notify::notify_one", "tokio::sync::notify::Notify::notify_waiters")
    if not notes:
        r.fail("no-notify", "Drop for Sender does not notify the receiver (it would park forever)", b.span)
    for i, n in enumerate(notes):
        r.instance("store-dominates-notify#%d" % i, b.dominates(st.bb, n.bb) and st.bb != n.bb,
                   "sender_dropped must be set before notifying (a receiver woken by the notification must observe the flag)", n.span)
    rb = facts.one(r"<scylla::cluster::metadata::merge_channel::Receiver<T> as core::ops::drop::Drop>::drop$")
    rdf = df_of(rb, facts)
    rs = flag_call(rb, rdf, "store", "receiver_dropped")
    r.instance("receiver-drop-sets-flag", len(rs) == 1 and rs[0].args[1][0] == "k" and int(rs[0].args[1][3]) == 1,
               "Drop for Receiver must store receiver_dropped = true (the producer learns the consumer is gone)", rb.span)


def r3(ctx, facts):
    r = ctx.rule("R3", "modify: receiver_dropped tested before f; notify iff slot.is_some() after f", floor=6)
    b = facts.one(r"merge_channel::Sender::<T>::modify$")
    df = df_of(b, facts)
    loads = flag_call(b, df, "load", "receiver_dropped")
    if len(loads) != 1:
        raise AnchorLost("expected one load of receiver_dropped in modify")
    load = loads[0]
    fcalls = [c for c in b.calls_to("core::ops::function::FnOnce::call_once") if "res" not in c.callee]
    if len(fcalls) != 1:
        raise AnchorLost("expected one invocation of f in modify, found %d" % len(fcalls))
    f = fcalls[0]
    somes = b.calls_to("core::option::Option::<T>::is_some")
    if len(somes) != 1:
        raise AnchorLost("expected one is_some() in modify")
    some = somes[0]
    notes = b.calls_to("tokio::sync::notify::Notify::notify_one")
    if len(notes) != 1:
        raise AnchorLost("expected one notify_one() in modify, found %d" % len(notes))
    note = notes[0]
    locks = b.calls_to("mutex::Mutex::<T>::lock")
    st_f = df.state_in.get(f.bb)
    r.instance("flag-tested-before-f", in_set(st_f.get(("call", load.bb)) if st_f else None, {0}),
               "f must only run in the receiver_dropped==false region", f.span)
    # the true edge returns Err(SendError)
    sws = truth_edges(b, df, ("call", load.bb))
    ok = False
    if len(sws) == 1:
        ttg = sws[0][1]
        reach = b.reachable_from(ttg)
        errs = [1 for bb in reach for s in b.stmts(bb) if s[0] == "A" and s[1][0] == 0 and s[2][0] == "agg" and s[2][1][0] == "adt" and s[2][1][2] == "Err"]
        oks = [1 for bb in reach for s in b.stmts(bb) if s[0] == "A" and s[1][0] == 0 and s[2][0] == "agg" and s[2][1][0] == "adt" and s[2][1][2] == "Ok"]
        ok = bool(errs) and not oks and f.bb not in reach
    r.instance("dropped-receiver-yields-error", ok, "receiver_dropped==true must lead to Err(SendError) without applying f", load.span)
    r.instance("f-under-lock", any(b.dominates(l.bb, f.bb) for l in locks), "f must run with the slot mutex held", f.span)
    r.instance("is_some-after-f", b.dominates(f.bb, some.bb) and f.bb != some.bb, "slot.is_some() must be evaluated after f ran", some.span)
    st_n = df.state_in.get(note.bb)
    r.instance("notify-only-if-pending", in_set(st_n.get(("call", some.bb)) if st_n else None, {1}),
               "notify_one() must be in the has_value==true region", note.span)
    sws = truth_edges(b, df, ("call", some.bb))
    ok = False
    if len(sws) == 1:
        ttg = sws[0][1]
        reach = b.reachable_from(ttg, removed_nodes=[note.bb])
        ok = not (reach & set(b.exits))
    r.instance("pending-implies-notify", ok, "every path from has_value==true to the return must call notify_one() (else the consumer sleeps on a pending value)", note.span)


def r5(ctx, facts):
    r = ctx.rule("R5", "memory orderings: flag stores >= Release, loads >= Acquire", floor=4)
    n = 0
    for b in facts.find(r"^<?scylla::cluster::metadata::merge_channel::"):
        for m, allowed in (("store", {"Release", "SeqCst"}), ("load", {"Acquire", "SeqCst"}), ("swap", {"AcqRel", "SeqCst"})):
            for c in b.calls_to("core::sync::atomic::Atomic::<bool>::" + m):
                o = enum_variant_of_operand(b, c.args[-1])
                n += 1
                r.instance("%s:%s#%d" % (fn_short(b.path), m, n), o in allowed, "ordering is %s, need one of %s" % (o, sorted(allowed)), c.span)


def r6(ctx, facts):
    r = ctx.rule("R6", "SPSC by construction; slot only under the mutex; no guard across await", floor=9)
    for who in ("Sender", "Receiver"):
        adt = MOD + who
        facts.adt(adt)
        clones = [i for i in facts.impls if i.get("trait_def") in ("core::clone::Clone", "core::marker::Copy") and i.get("self_adt") == adt]
        r.instance(who + "-not-Clone", not clones, "%s must not implement Clone/Copy (single producer / single consumer)" % who,
                   clones[0]["file"] if clones else None)
    for pat, nm in ((r"merge_channel::Sender::<T>::modify$", "modify"), (r"merge_channel::Receiver::<T>::recv$", "recv"), (r"merge_channel::Receiver::<T>::try_recv$", "try_recv")):
        b = facts.one(pat)
        r.instance(nm + "-takes-&mut-self", b.local_ty(1).startswith("&mut "), "%s must take &mut self; self is %s" % (nm, b.local_ty(1)), b.span)
    # every reference to Shared.slot flows straight into Mutex::lock
    n = 0
    for b in facts.find(r"^<?scylla::cluster::metadata::merge_channel::"):
        df = df_of(b, facts)
        for bb in b.live_blocks:
            for st in b.stmts(bb):
                if st[0] == "A" and st[2][0] in ("ref", "addr"):
                    pl = st[2][-1]
                    last = [e for e in pl[1] if isinstance(e, list) and e[0] == "f"]
                    if last and last[-1][2] == "slot" and pl[1][-1] == last[-1]:
                        n += 1
                        l = st[1][0]
                        t = b.term(bb)
                        ok = t[0] == "call" and (t[1].get("def", "").endswith("mutex::Mutex::<T>::lock")) and t[2] and t[2][0][0] == "m" and t[2][0][1][0] == l
                        r.instance("slot-ref-locked:%s#%d" % (fn_short(b.path), n), ok, "a reference to Shared.slot must be consumed by Mutex::lock", b.stmt_span(st))
                elif st[0] == "A" and st[2][0] == "agg" and st[2][1][0] == "adt" and st[2][1][1] == MOD + "Shared":
                    pass
    rb = facts.one(r"merge_channel::Receiver::<T>::recv::\{closure#0\}$")
    held = guard_across_yield(rb)
    r.instance("no-guard-in-recv-coroutine", not held, "a MutexGuard of the slot may be live at an await of the recv coroutine: %s" % [(rb.local_name(l) or "_%d" % l, y) for l, _, y in held][:3], rb.span)


def r7(ctx, facts):
    r = ctx.rule("R7", "wiring: producer publishes only via modify; consumer receives via recv and stops on None", floor=3)
    mod_callers = {b.path for b, _ in facts.callers_of(MOD + "Sender::<T>::modify")}
    recv_callers = {b.path for b, _ in facts.callers_of(MOD + "Receiver::<T>::recv")}
    ctor_callers = {b.path for b, _ in facts.callers_of(MOD + "merge_channel")}
    r.instance("modify-callers", bool(mod_callers) and all("cluster::metadata::worker" in p or "cluster::metadata::update" in p or "cluster::worker" in p for p in mod_callers),
               "callers of Sender::modify: %s" % sorted(fn_short(p) for p in mod_callers))
    r.instance("recv-callers", bool(recv_callers) and all("cluster::worker" in p for p in recv_callers),
               "callers of Receiver::recv: %s" % sorted(fn_short(p) for p in recv_callers))
    r.instance("single-constructor-site", len(ctor_callers) == 1, "merge_channel() is constructed at: %s" % sorted(fn_short(p) for p in ctor_callers))


def r8(ctx, facts):
    """what the producer merges into a pending update must not discard what is already pending"""
    r = ctx.rule("R8", "merging into a pending update never drops pending refresh replies", floor=4)
    MC = "scylla::cluster::metadata::update::MetadataChanges"
    bodies = [b for b in facts.find(r"^scylla::cluster::metadata::update::MetadataUpdate::merge_\w+$")]
    if len(bodies) < 3:
        raise AnchorLost("MetadataUpdate::merge_* functions not found")
    from ..util import backward_slice
    n = 0
    for b in bodies:
        df = df_of(b, facts)
        # whole-value stores into `.metadata_changes`
        stores = []
        for bb in sorted(b.live_blocks):
            for j, s in enumerate(b.stmts(bb)):
                if s[0] == "A" and s[1][1] and path_last(df.canon.path(s[1])) == "metadata_changes":
                    stores.append((bb, j, s))
        # edges taken when the pending value is `Full`
        full_targets, tested = [], []
        for bb in b.live_blocks:
            t = b.term(bb)
            if t[0] != "switch":
                continue
            e = df.expr_of_operand(t[1])
            if e[0] == "disc" and "metadata_changes" in e[1][1]:
                tested.append(bb)
                if df.disc_ty.get(e[1], "") == MC:
                    for v, tg in t[2]:
                        if facts.variant_by_discr(MC, v) == "Full":
                            full_targets.append(tg)
                    listed = {facts.variant_by_discr(MC, v) for v, _ in t[2]}
                    if "Full" not in listed:
                        full_targets.append(t[3])
        for bb, j, s in stores:
            n += 1
            guarded = any(b.dominates(tb, bb) for tb in tested)
            via_full = (not guarded) or any(bb in b.reachable_from(tg) for tg in full_targets)
            ok = not via_full
            why = "stored only where the pending value is None / Partial"
            if via_full:
                # acceptable only if the new value carries the old reply channels over
                locs, calls, _ = backward_slice(b, s[2][1] if s[2][0] == "use" else ["c", [s[1][0], []]])
                from .c20 import slice_fields
                carried = "refresh_responses" in slice_fields(b, s[2][1]) if s[2][0] == "use" else False
                ok = carried
                why = "overwrites `metadata_changes` while a Full update (with the reply channels of pending refresh requests) may be pending, and does not carry its refresh_responses over"
            r.instance("%s:store#%d" % (fn_short(b.path), n), ok, why, b.stmt_span(s))
        # the Full arm of merge_metadata appends the new channel
        if b.path.endswith("::merge_metadata"):
            pushes = [c for c in b.calls_to("Vec::<T, A>::push", "Vec::<T, A>::extend", "Vec::<T, A>::append", "core::iter::traits::collect::Extend::extend", "Vec::<T, A>::extend_from_slice")
                      if any(c.bb in b.reachable_from(tg) for tg in full_targets)]
            r.instance("merge_metadata:full-arm-appends-reply", bool(pushes), "when a Full update is already pending, the new refresh reply channel must be appended to its refresh_responses", b.span)
    if n == 0:
        raise AnchorLost("no store into MetadataUpdate.metadata_changes found")


CONDITIONAL_STORES = ("or_insert", "or_insert_with", "or_insert_with_key", "try_insert", "get_or_insert", "get_or_insert_with", "or", "or_else", "xor", "insert_if_absent")


def r9(ctx, facts):
    r = ctx.rule("R9", "whatever a merge_* function is given ends up in the pending update on every path (nothing fetched is silently dropped)", floor=4)
    n = 0
    for b in facts.find(r"^scylla::cluster::metadata::update::MetadataUpdate::merge_[a-z_]+$"):
        if b.argc < 2:
            continue
        dj = dj_of(b, facts)
        for p in range(2, b.argc + 1):
            n += 1
            use_bbs, work, seen = set(), [p], set()
            cond_bbs = set()
            while work:
                l = work.pop()
                if l in seen:
                    continue
                seen.add(l)
                for ub, where, _op in uses_of_local(b, l):
                    if where[0] == "stmt":
                        st = where[1]
                        if st[1][1]:            # stored into a place behind a projection (a field of the pending update)
                            use_bbs.add(ub)
                        elif st[2][0] == "agg":
                            use_bbs.add(ub)     # wrapped into a value that is built here (Some(..), Partial(..), Full{..})
                        else:
                            work.append(st[1][0])
                    elif where[0] == "arg":
                        callee = b.term(ub)[1].get("def", "") or ""
                        if callee.split("::")[-1] in CONDITIONAL_STORES:
                            # `entry(k).or_insert(v)` / `try_insert` / `get_or_insert` keep what is there and DROP v when the slot is taken:
                            # the first value wins, the later one - the newer - is lost. Not a store of the payload.
                            cond_bbs.add(ub)
                            continue
                        use_bbs.add(ub)
            pdisc = ("disc", dj.disc_root((p, ())))
            is_opt = b.local_ty(p).startswith("core::option::Option<")

            def nothing_to_merge(st, _pdisc=pdisc, _opt=is_opt, _key=(fn_short(b.path), b.local_name(p))):
                # an absent optional payload (`None`) has nothing to store
                if _opt and in_set(st.get(_pdisc), {0}):
                    return True
                # reviewed: a client-routes snapshot arriving while the pending full metadata has no client routes configured is logged and dropped
                if _key == ("MetadataUpdate::merge_client_routes_update", "new_client_routes"):
                    return any(k[0] == "disc" and in_set(v, {0}) and "client_routes" in dj.canon.fmt(k[1]) for k, v in st.items())
                return False
            escaped = dj.feasible_reach(0, removed_nodes=use_bbs, drop_state=nothing_to_merge) & set(b.exits)
            r.instance("%s:%s-is-merged-on-every-path" % (fn_short(b.path), b.local_name(p) or "arg%d" % p), bool(use_bbs) and not escaped,
                       "%s can return without storing or handing on its `%s` argument%s: the value the producer merged in never reaches the consumer, although modify() reports success"
                       % (fn_short(b.path), b.local_name(p) or "arg%d" % p, " (it is only offered to a keep-the-first insertion such as entry().or_insert(): the newer value is dropped when one is pending)" if cond_bbs else ""), b.span)
    if n < 4:
        raise AnchorLost("MetadataUpdate::merge_* functions not found (%d payload arguments)" % n)


def r10(ctx, facts):
    """user-visible clause: a refresh is answered only after the state it fetched was published"""
    r = ctx.rule("R10", "a refresh request is answered Ok only after the refreshed cluster state was published", floor=1)
    from ..util import closure_family, must_pass
    b = facts.one(r"^scylla::cluster::worker::ClusterWorker::apply_metadata_update::\{closure#0\}$")
    pubs = [c.bb for c in b.calls_to("ClusterWorker::update_cluster_state", "ArcSwapAny::<T, S>::store", "arc_swap::ArcSwapAny::<T, S>::swap")]
    if not pubs:
        raise AnchorLost("apply_metadata_update: the new cluster state is not published (update_cluster_state / ArcSwap::store not found)")
    n = 0
    for body in closure_family(facts, b):
        for bb, c in body.calls():
            if bb not in body.live_blocks or not (c.name or "").endswith("oneshot::Sender::<T>::send"):
                continue
            n += 1
            if body.path != b.path:
                # a reply sent from a closure (for_each): the closure must be created after the publication. The aggregate that
                # builds it is looked for in b's own blocks (which include the blocks of helpers split off b), outermost closure first
                chain_ = [body.path]
                cur = body
                while cur.parent and facts.body(cur.parent) is not None and facts.body(cur.parent).kind == "Closure" and cur.parent != b.path:
                    cur = facts.body(cur.parent)
                    chain_.append(cur.path)
                where = [bb2 for bb2 in sorted(b.live_blocks) for st2 in b.stmts(bb2)
                         if st2[0] == "A" and st2[2][0] == "agg" and st2[2][1][0] in ("closure", "coroutine") and st2[2][1][1] in chain_]
                ok = bool(where) and all(must_pass(b, facts, pubs, w) for w in where)
                r.instance("reply-after-publication", ok, "a refresh reply is sent from a closure that is not known to run after the new state was stored", c.span)
                continue
            ok = must_pass(b, facts, pubs, bb)
            r.instance("reply-after-publication", ok,
                       "a refresh request is answered before update_cluster_state(): refresh_metadata() returns while get_cluster_state() still shows the old topology "
                       "(the pools of new nodes are awaited in between, so the requester really runs first)", c.span)
    if n == 0:
        raise AnchorLost("apply_metadata_update: no reply on the refresh response channels found")


def r11(ctx, facts):
    """the single pending-request slot of the metadata worker: a refresh request is taken from the channel only when a fetch can be started for it"""
    r = ctx.rule("R11", "the metadata worker receives a refresh request only where it is not already busy with a full fetch (the select! branch keeps its precondition): the one pending-request slot is never overwritten", floor=1)
    from ..util import field_slice
    b = facts.one(r"^scylla::cluster::metadata::worker::MetadataWorker::work_on_cc::\{closure#0\}$")
    dj = dj_of(b, facts)
    recvs = [c for c in b.calls_to("mpsc::bounded::Receiver::<T>::recv") if "refresh_channel" in str(c.args) or any(
        isinstance(e, list) and e[0] == "f" and e[2] == "refresh_channel" for l, _ in field_slice(b, c.args[0])[0] for d in b.defs.get(l, []) if d[0] == "stmt" for pl in _places19(d[3]) for e in pl[1])]
    if len(recvs) != 1:
        raise AnchorLost("work_on_cc: expected one refresh_channel.recv(), found %d" % len(recvs))
    d = recvs[0].dest[0]
    k = None
    for bb in sorted(b.live_blocks):
        for st in b.stmts(bb):
            if st[0] == "A" and st[2][0] == "agg" and st[2][1][0] == "tuple":
                for i, op in enumerate(st[2][2]):
                    if op[0] in ("c", "m") and op[1][0] == d and not op[1][1]:
                        k = i
    if k is None:
        raise AnchorLost("work_on_cc: the refresh_channel.recv() future is not one of the select! branches")
    # `disabled |= 1 << k` under the branch's precondition
    guarded = False
    for bb in sorted(b.live_blocks):
        for st in b.stmts(bb):
            if st[0] == "A" and st[2][0] == "bin" and st[2][1] in ("Shl", "ShlUnchecked") and st[2][2][0] == "k" and str(st[2][2][3]) == "1" and st[2][3][0] == "k" and str(st[2][3][3]) == str(k) \
                    and b.local_ty(st[1][0]) in ("u8", "u16", "u32", "u64"):
                sts = dj.states_at(bb)
                # guarded by a boolean that is not a constant: some multiply-assigned bool local is known true here
                if sts and all(any(kk[0] == "val" and not kk[1][1] and b.local_ty(kk[1][0]) == "bool" and in_set(v, {1}) and len(b.defs.get(kk[1][0], [])) > 1 for kk, v in stt.items()) for stt in sts):
                    guarded = True
    r.instance("refresh-request-branch-is-guarded", guarded,
               "the select! branch that receives refresh requests (branch %d) has no precondition that can disable it: a request is then accepted while a full fetch is in flight and "
               "set_pending_request() overwrites the one pending-request slot - the earlier requester's reply channel is dropped and its refresh_metadata() never answered" % k, recvs[0].span)


def _places19(rv):
    from ..util import _rv_places
    return _rv_places(rv)


def r12(ctx, facts):
    """a PARTIAL fetch (client routes, peer list) is merged INTO what is pending; only full metadata subsumes - and may replace -
    a pending partial update. A partial merge that overwrites `metadata_changes` while something is pending throws away the
    other aspect's pending result (seed C19-j: a peer list erasing the pending client-routes update)."""
    r = ctx.rule("R12", "a partial merge replaces `metadata_changes` as a whole only when nothing is pending", floor=1)
    n = 0
    for nm in ("merge_client_routes_update", "merge_topology_update"):
        b = facts.one(r"^scylla::cluster::metadata::update::MetadataUpdate::%s$" % nm)
        dj = dj_of(b, facts)
        df = df_of(b, facts)
        stores = []
        for bb in sorted(b.live_blocks):
            for st in b.stmts(bb):
                if st[0] == "A" and st[1][1]:
                    pth = df.canon.path(st[1])
                    if pth and pth[1] and pth[1][-1] == "metadata_changes":
                        stores.append((bb, st, pth))
        for k, (bb, st, pth) in enumerate(stores):
            n += 1
            key = ("disc", pth)
            pending = [s_ for s_ in dj.states_at(bb) if not in_set(s_.get(key), {0})]
            r.instance("%s:whole-store-only-when-empty#%d" % (nm, k), not pending,
                       "MetadataUpdate::%s overwrites the pending `metadata_changes` in a state where it is not known to be `None`: "
                       "whatever another partial fetch (or a full one) had left there is dropped and never observed by the consumer" % nm,
                       b.stmt_span(st))
    if n == 0:
        # no whole-field store at all (e.g. `get_or_insert_with(|| Partial(default()))`, which keeps what is pending): then nothing
        # may be written through a `&mut MetadataChanges` / `&mut Option<MetadataChanges>` as a whole either
        bad = []
        for nm in ("merge_client_routes_update", "merge_topology_update"):
            b = facts.one(r"^scylla::cluster::metadata::update::MetadataUpdate::%s$" % nm)
            for bb in sorted(b.live_blocks):
                for st in b.stmts(bb):
                    if st[0] == "A" and st[1][1] == ["*"] and b.local_ty(st[1][0]).replace("&mut ", "").replace("core::option::Option<", "").rstrip(">").endswith("update::MetadataChanges"):
                        bad.append((nm, b.stmt_span(st)))
        r.instance("no-overwrite-of-the-pending-update", not bad,
                   "%s assigns through a `&mut` to the whole pending update: whatever was pending is dropped" % (bad[0][0] if bad else ""), bad[0][1] if bad else None)


def r13(ctx, facts):
    """order between the two kinds of update: a full fetch is started after, and supersedes, every partial fetch that is still
    pending (the reader preempts partial fetches in flight). merge_metadata therefore publishes the fetched metadata AS FETCHED:
    nothing older - a pending partial peer list, pending client routes - may be written into it (seed C19-k)."""
    r = ctx.rule("R13", "merge_metadata hands on the freshly fetched metadata unmodified (an older pending partial update is never folded into it)", floor=1)
    b = facts.one(r"^scylla::cluster::metadata::update::MetadataUpdate::merge_metadata$")
    ps = [l for l in range(1, b.argc + 1) if b.local_ty(l).endswith("::Metadata")]
    if len(ps) != 1:
        raise AnchorLost("merge_metadata: expected one parameter of type Metadata, found %d" % len(ps))
    P = ps[0]
    # locals the parameter is moved into as a whole before it is stored
    holders, work = {P}, [P]
    while work:
        l = work.pop()
        for bb in b.live_blocks:
            for st in b.stmts(bb):
                if st[0] == "A" and not st[1][1] and st[2][0] == "use" and st[2][1][0] in ("c", "m") and st[2][1][1][0] == l and not st[2][1][1][1] and st[1][0] not in holders:
                    holders.add(st[1][0])
                    work.append(st[1][0])
    bad = []
    for bb in sorted(b.live_blocks):
        for st in b.stmts(bb):
            if st[0] != "A":
                continue
            if st[1][0] in holders and st[1][1]:
                bad.append(("a field of the fetched metadata is assigned", b.stmt_span(st)))
            if st[2][0] in ("ref", "addr") and (st[2][1] == "m" or st[2][0] == "addr") and st[2][2][0] in holders:
                bad.append(("the fetched metadata is borrowed mutably", b.stmt_span(st)))
    r.instance("fetched-metadata-is-stored-as-fetched", not bad,
               "%s in merge_metadata before it is stored: whatever is written there comes from an update that was pending, i.e. was fetched EARLIER than this "
               "metadata - the consumer would observe the older peers / routes as the newest state" % (bad[0][0] if bad else ""), bad[0][1] if bad else b.span)


def check(ctx):
    facts = inline_view(ctx.facts("default"))
    for fn in (r1_r4, r2, r3, r5, r6, r7, r8, r9, r10, r11, r12, r13):
        try:
            fn(ctx, facts)
        except AnchorLost as ex:
            ctx.rule(fn.__name__.upper() + "x", "anchors of " + fn.__name__).fail("anchor-lost", str(ex))
    ctx.assumptions += [
        "tokio::sync::Notify semantics: a Notified future that was enable()d before a notify_one() receives that permit",
        "textbook argument: with enable-before-inspect and flag-before-notify no wake-up is lost; the rules check the shapes that make it applicable",
    ]
