"""C06 — a non-idempotent request is never re-sent after it may have been applied.

Decided statically (structural clauses, every error value x field combination x history position at once):
 R1 the full decision table of every workspace `impl RetrySession`: a Retry* decision is reachable only where
    `request_info.is_idempotent` is known true or the possible error classes are within the SAFE set
    {DbError::Unavailable, DbError::IsBootstrapping, DbError::ReadTimeout, RequestAttemptError::UnableToAllocStreamId};
 R2 the default policy has no retry site reachable with is_serial() == true;
 R3 every RetrySameTarget site is one-shot: guarded by a self.<flag> == false test and paired with self.<flag> = true;
 R4 the interpreting loop re-sends only through decide_should_retry + a Retry* edge; DontRetry cannot reach a send;
    RetryNextTarget goes through the plan iterator's next(), RetrySameTarget does not;
 R5 the is_idempotent flag shown to the policy is the caller's (copied from self.is_idempotent / statement config).
Not decided: behaviour of user-supplied policies; end-to-end frame counts.
"""
from ..inline import inline_view
from ..dataflow import Dataflow, adt_of_type
from ..mir import AnchorLost
from ..util import df_of, dj_of, in_set, uses_of_local, backward_slice

TRAIT = "scylla::policies::retry::retry_policy::RetrySession"
DECISION = "scylla::policies::retry::retry_policy::RetryDecision"
REQINFO = "scylla::policies::retry::retry_policy::RequestInfo"
RAE = "scylla::errors::RequestAttemptError"
DBE = "scylla_cql_core::frame::response::error::DbError"
SAFE_DB = {"Unavailable", "IsBootstrapping", "ReadTimeout"}
SAFE_RAE = {"UnableToAllocStreamId"}
RETRY = {"RetrySameTarget", "RetryNextTarget"}


def short(path):
    return path.replace("scylla::policies::retry::", "").replace("retry_policy::", "")


def decision_summary(facts, path, depth=0, seen=None):
    """set of RetryDecision variants a workspace function can construct (transitively, bounded)."""
    seen = seen or set()
    if path in seen or depth > 3:
        return set()
    seen.add(path)
    b = facts.body(path)
    if b is None:
        return None
    out = set()
    for bb in b.live_blocks:
        for st in b.stmts(bb):
            if st[0] == "A" and st[2][0] == "agg" and st[2][1][0] == "adt" and st[2][1][1] == DECISION:
                out.add(st[2][1][2])
        t = b.term(bb)
        if t[0] == "call":
            dty = b.local_ty(t[3][0]) if not t[3][1] else ""
            if dty == DECISION:
                name = t[1].get("res") or t[1].get("def")
                sub = decision_summary(facts, name, depth + 1, seen) if name else None
                if sub is None:
                    out.add("?unknown")
                else:
                    out |= sub
    return out


def decision_sites(facts, b):
    """(bb, stmt_idx or None for call, variants) for every place a RetryDecision value is produced."""
    sites = []
    for bb in sorted(b.live_blocks):
        for j, st in enumerate(b.stmts(bb)):
            if st[0] == "A" and st[2][0] == "agg" and st[2][1][0] == "adt" and st[2][1][1] == DECISION:
                sites.append((bb, j, {st[2][1][2]}, b.stmt_span(st)))
        t = b.term(bb)
        if t[0] == "call" and not t[3][1] and b.local_ty(t[3][0]) == DECISION:
            name = t[1].get("res") or t[1].get("def")
            sub = decision_summary(facts, name) if name else None
            if sub is None:
                sub = {"?unknown"}
            sites.append((bb, None, sub, b.term_span(bb)))
    return sites


def reqinfo_local(b):
    for l in range(1, b.argc + 1):
        if b.local_ty(l).startswith(REQINFO):
            return l
    raise AnchorLost("no RequestInfo parameter in " + b.path)


def error_classes(df, st, ri):
    """possible error classes at a state: set of 'RAE::X' / 'DbError::Y'."""
    facts = df.facts
    rae_all = facts.variants(RAE)
    dbe_all = facts.variants(DBE)
    k_rae = ("disc", (ri, ("error",)))
    k_dbe = ("disc", (ri, ("error", "@DbError", "0")))
    vs = st.get(k_rae)
    rae = set(rae_all) if vs is None else df.variant_names(k_rae[1], vs, RAE)
    out = set()
    for v in rae:
        if v == "DbError":
            vd = st.get(k_dbe)
            dbs = set(dbe_all) if vd is None else df.variant_names(k_dbe[1], vd, DBE)
            out |= {"DbError::" + d for d in dbs}
        else:
            out.add("RequestAttemptError::" + v)
    return out


def is_safe(classes):
    for c in classes:
        k, v = c.split("::")
        if k == "DbError" and v in SAFE_DB:
            continue
        if k == "RequestAttemptError" and v in SAFE_RAE:
            continue
        return False
    return True


def r1_r2_r3(ctx, facts):
    impls = [i for i in facts.impls if i.get("trait_def") == TRAIT]
    r1 = ctx.rule("R1", "decision table: Retry* only if is_idempotent==true or error class within SAFE", floor=12)
    r2 = ctx.rule("R2", "default policy: no retry site reachable with a serial consistency", floor=7)
    r3 = ctx.rule("R3", "RetrySameTarget sites are one-shot (flag tested false and set true)", floor=5)
    if len(impls) < 3:
        r1.fail("anchor-lost", "expected >=3 impls of RetrySession in the workspace, found %d" % len(impls))
    for im in impls:
        meth = [it for it in im["items"] if it[0] == "decide_should_retry"]
        if not meth:
            r1.fail("anchor-lost", "impl RetrySession for %s has no decide_should_retry" % im["self"])
            continue
        b = facts.body(meth[0][1])
        if b is None:
            r1.fail("anchor-lost", "no MIR for " + meth[0][1])
            continue
        who = adt_of_type(im["self"]).split("::")[-1]
        ri = reqinfo_local(b)
        df = Dataflow(b, facts)
        sites = decision_sites(facts, b)
        n_retry = 0
        for bb, j, variants, span in sites:
            if not df.feasible(bb):
                continue
            st = df.state_before_stmt(bb, j) if j is not None else df.out_state(bb)
            kinds = sorted(variants)
            if "?unknown" in variants:
                r1.fail("%s:unknown-helper@%s" % (who, "-".join(kinds)), "decision produced by a callee without MIR", span)
                continue
            if not (variants & RETRY):
                continue
            n_retry += 1
            # per disjunctive state (a gate such as `let ok = info.is_idempotent && other; if ok {..}` keeps its correlation with the
            # field only there; the joined state forgets it)
            djf = dj_of(b, facts)
            dsts = (djf.states_before_stmt(bb, j) if j is not None else djf.states_before_stmt(bb, len(b.stmts(bb)))) or [st]
            classes, idem_true, safe, okser = set(), True, True, True
            for dst in dsts:
                idem = dst.get(("val", (ri, ("is_idempotent",))))
                it = idem is not None and idem[0] == "in" and idem[1] <= {1} and len(idem[1]) == 1
                cl = error_classes(djf, dst, ri)
                classes |= cl
                sf = is_safe(cl)
                if not (it or sf):
                    idem_true = idem_true and it
                    safe = safe and sf
                ser = [k for k in dst if k[0] == "call" and b.term(k[1])[1].get("def", "").endswith("Consistency::is_serial")]
                if not any(dst[k][0] == "in" and dst[k][1] == frozenset([0]) for k in ser):
                    okser = False
            all_ok = all(((lambda idem: idem is not None and idem[0] == "in" and idem[1] <= {1} and len(idem[1]) == 1)(dst.get(("val", (ri, ("is_idempotent",)))))
                          or is_safe(error_classes(djf, dst, ri))) for dst in dsts)
            desc = "%s:%s:%s" % (who, "+".join(sorted(variants & RETRY)), ",".join(sorted(classes)) if len(classes) <= 6 else "%d-classes" % len(classes))
            detail = "retry decision %s reachable with is_idempotent=%s and error classes {%s}; state: %s" % (
                kinds, "true" if all_ok else "unconstrained/false", ", ".join(sorted(classes)), df.fmt_state(st))
            r1.instance(desc, all_ok, detail, span, data={"classes": sorted(classes), "idempotent_guard": all_ok})
            # R2 (default policy only)
            if who == "DefaultRetrySession":
                r2.instance(desc, okser, "retry site must lie in the is_serial()==false region; state: " + df.fmt_state(st), span)
            # R3
            if "RetrySameTarget" in variants:
                selfl = 1
                flags = [k for k in st if k[0] == "val" and k[1][0] == selfl and len(k[1][1]) == 1]
                # stores `self.F = true` whose pre-state has F in {0}
                good = None
                for sb in b.live_blocks:
                    for sj, s in enumerate(b.stmts(sb)):
                        if s[0] == "A" and s[2][0] == "use" and s[2][1][0] == "k" and s[2][1][1] == "int" and int(s[2][1][3]) == 1:
                            p = df.canon.path(s[1])
                            if p[0] == selfl and len(p[1]) == 1:
                                pre = df.state_before_stmt(sb, sj)
                                if pre is None:
                                    continue
                                v = pre.get(("val", p))
                                was_false = v is not None and v[0] == "in" and v[1] == frozenset([0])
                                if not was_false:
                                    continue
                                dom = (sb == bb and (j is None or sj < j)) or (sb != bb and b.dominates(sb, bb))
                                pdom = (sb == bb and j is not None and sj > j) or (sb != bb and b.postdominates(sb, bb))
                                if dom or pdom:
                                    good = p[1][0]
                r3.instance(desc, good is not None,
                            "RetrySameTarget must be paired with a one-shot self.<flag> (tested false, set true on the same path); "
                            + ("flag=%s" % good if good else "no such flag store dominates/post-dominates the site"), span)
        r1.note("%s: %d decision sites, %d retry sites" % (who, len(sites), n_retry))


def failed_pick(r, facts):
    """(d) round 9: the fiber makes progress between two picks of a connection: either an attempt was sent or the plan
    advanced. A pick that failed (pool broken / still connecting) must move on to the next target - asking the same
    pool again, with no await in between, spins forever and no timeout around the fiber can fire. Shared with C10
    (`no caller waits forever; the session keeps working through the remaining connections`)."""
    b = facts.one(r"run_request_speculative_fiber::\{closure#0\}$")
    sends = [c for bb, c in b.calls() if c.decl == "core::ops::function::Fn::call" and "res" not in c.callee and bb in b.live_blocks]
    if len(sends) != 1:
        raise AnchorLost("expected exactly one generic Fn::call (run_request_once) in the fiber, found %d" % len(sends))
    nexts = b.calls_to("iter::traits::iterator::Iterator::next")
    nexts = [c for c in nexts if c.span.macro and "ForLoop" in c.span.macro] or nexts
    if not nexts:
        raise AnchorLost("plan iterator next() not found")
    picks = [c for bb, c in b.calls() if bb in b.live_blocks and (c.name or c.decl or "").split("::")[-1] == "get_connection"]
    if len(picks) != 1:
        raise AnchorLost("expected exactly one get_connection call in the fiber, found %d" % len(picks))
    pk = picks[0].bb
    reach = b.reachable_after(pk, removed_nodes=[c.bb for c in nexts] + [sends[0].bb])
    r.instance("failed-pick-advances-plan", pk not in reach,
               "get_connection can be reached again from itself without sending an attempt and without plan.next(): "
               "a target whose pool has no connection is asked again and again (busy loop, the caller never completes)", picks[0].span)


def r4(ctx, facts):
    r = ctx.rule("R4", "loop re-sends only via decide_should_retry + Retry* edge; next target via plan.next()", floor=5)
    b = facts.one(r"run_request_speculative_fiber::\{closure#0\}$")
    sends = [c for bb, c in b.calls() if c.decl == "core::ops::function::Fn::call" and "res" not in c.callee and bb in b.live_blocks]
    if len(sends) != 1:
        raise AnchorLost("expected exactly one generic Fn::call (run_request_once) in the fiber, found %d" % len(sends))
    send = sends[0].bb
    decides = b.calls_to("RetrySession::decide_should_retry")
    if len(decides) != 1:
        raise AnchorLost("expected exactly one decide_should_retry call in the fiber, found %d" % len(decides))
    dec = decides[0]
    # the switch on the decision
    df = Dataflow(b, facts)
    dlocal = dec.dest[0]
    sw = None
    for bb in b.live_blocks:
        t = b.term(bb)
        if t[0] == "switch":
            e = df.expr_of_operand(t[1])
            if e == ("disc", (dlocal, ())):
                if sw is not None:
                    raise AnchorLost("more than one switch on the retry decision")
                sw = bb
    if sw is None:
        raise AnchorLost("no switch on the retry decision")
    t = b.term(sw)
    edges = {}
    for v, tg in t[2]:
        edges[facts.variant_by_discr(DECISION, v)] = tg
    span = b.term_span(sw)
    # (a) every cycle through the send passes through decide: delete decide block, send must not reach itself
    reach = b.reachable_after(send, removed_nodes=[dec.bb])
    r.instance("resend-needs-decision", send not in reach,
               "with the decide_should_retry block removed the send must not be able to reach itself", b.term_span(send))
    # (b) ... and through a Retry* edge: delete the two retry edges
    cut = [(sw, edges.get("RetrySameTarget")), (sw, edges.get("RetryNextTarget"))]
    reach = b.reachable_after(send, removed_edges=cut)
    r.instance("resend-needs-retry-edge", send not in reach,
               "with the RetrySameTarget/RetryNextTarget edges removed the send must not reach itself (DontRetry/Ignore cannot re-send)", span)
    for name in ("DontRetry", "IgnoreWriteError"):
        tg = edges.get(name)
        if tg is None:
            r.fail("edge-" + name, "no switch edge for RetryDecision::" + name, span)
            continue
        reach = b.reachable_from(tg)
        r.instance("no-send-after-" + name, send not in reach, "the %s arm must not reach the send" % name, span)
    # (c) next-target goes through plan.next(); same-target does not
    nexts = b.calls_to("iter::traits::iterator::Iterator::next")
    nexts = [c for c in nexts if c.span.macro and "ForLoop" in c.span.macro] or nexts
    if not nexts:
        raise AnchorLost("plan iterator next() not found")
    nb = [c.bb for c in nexts]
    # (feasible paths: the two retrying arms may share a tail that branches on a flag each arm set)
    from ..util import dj_of
    dj = dj_of(b, facts)
    tg = edges.get("RetryNextTarget")
    reach = dj.feasible_reach_edge(sw, tg, removed_nodes=nb) if tg is not None else {send}
    r.instance("next-target-advances-plan", send not in reach, "RetryNextTarget must advance the plan before re-sending", span)
    tg = edges.get("RetrySameTarget")
    reach = dj.feasible_reach_edge(sw, tg, removed_nodes=nb) if tg is not None else set()
    r.instance("same-target-keeps-target", send in reach, "RetrySameTarget re-sends without advancing the plan", span)
    failed_pick(r, facts)
    # both retry arms count the retry
    for name in ("RetrySameTarget", "RetryNextTarget"):
        tg = edges.get(name)
        incs = [c.bb for c in b.calls_to("inc_retries_num")]
        reach = b.reachable_from(tg, removed_nodes=incs) if tg is not None else {send}
        r.instance("retry-counted-" + name, send not in reach, "every re-send after %s passes inc_retries_num" % name, span, nontrivial=False)


def r5(ctx, facts):
    r = ctx.rule("R5", "is_idempotent shown to the policy is the caller's flag", floor=4)
    b = facts.one(r"run_request_speculative_fiber::\{closure#0\}$")
    df = Dataflow(b, facts)
    n = 0
    for bb in b.live_blocks:
        for st in b.stmts(bb):
            if st[0] == "A" and st[2][0] == "agg" and st[2][1][0] == "adt" and st[2][1][1] == REQINFO:
                fields = st[2][1][4]
                ops = st[2][2]
                op = ops[fields.index("is_idempotent")]
                e = df.expr_of_operand(op)
                ok = e[0] == "val" and e[1][1][-1:] == ("is_idempotent",) and b.local_ty(e[1][0]).endswith("RequestExecutionParams<'_>") or \
                    (e[0] == "val" and e[1][1][-1:] == ("is_idempotent",))
                r.instance("RequestInfo.is_idempotent", ok, "operand is " + df.fmt_expr(e), b.stmt_span(st))
                # round 9: the consistency shown to the policy is the one the attempt was SENT with (the fiber's own
                # running value), not something read back from the failure: the default policy's "never at a serial
                # consistency" test and the downgrading policy's arithmetic are about the request
                if "consistency" in fields:
                    from ..util import field_slice
                    cop = ops[fields.index("consistency")]
                    seen, calls, _ = field_slice(b, cop, stop_at=("decide_should_retry",))
                    from_err = sorted({b.local_ty(l) for l, _ in seen
                                       if any(x in b.local_ty(l) for x in ("RequestAttemptError", "DbError"))})
                    via = sorted({(c.name or c.decl or "?").split("::")[-1] for c in calls
                                  if any(a[0] in ("c", "m") and any(x in b.local_ty(a[1][0]) for x in ("RequestAttemptError", "DbError"))
                                         for a in c.args)})
                    r.instance("RequestInfo.consistency", not from_err and not via,
                               "the consistency handed to decide_should_retry must be the one the attempt was sent with; here it is "
                               "computed from the failure (%s)" % ", ".join(via + from_err), b.stmt_span(st))
                n += 1
    if n == 0:
        raise AnchorLost("no RequestInfo aggregate in the fiber")
    # every RequestExecutionParams aggregate takes is_idempotent from a getter / config field, never a constant
    PARAMS = "scylla::client::execution::RequestExecutionParams"
    for body in facts.bodies.mentioning('"' + PARAMS + '"'):
        for bb in body.live_blocks:
            for st in body.stmts(bb):
                if st[0] == "A" and st[2][0] == "agg" and st[2][1][0] == "adt" and st[2][1][1] == PARAMS:
                    fields = st[2][1][4]
                    op = st[2][2][fields.index("is_idempotent")]
                    d = Dataflow(body, facts) if False else None
                    if op[0] == "k":
                        # a literal: acceptable only if `true`/`false` is what the caller's API fixes; report constants
                        r.instance("RequestExecutionParams.is_idempotent@" + body.path.split("::")[-2] if "::" in body.path else body.path,
                                   False, "is_idempotent is the constant %s" % op[3], body.stmt_span(st))
                    else:
                        from ..dataflow import Canon
                        e = Dataflow.expr_of_operand(_mini(body, facts), op)
                        txt = _mini(body, facts).fmt_expr(e)
                        ok = "is_idempotent" in txt or "idempotent" in txt.lower()
                        r.instance("RequestExecutionParams.is_idempotent@" + _fn(body.path), ok, "operand is " + txt, body.stmt_span(st))


def r5b(ctx, facts):
    r = ctx.rule("R5b", "every `is_idempotent` field in the driver is filled from a statement's flag (or another such field), never from a constant", floor=3)
    seen = 0
    for body in facts.bodies.mentioning('"is_idempotent"'):
        if body.crate != "scylla":
            continue
        for bb in body.live_blocks:
            for st in body.stmts(bb):
                if not (st[0] == "A" and st[2][0] == "agg" and st[2][1][0] == "adt" and "is_idempotent" in (st[2][1][4] or [])):
                    continue
                adt = st[2][1][1]
                if adt.endswith("::RequestInfo") or adt.endswith("RequestExecutionParams"):
                    continue   # rule R5
                op = st[2][2][st[2][1][4].index("is_idempotent")]
                seen += 1
                key = "%s.is_idempotent@%s" % (adt.split("::")[-1], _fn(body.path))
                if op[0] == "k":
                    # defaults of configuration structs start as `false` (the safe side); `true` is never a legitimate constant
                    v = str(op[3])
                    r.instance(key, v in ("0", "false"), "the field is the constant %s: a request would be retried / speculated on as if the caller had declared it idempotent" % v, body.stmt_span(st))
                else:
                    d = _mini(body, facts)
                    txt = d.fmt_expr(d.expr_of_operand(op))
                    locs, calls, _ = backward_slice(body, op)
                    from .c20 import slice_fields
                    ok = "idempotent" in txt.lower() or any("idempotent" in (c.name or "").lower() for c in calls) or any("idempotent" in (body.local_name(l) or "").lower() for l in locs) \
                        or "is_idempotent" in slice_fields(body, op) or any((c.decl or "") == "core::default::Default::default" for c in calls)
                    r.instance(key, ok, "operand is %s: it must come from the statement's own idempotence flag" % txt, body.stmt_span(st))
    if seen == 0:
        raise AnchorLost("no struct with an `is_idempotent` field is built in the driver")
    # round 10: ... and nobody ASSIGNS to such a field afterwards except the callers' own setters, which store their argument.
    # A flag recomputed on the way (`exec_params.is_idempotent = batch.all/any(..)`) is the driver deciding idempotence, not the caller
    n_set = 0
    for body in facts.bodies.mentioning('"is_idempotent"'):
        if body.crate != "scylla" or "::promoted[" in body.path:
            continue
        for bb in sorted(body.live_blocks):
            for st in body.stmts(bb):
                if not (st[0] == "A" and st[1][1]):
                    continue
                fs = [e for e in st[1][1] if isinstance(e, list) and e[0] == "f"]
                if not fs or fs[-1][2] != "is_idempotent":
                    continue
                n_set += 1
                # a setter: the stored operand is a parameter of the function, unchanged
                op = st[2][1] if st[2][0] == "use" else None
                src = None
                if op is not None and op[0] in ("c", "m") and not op[1][1]:
                    src = op[1][0]
                    hops = 0
                    while src > body.argc and hops < 4:
                        d = body.single_def(src)
                        if d and d[0] == "stmt" and d[3][0] == "use" and d[3][1][0] in ("c", "m") and not d[3][1][1][1]:
                            src = d[3][1][1][0]
                            hops += 1
                        else:
                            break
                is_param = src is not None and 1 <= src <= body.argc and body.local_ty(src) == "bool"
                copies_field = op is not None and op[0] in ("c", "m") and any(isinstance(e, list) and e[0] == "f" and e[2] == "is_idempotent" for e in op[1][1])
                r.instance("assigned:%s" % _fn(body.path), is_param or copies_field,
                           "`is_idempotent` is assigned a value that is neither the caller's argument nor a copy of another such flag: "
                           "the driver would retry / speculate on a request its caller did not declare idempotent", body.stmt_span(st))
    if n_set < 3:
        r.instance("setters-found", False, "expected the three set_is_idempotent setters, found %d stores" % n_set, None)


_mini_cache = {}


def _mini(body, facts):
    if body.path not in _mini_cache:
        _mini_cache[body.path] = Dataflow(body, facts)
    return _mini_cache[body.path]


def _fn(path):
    parts = [p for p in path.split("::") if not p.startswith("{")]
    return parts[-1] if parts else path


def r6(ctx, facts):
    """the one-shot flags of R3 bound the retries only if one RetrySession lives as long as the logical request"""
    r = ctx.rule("R6", "one RetrySession per execution fiber: created lazily, never replaced", floor=4)
    NS = "scylla::policies::retry::retry_policy::RetryPolicy::new_session"
    callers = [(b, bb) for b, bb in facts.callers_of(NS) if b.crate == "scylla" and bb in b.live_blocks]
    if not callers:
        raise AnchorLost("no caller of RetryPolicy::new_session in the driver")
    for b, bb in callers:
        key = _fn(b.path) + ("{closure}" if b.kind == "Closure" else "")
        ok = False
        why = "new_session() is called outside an `Option::get_or_insert_with` initialiser"
        if b.kind == "Closure":
            creator = facts.body(b.parent)
            if creator is not None:
                for cbb in creator.live_blocks:
                    for st in creator.stmts(cbb):
                        if st[0] == "A" and st[2][0] == "agg" and st[2][1][0] == "closure" and st[2][1][1] == b.path:
                            uses = uses_of_local(creator, st[1][0])
                            goi = [u for u in uses if u[1][0] == "arg" and creator.term(u[0])[1].get("def", "").endswith("Option::<T>::get_or_insert_with")]
                            if goi and len(goi) == len(uses):
                                t = creator.term(goi[0][0])
                                d = _mini(creator, facts)
                                recv = d.canon.path(t[2][0][1]) if t[2][0][0] in ("c", "m") else None
                                ok = bool(recv) and recv[1][-1:] == ("retry_session",)
                                why = "initialiser of %s" % (d.canon.fmt(recv) if recv else "?")
        if not ok and b.kind != "Closure":
            # the explicit form: `match self.retry_session { Some(s) => s, None => self.retry_session.insert(policy.new_session()) }`
            d = df_of(b, facts)
            st = d.state_in.get(bb) or {}
            slot_empty = any(k[0] == "disc" and k[1][1][-1:] == ("retry_session",) and in_set(v, {0}) for k, v in st.items())
            call = [c for x, c in b.calls() if x == bb][0]
            stored = False
            work, seen = [call.dest[0]], set()
            while work:
                l = work.pop()
                if l in seen:
                    continue
                seen.add(l)
                for ubb, kind, op in uses_of_local(b, l):
                    if kind[0] == "arg":
                        t = b.term(ubb)
                        recv = d.canon.path(t[2][0][1]) if t[2] and t[2][0][0] in ("c", "m") else None
                        if t[1].get("def", "").endswith(("Option::<T>::insert", "Option::<T>::replace", "Option::<T>::get_or_insert")) and recv and recv[1][-1:] == ("retry_session",):
                            stored = True
                    elif kind[0] == "stmt":
                        stt = kind[1]
                        if stt[2][0] == "agg" and stt[2][1][0] == "adt" and stt[2][1][2] == "Some":
                            dp = d.canon.path(stt[1])
                            if dp[1][-1:] == ("retry_session",):
                                stored = True
                            else:
                                work.append(stt[1][0])
                        elif stt[2][0] in ("use", "cast"):
                            dp = d.canon.path(stt[1])
                            if dp[1][-1:] == ("retry_session",):
                                stored = True
                            elif not stt[1][1]:
                                work.append(stt[1][0])
            ok = slot_empty and stored
            why = "new_session() must run only where the fiber's session slot is empty (%s) and its result must be stored in that slot (%s)" % (slot_empty, stored)
        r.instance("session-created-lazily-once:" + key, ok, why + " (a session rebuilt per attempt forgets its one-shot retry flags: unbounded same-target retries)", b.term_span(bb))
    # nobody else writes the slot
    from ..util import field_writers
    w = field_writers(facts, "scylla::client::execution::ExecuteRequestContext", ["retry_session"])
    bad = sorted(x for x in w if x[0] not in ("ExecuteRequestContext::retry_session",) and x[2] != "construct")
    r.instance("session-slot-writers", not bad, "ExecuteRequestContext.retry_session is written outside retry_session(): %s" % bad)
    # constructed as None
    inits = []
    for b in facts.bodies.mentioning('"scylla::client::execution::ExecuteRequestContext"'):
        for bb in b.live_blocks:
            for st in b.stmts(bb):
                if st[0] == "A" and st[2][0] == "agg" and st[2][1][0] == "adt" and st[2][1][1] == "scylla::client::execution::ExecuteRequestContext":
                    op = st[2][2][st[2][1][4].index("retry_session")]
                    sd = b.single_def(op[1][0]) if op[0] in ("c", "m") else None
                    inits.append(bool(sd and sd[0] == "stmt" and sd[3][0] == "agg" and sd[3][1][0] == "adt" and sd[3][1][2] == "None"))
    r.instance("session-slot-starts-empty", bool(inits) and all(inits), "each fiber's context must start with retry_session = None (%d construction sites)" % len(inits))
    # the slot is not reset inside the fiber
    fb = facts.one(r"run_request_speculative_fiber::\{closure#0\}$")
    d = _mini(fb, facts)
    resets = [st for bb in fb.live_blocks for st in fb.stmts(bb) if st[0] == "A" and st[1][1] and d.canon.path(st[1])[1][-1:] == ("retry_session",)]
    r.instance("session-not-reset-in-fiber", not resets, "the fiber must not reassign context.retry_session", fb.span, nontrivial=False)


def check(ctx):
    facts = inline_view(ctx.facts("default"))
    r1_r2_r3(ctx, facts)
    try:
        r6(ctx, facts)
    except AnchorLost as ex:
        ctx.rule("R6x", "session lifetime anchors").fail("anchor-lost", str(ex))
    try:
        r5b(ctx, facts)
    except AnchorLost as ex:
        ctx.rule("R5bx", "is_idempotent field anchors").fail("anchor-lost", str(ex))
    ctx.rules  # R1-R3 registered inside
    try:
        r4(ctx, facts)
    except AnchorLost as ex:
        ctx.rule("R4x", "loop anchors").fail("anchor-lost", str(ex))
    try:
        r5(ctx, facts)
    except AnchorLost as ex:
        ctx.rule("R5x", "flag provenance anchors").fail("anchor-lost", str(ex))
    ctx.assumptions += [
        "SAFE error classes transcribed from the property text",
        "user-supplied RetryPolicy implementations are out of scope",
    ]
