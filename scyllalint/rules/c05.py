"""C05 — default load-balancing plans are complete, duplicate-free and correctly ordered (structural clauses only).

Decided statically:
 R1 no remote leak: every selection that draws from the global node set (NodeLocationCriteria::Any handed to a replica
    selector, or a node selector fed from unique_nodes_in_global_ring()) in DefaultPolicy::pick / fallback is reachable only
    through the true outcome of is_datacenter_failover_possible(..) or of `preference.datacenter().is_none()`.
 R2 the LWT path is deterministic: the Lwt arms of pick_replica / maybe_shuffled_replicas never reach shuffle / random
    choice, and request ReplicaOrder::Deterministic.
 R3 de-duplication is outermost: fallback() has exactly one unique_by; nothing is chained after it; the returned plan derives
    from it (directly or through LatencyAwareness::wrap); Plan::next filters the already-picked target out of the fallback.
 R4 host filter: every predicate closure handed to the node/replica selectors reaches Node::is_enabled, DefaultPolicy::is_alive
    or the policy's pick_predicate, and pick_predicate values are built around is_alive.
Not decided: completeness, group ordering, liveness ordering (properties of iterator contents over data).
"""
from ..inline import inline_view
from ..mir import AnchorLost
from ..util import dj_of, truth_edges, closure_family, df_of, fn_short, in_set, backward_slice, operand_path, path_last, switch_on, switch_edges, field_writers
from ..callgraph import CallGraph
from .c20 import slice_fields

DP = "scylla::policies::load_balancing::default::DefaultPolicy"
SELECTORS = ("pick_replica", "maybe_shuffled_replicas", "pick_node", "round_robin_nodes", "pick_random_replica", "pick_first_replica", "filtered_replicas")


def method_bodies(facts, name):
    return facts.find(r"^<%s as scylla::policies::load_balancing::LoadBalancingPolicy>::%s$" % (DP, name))


def global_sites(b, df):
    """calls in b that select from the whole cluster"""
    out = []
    glob = [c for c in b.calls_to("ReplicaLocator::unique_nodes_in_global_ring")]
    gl = {c.dest[0] for c in glob}
    for bb, c in b.calls():
        if bb not in b.live_blocks:
            continue
        nm = (c.name or c.decl or "").split("::")[-1]
        # (a) NodeLocationCriteria::Any argument
        for a in c.args:
            if a[0] in ("c", "m") and not a[1][1]:
                sd = b.single_def(a[1][0])
                if sd and sd[0] == "stmt" and sd[3][0] == "agg" and sd[3][1][0] == "adt" and sd[3][1][1].endswith("NodeLocationCriteria") and sd[3][1][2] == "Any" and nm in SELECTORS:
                    out.append((c, "criteria Any -> " + nm))
        # (b) node selectors / iter over the global ring
        if nm in ("pick_node", "round_robin_nodes", "iter", "randomly_rotated_nodes") and c.args:
            for a in c.args[:2]:
                if a[0] in ("c", "m"):
                    locs, _, _ = backward_slice(b, a)
                    if gl & (locs | {a[1][0]}):
                        out.append((c, "global ring -> " + nm))
                        break
    return out


def r1(ctx, facts):
    r = ctx.rule("R1", "selections from the whole cluster are gated by failover-possible / no-preferred-DC", floor=6)
    for meth in ("pick", "fallback"):
        bs = method_bodies(facts, meth)
        if len(bs) != 1:
            raise AnchorLost("DefaultPolicy::%s not found" % meth)
        b = bs[0]
        df = df_of(b, facts)
        gates = [c for c in b.calls_to("DefaultPolicy::is_datacenter_failover_possible")]
        isn = []
        for c in b.calls_to("Option::<T>::is_none"):
            _, calls, _ = backward_slice(b, c.args[0])
            if any((x.name or "").endswith("NodeLocationPreference::datacenter") for x in calls):
                isn.append(c)
        cut = []
        for g in gates + isn:
            for sw, ttg, _ff in truth_edges(b, df, ("call", g.bb)):
                cut.append((sw, ttg))
        if not gates:
            raise AnchorLost("DefaultPolicy::%s: is_datacenter_failover_possible is never consulted" % meth)
        # follow only executions in which neither gate came out true - whether the code branches on the calls directly or
        # first stores `a || b` in a boolean
        TRUE = ("in", frozenset([1]))
        gate_bbs = [g.bb for g in gates + isn]
        reach = dj_of(b, facts).feasible_reach(0, removed_edges=cut, drop_state=lambda stt: any(stt.get(("call", gb)) == TRUE for gb in gate_bbs))
        sites = global_sites(b, df)
        if not sites:
            raise AnchorLost("DefaultPolicy::%s: no selection from the global node set found" % meth)
        seen = {}
        for c, what in sites:
            seen[what] = seen.get(what, 0) + 1
            r.instance("%s:%s#%d" % (meth, what, seen[what]), c.bb not in reach,
                       "%s is reachable without passing the true outcome of is_datacenter_failover_possible() or preference.datacenter().is_none(): nodes outside the preferred DC could be named when failover is not permitted" % what, c.span)


def r2(ctx, facts):
    r = ctx.rule("R2", "LWT requests get the deterministic replica order", floor=4)
    cg = CallGraph(facts)
    RANDOM = ("shuffle", "randomly_rotated_nodes", "choose_filtered", "pick_random_replica", "rng", "random_range")
    for fn in ("pick_replica", "maybe_shuffled_replicas"):
        b = facts.one(r"^%s::%s$" % (DP, fn))
        df = df_of(b, facts)
        ST = "scylla::policies::load_balancing::default::StatementType"
        for bb, c in b.calls():
            if bb not in b.live_blocks:
                continue
            st = df.state_in.get(bb) or {}
            lwt = None
            for k, v in st.items():
                if k[0] == "disc" and df.disc_ty.get(k[1], "").endswith("StatementType"):
                    lwt = df.variant_names(k[1], v, ST)
            if lwt != {"Lwt"}:
                continue
            nm = c.name or c.decl or ""
            tgt = set()
            if nm in facts.bodies:
                tgt = set(cg.reachable([nm]).keys()) | {nm}
            bad = [t for t in tgt if t.split("::")[-1].split("{")[0] in RANDOM or "rand::" in t] + ([nm] if nm.split("::")[-1] in RANDOM else [])
            r.instance("%s:lwt-arm-no-randomness:%s" % (fn, nm.split("::")[-1]), not bad, "the LWT arm reaches %s" % [x.split("::")[-1] for x in bad[:4]], c.span)
        # ReplicaOrder::Deterministic on the Lwt arm
        aggs = [(bb, j, s) for bb in b.live_blocks for j, s in enumerate(b.stmts(bb)) if s[0] == "A" and s[2][0] == "agg" and s[2][1][0] == "adt" and s[2][1][1].endswith("ReplicaOrder")]
        for bb, j, s in aggs:
            st = df.state_before_stmt(bb, j) or {}
            lwt = None
            for k, v in st.items():
                if k[0] == "disc" and df.disc_ty.get(k[1], "").endswith("StatementType"):
                    lwt = df.variant_names(k[1], v, ST)
            if lwt == {"Lwt"}:
                r.instance("%s:lwt-order-deterministic" % fn, s[2][1][2] == "Deterministic", "the LWT arm must request ReplicaOrder::Deterministic, requests %s" % s[2][1][2], b.stmt_span(s))
            elif lwt == {"NonLwt"}:
                r.instance("%s:non-lwt-order" % fn, s[2][1][2] == "Arbitrary", "non-LWT arm requests %s" % s[2][1][2], b.stmt_span(s), nontrivial=False)
    fb = facts.one(r"^%s::pick_first_replica$" % DP)
    aggs = [s for bb in fb.live_blocks for s in fb.stmts(bb) if s[0] == "A" and s[2][0] == "agg" and s[2][1][0] == "adt" and s[2][1][1].endswith("ReplicaOrder")]
    r.instance("pick_first_replica:deterministic", bool(aggs) and all(s[2][1][2] == "Deterministic" for s in aggs), "pick_first_replica must use ReplicaOrder::Deterministic", fb.span)


def r3(ctx, facts):
    r = ctx.rule("R3", "the fallback plan is de-duplicated as its last step", floor=5)
    b = method_bodies(facts, "fallback")[0]
    uq = b.calls_to("Itertools::unique_by")
    r.instance("one-unique_by", len(uq) == 1, "fallback() must de-duplicate exactly once; found %d unique_by calls" % len(uq), b.span)
    if len(uq) != 1:
        return
    u = uq[0]
    chains = b.calls_to("Iterator::chain")
    after = [c for c in chains if u.dest[0] in (backward_slice(b, c.args[0])[0] | backward_slice(b, c.args[1])[0] | {a[1][0] for a in c.args if a[0] in ("c", "m")})]
    r.instance("nothing-chained-after-dedup", not after, "a group is chained AFTER unique_by: targets of that group are not de-duplicated against the rest of the plan", after[0].span if after else u.span)
    # every top-level chain feeds the dedup: the last chain result is unique_by's receiver
    locs, calls, _ = backward_slice(b, u.args[0])
    fed = [c for c in chains if c.dest[0] in locs or c.dest[0] == u.args[0][1][0]]
    r.instance("all-groups-feed-dedup", len(fed) == len(chains) and len(chains) >= 5, "%d of %d chain() results flow into unique_by" % (len(fed), len(chains)), u.span)
    # return value derives from unique_by
    rets = [s for bb in b.live_blocks for s in b.stmts(bb) if s[0] == "A" and s[1][0] == 0]
    rcalls = [c for bb, c in b.calls() if bb in b.live_blocks and c.dest[0] == 0]
    ok = True
    n = 0
    for s in rets:
        n += 1
        if u.dest[0] not in _slice_rv(b, s[2]):
            ok = False
    for c in rcalls:
        n += 1
        l = set()
        for a in c.args:
            l |= backward_slice(b, a)[0]
        if u.dest[0] not in l:
            ok = False
    r.instance("returned-plan-is-deduplicated", ok and n > 0, "every returned plan must derive from the unique_by result (directly or via LatencyAwareness::wrap)", u.span)
    pb = facts.one(r"^<scylla::policies::load_balancing::plan::Plan<'a> as core::iter::traits::iterator::Iterator>::next$")
    # the Fallback arm compares with the picked target
    cmps = [c for bb, c in pb.calls() if bb in pb.live_blocks and (c.decl in ("core::cmp::PartialEq::eq", "core::cmp::PartialEq::ne") or (c.name or "").endswith("ptr_eq") or (c.name or "").endswith("Arc::<T, A>::ptr_eq"))]
    clos = closure_family(facts, pb)[1:]
    for cb in clos:
        cmps += [c for bb, c in cb.calls() if bb in cb.live_blocks and (c.decl in ("core::cmp::PartialEq::eq", "core::cmp::PartialEq::ne") or (c.name or "").endswith("ptr_eq"))]
    r.instance("plan-skips-picked-target", bool(cmps), "Plan::next must compare fallback elements with the already returned first target", pb.span)


def _slice_rv(b, rv):
    from ..util import _rv_locals
    out = set()
    for l in _rv_locals(rv):
        out |= backward_slice(b, ["c", [l, []]])[0]
    return out


def r4(ctx, facts):
    r = ctx.rule("R4", "every selection predicate honours the host filter / liveness", floor=24)
    cg = CallGraph(facts)
    OKS = ("Node::is_enabled", "DefaultPolicy::is_alive", "Node::is_connected")
    n = 0
    # pick / fallback themselves, then every DefaultPolicy helper they reach (pick_first_replica, maybe_shuffled_replicas, ...)
    roots = [method_bodies(facts, m)[0] for m in ("pick", "fallback")]
    helpers = []
    for q in sorted(cg.reachable([x.path for x in roots]).keys()):
        if q.startswith("scylla::policies::load_balancing::default::") and "{closure" not in q and q not in [x.path for x in roots]:
            hb = facts.body(q)
            if hb is not None and "DefaultPolicy" in q:
                helpers.append(hb)
    for meth, b in [("pick", roots[0]), ("fallback", roots[1])] + [("helper:" + fn_short(h.path), h) for h in helpers]:
        for bb in sorted(b.live_blocks):
            for s in b.stmts(bb):
                if not (s[0] == "A" and s[2][0] == "agg" and s[2][1][0] == "closure"):
                    continue
                cp = s[2][1][1]
                cb = facts.body(cp)
                if cb is None or cb.local_ty(0) != "bool":
                    continue
                if not any("Node" in cb.local_ty(i) for i in range(2, cb.argc + 1)):
                    continue      # a bool closure over something that is not a node (e.g. `token.filter(|_| is_token_aware)`) selects no target
                n += 1
                reach = set(cg.reachable([cp]).keys()) | {cp}
                names = set()
                delegates = False
                for p in reach:
                    pb = facts.body(p)
                    for bb2, c in pb.calls():
                        if bb2 in pb.live_blocks:
                            names.add(c.name or c.decl or "")
                            if (c.decl or "").startswith("core::ops::function::Fn") and "res" not in c.callee:
                                delegates = True   # calls a predicate it was given (generic parameter / captured Fn)
                    # invoking the pick_predicate field: an indirect call through a Box<dyn Fn>
                    for bb2 in pb.live_blocks:
                        t = pb.term(bb2)
                        if t[0] == "call" and ("pick_predicate" in str(t[2]) or (t[1].get("def", "").endswith("Fn::call") and "pick_predicate" in str(pb.stmts(bb2)))):
                            names.add("pick_predicate")
                ok = any(any(nm.endswith(o) for o in OKS) for nm in names) or "pick_predicate" in names or (meth.startswith("helper:") and delegates)
                r.instance("%s:predicate#%d" % (meth, n), ok, "a selection predicate does not consult is_enabled / is_alive / pick_predicate%s (a filtered-out or dead host could be named); it calls %s"
                           % (" nor the predicate it was handed" if meth.startswith("helper:") else "", sorted(x.split("::")[-1] for x in names)[:6]), b.stmt_span(s))
                # polarity: a predicate that consults the host filter / liveness itself must not ACCEPT a node for which every
                # such test came out false (`!is_alive(node)` names exactly the nodes the host filter rejected)
                from ..util import dj_of
                direct = [c for bb2, c in cb.calls() if bb2 in cb.live_blocks and any((c.name or "").endswith(o) for o in OKS)]
                if direct:
                    dj = dj_of(cb, facts)
                    bad = None
                    for bb2 in sorted(cb.live_blocks):
                        for j2, s2 in enumerate(cb.stmts(bb2)):
                            if not (s2[0] == "A" and s2[1][0] == 0 and not s2[1][1]):
                                continue
                            e = dj.expr_of_rvalue(s2[2])
                            for stt in dj.states_before_stmt(bb2, j2):
                                # the execution in which every host-filter / liveness test of this predicate says "no"
                                if any(in_set(stt.get(("call", c.bb)), {1}) for c in direct):
                                    continue
                                hyp = dict(stt)
                                for c in direct:
                                    hyp[("call", c.bb)] = ("in", frozenset({0}))
                                if dj.eval_in(hyp, e) == 1:
                                    bad = s2
                    r.instance("%s:predicate-accepts-only-enabled#%d" % (meth, n), bad is None,
                               "a selection predicate answers true for a node on which is_enabled / is_alive came out false: nodes rejected by the host filter (they have no pool, "
                               "so they are 'not alive') are named in the plan", cb.stmt_span(bad) if bad else cb.span)
    if n == 0:
        raise AnchorLost("no predicate closures found in pick/fallback")
    w = field_writers(facts, DP, ["pick_predicate"])
    r.note("pick_predicate writers: %s" % sorted(w))
    # every closure stored into pick_predicate reaches is_alive
    ok = True
    makers = [x for x in facts.bodies.mentioning('"pick_predicate"') if x.crate == "scylla"]
    found = 0
    for mb in makers:
        for bb in mb.live_blocks:
            for s in mb.stmts(bb):
                if s[0] == "A" and s[2][0] == "agg" and s[2][1][0] == "adt" and s[2][1][1] == DP:
                    op = s[2][2][s[2][1][4].index("pick_predicate")]
                    locs, calls, _ = backward_slice(mb, op)
                    cl = [d[3][1][1] for l in locs for d in mb.defs.get(l, []) if d[0] == "stmt" and d[3][0] == "agg" and d[3][1][0] == "closure"]
                    fnitems = [str(d[3]) for l in locs for d in mb.defs.get(l, []) if d[0] == "stmt"]
                    found += 1
                    good = any("is_alive" in f for f in fnitems) or any("is_alive" in str(a) for c in calls for a in c.args)
                    for cp in cl:
                        reach = set(cg.reachable([cp]).keys()) | {cp}
                        for p in reach:
                            pb = facts.body(p)
                            if any((c.name or "").endswith("DefaultPolicy::is_alive") for bb2, c in pb.calls()):
                                good = True
                    if not good:
                        ok = False
    r.instance("pick_predicate-wraps-is_alive", ok and found > 0, "every DefaultPolicy is built with a pick_predicate that includes Self::is_alive (%d construction sites)" % found)


def _pred_class(facts, cg, cp, cache):
    """'alive' / 'down' for a bool predicate closure: does it consult liveness or only the host filter (is_enabled)?"""
    if cp in cache:
        return cache[cp]
    cb = facts.body(cp)
    res = None
    if cb is not None and cb.local_ty(0) == "bool":
        names = set()
        for q in set(cg.reachable([cp]).keys()) | {cp}:
            pb = facts.body(q)
            for bb2, c in pb.calls():
                if bb2 in pb.live_blocks:
                    names.add(c.name or c.decl or "")
            for bb2 in pb.live_blocks:
                t = pb.term(bb2)
                if t[0] == "call" and ("pick_predicate" in str(t[2]) or (t[1].get("def", "").endswith("Fn::call") and "pick_predicate" in str(pb.stmts(bb2)))):
                    names.add("pick_predicate")
        if "pick_predicate" in names or any(n.endswith(("DefaultPolicy::is_alive", "Node::is_connected")) for n in names):
            res = "alive"
        elif any(n.endswith("Node::is_enabled") for n in names):
            res = "down"
    cache[cp] = res
    return res


def r5(ctx, facts):
    r = ctx.rule("R5", "nodes believed down are only named after every live candidate (pick and fallback)", floor=6)
    cg = CallGraph(facts)
    cache = {}
    # pick(): a selection with a liveness predicate is never attempted after a selection that accepts down nodes
    b = method_bodies(facts, "pick")[0]
    sites = []
    for bb in sorted(b.live_blocks):
        for s in b.stmts(bb):
            if s[0] == "A" and s[2][0] == "agg" and s[2][1][0] == "closure":
                k = _pred_class(facts, cg, s[2][1][1], cache)
                if k:
                    sites.append((bb, k, s))
    downs = [x for x in sites if x[1] == "down"]
    alives = [x for x in sites if x[1] == "alive"]
    if not downs or not alives:
        raise AnchorLost("pick(): liveness / enabled-only predicates not found (%d/%d)" % (len(alives), len(downs)))
    for i, (abb, _, st) in enumerate(alives):
        late = [d for d in downs if abb in b.reachable_from(d[0]) and abb != d[0]]
        r.instance("pick:live-selection-before-down#%d" % i, not late,
                   "pick() tries a selection restricted to live nodes after it already tried one that accepts down nodes (at %s): a down node can be picked while a live one is eligible"
                   % ", ".join(str(b.stmt_span(d[2])) for d in late), b.stmt_span(st))
    # fallback(): in every chain(left, right), once `left` may contain down nodes, `right` contains no liveness-filtered group
    fb = method_bodies(facts, "fallback")[0]

    def classes(op):
        locs, _, _ = backward_slice(fb, op)
        out = set()
        for l in locs:
            for d in fb.defs.get(l, []):
                if d[0] == "stmt" and d[3][0] == "agg" and d[3][1][0] == "closure":
                    k = _pred_class(facts, cg, d[3][1][1], cache)
                    if k:
                        out.add(k)
        return out
    chains = fb.calls_to("core::iter::traits::iterator::Iterator::chain")
    if not chains:
        raise AnchorLost("fallback(): no Iterator::chain calls")
    n_down = 0
    for i, c in enumerate(sorted(chains, key=lambda c: (c.span.line, c.bb))):
        lc, rc = classes(c.args[0]), classes(c.args[1])
        if "down" in lc or "down" in rc:
            n_down += 1
        r.instance("fallback:chain#%d" % i, not ("down" in lc and "alive" in rc),
                   "fallback() chains a liveness-filtered group after a group that may contain down nodes (left: %s, right: %s)" % (sorted(lc), sorted(rc)), c.span)
    r.instance("fallback:down-groups-present", n_down >= 1, "fallback() must still append the enabled-but-down nodes as a last resort", fb.span, nontrivial=False)


def r6(ctx, facts):
    r = ctx.rule("R6", "datacenter failover is possible exactly when a datacenter is preferred and the policy permits failover", floor=2)
    b = facts.one(r"^%s::is_datacenter_failover_possible$" % DP)
    dj = dj_of(b, facts)
    df = df_of(b, facts)
    dcs = [c for bb, c in b.calls() if bb in b.live_blocks and (c.name or "").endswith("NodeLocationPreference::datacenter")]
    if len(dcs) != 1:
        raise AnchorLost("is_datacenter_failover_possible: `preference.datacenter()` not found (%d)" % len(dcs))
    DROOT = ("disc", dj.disc_root(dj.canon.path(dcs[0].dest)))
    # `x.is_some()` on that result (the dataflow already ties its outcome to the discriminant)
    issome = {("call", c.bb) for c in b.calls_to("Option::<T>::is_some") if dj.disc_root(dj.canon.path(c.args[0][1])) == DROOT[1]}

    def permit(stt):
        for k, v in stt.items():
            if k[0] == "val" and k[1][1][-1:] == ("permit_dc_failover",):
                return 1 if in_set(v, {1}) else 0 if in_set(v, {0}) else None
        return None
    n, bad = 0, []
    for bb in sorted(b.live_blocks):
        for j, st in enumerate(b.stmts(bb)):
            if not (st[0] == "A" and st[1] == [0, []]):
                continue
            n += 1
            e = dj.expr_of_rvalue(st[2])
            for stt in dj.states_before_stmt(bb, j):
                d = 1 if in_set(stt.get(DROOT), {1}) else 0 if in_set(stt.get(DROOT), {0}) else None
                p = permit(stt)
                v = dj.eval_in(stt, e) if e is not None else None
                if v == 0:
                    ok = d == 0 or p == 0
                elif v == 1:
                    ok = d == 1 and p == 1
                elif e is not None and e[0] == "val" and e[1][1][-1:] == ("permit_dc_failover",):
                    ok = d == 1
                elif e in issome:
                    ok = p == 1
                else:
                    ok = False
                if not ok:
                    bad.append("returns %s with datacenter-preferred=%s permit_dc_failover=%s" % (df.fmt_expr(e) if e else b.fmt_rv(st[2]), d, p))
    r.instance("result-is-preferred-and-permitted", n > 0 and not bad,
               "is_datacenter_failover_possible must be `preference.datacenter().is_some() && self.permit_dc_failover` and nothing else (a further condition silently removes every remote node from the plans it applies to): %s" % sorted(set(bad))[:3], b.span)
    r.instance("result-sites", n > 0, "%d return sites" % n, b.span, nontrivial=False)


def r7(ctx, facts):
    r = ctx.rule("R7", "pick() and fallback() agree on token awareness: a token-derived replica group is built only where the policy is token-aware (or the token was cleared centrally)", floor=2)
    from ..util import variant_edges
    rb = facts.one(r"^%s::routing_info$" % DP)
    dj = dj_of(rb, facts)
    flag = None
    # the edge(s) on which `self.is_token_aware` is known false
    off_edges = []
    for u in sorted(rb.live_blocks):
        if rb.term(u)[0] != "switch":
            continue
        for v in rb.succ[u]:
            sts = dj.states_on_edge(u, v)
            if sts and all(any(k[0] == "val" and k[1][1] and k[1][1][-1] == "is_token_aware" and in_set(val, {0}) for k, val in st.items()) for st in sts):
                off_edges.append((u, v))
    stores = [bb for bb in rb.live_blocks for st in rb.stmts(bb) if st[0] == "A" and st[1][1] and any(isinstance(e, list) and e[0] == "f" and e[2] == "token_with_strategy" for e in st[1][1])]
    # ... or the value is rebuilt with the field set to None (`ProcessedRoutingInfo { token_with_strategy: None, ..x }`)
    for bb in sorted(rb.live_blocks):
        for st in rb.stmts(bb):
            if st[0] == "A" and st[2][0] == "agg" and st[2][1][0] == "adt" and st[2][1][1].endswith("ProcessedRoutingInfo") and "token_with_strategy" in (st[2][1][4] or []):
                op = st[2][2][st[2][1][4].index("token_with_strategy")]
                sd = rb.single_def(op[1][0]) if op[0] in ("c", "m") else None
                if sd and sd[0] == "stmt" and sd[3][0] == "agg" and sd[3][1][0] == "adt" and sd[3][1][2] == "None":
                    stores.append(bb)
    # ... or filtered by the flag: `token_with_strategy.filter(|_| is_token_aware)` (the closure answers with the captured flag, nothing else)
    filtered = False
    for bb in sorted(rb.live_blocks):
        for st in rb.stmts(bb):
            if st[0] == "A" and st[2][0] == "agg" and st[2][1][0] == "adt" and st[2][1][1].endswith("ProcessedRoutingInfo") and "token_with_strategy" in (st[2][1][4] or []):
                op = st[2][2][st[2][1][4].index("token_with_strategy")]
                _, cs_, _ = backward_slice(rb, op)
                for c in cs_:
                    if (c.decl or c.name or "").split("::")[-1] != "filter" or len(c.args) != 2 or "Option<" not in rb.local_ty(c.args[0][1][0] if c.args[0][0] in ("c", "m") else 0):
                        continue
                    cd = rb.single_def(c.args[1][1][0]) if c.args[1][0] in ("c", "m") else None
                    if not (cd and cd[0] == "stmt" and cd[3][0] == "agg" and cd[3][1][0] == "closure" and len(cd[3][2]) == 1):
                        continue
                    cb_ = facts.body(cd[3][1][1])
                    from .c20 import slice_fields as _sf
                    cap_is_flag = "is_token_aware" in _sf(rb, cd[3][2][0])
                    # the closure: no calls, no branches, returns its one capture
                    plain = cb_ is not None and not [1 for bb2, _c in cb_.calls() if bb2 in cb_.live_blocks] and not [1 for bb2 in cb_.live_blocks if cb_.term(bb2)[0] == "switch"]
                    if cap_is_flag and plain:
                        filtered = True
    if filtered:
        r.note("routing_info() keeps the token only under `filter(|_| is_token_aware)`")
    central = filtered or bool(off_edges) and bool(stores) and all(not (set(rb.exits) & dj.feasible_reach_edge(u, v, removed_nodes=stores)) for (u, v) in off_edges)
    r.instance("routing-info-clears-token-when-unaware", True, "central clearing in routing_info(): %s" % central, rb.span, nontrivial=False)
    for meth in ("pick", "fallback"):
        b = method_bodies(facts, meth)[0]
        d = dj_of(b, facts)
        # the calls that are handed the token (`ts: &TokenWithStrategy`): replica lookups and replica-group constructors
        uses = [c for bb, c in b.calls() if bb in b.live_blocks and any(a[0] in ("c", "m") and "TokenWithStrategy" in b.local_ty(a[1][0]) and "Option<" not in b.local_ty(a[1][0]) for a in c.args)]
        for cb in closure_family(facts, b):
            if cb.path != b.path:
                uses += [c for bb, c in cb.calls() if bb in cb.live_blocks and False]
        if not uses:
            raise AnchorLost("%s(): no call that is handed the request's token found" % meth)
        ok = central
        bad = None
        if not central:
            ok = True
            for c in uses:
                sts = d.states_at(c.bb)
                if not (sts and all(any(k[0] == "val" and k[1][1] and k[1][1][-1] == "is_token_aware" and in_set(val, {1}) for k, val in st.items()) for st in sts)):
                    ok, bad = False, c
        r.instance("token-group-only-if-token-aware:" + meth, ok,
                   "%s() hands the request's token to %s although the policy may be token-unaware (is_token_aware is neither known true there nor is the token cleared in routing_info()): "
                   "with token_aware(false) pick() and fallback() disagree - the picked (node, no shard) is not recognised among the fallback's (node, shard) replicas and the plan names the node twice"
                   % (meth, fn_short(bad.name or "?") if bad else "a replica lookup"), bad.span if bad else b.span)


def r8(ctx, facts):
    r = ctx.rule("R8", "the policy's own location preference, when set (also when set to `no datacenter`), wins over the one inherited with the request; the inherited one is used only when the policy has none", floor=1)
    from ..util import field_slice
    n = 0
    for b in facts.bodies.mentioning("ProcessedRoutingInfo"):
        if b.crate != "scylla" or "::promoted[" in b.path:
            continue
        for bb in sorted(b.live_blocks):
            for st in b.stmts(bb):
                if not (st[0] == "A" and st[2][0] == "agg" and st[2][1][0] == "adt" and st[2][1][1].endswith("ProcessedRoutingInfo") and "preference" in (st[2][1][4] or [])):
                    continue
                op = st[2][2][st[2][1][4].index("preference")]
                seen, calls, _ = field_slice(b, op)
                on_opt = [c for c in calls if c.args and c.args[0][0] in ("c", "m") and b.local_ty(c.args[0][1][0]).replace("&", "").startswith("core::option::Option<") and "NodeLocationPreference" in b.local_ty(c.args[0][1][0])]
                if not on_opt:
                    # match form: `match policy_preference { Some(p) => p, None => inherited }`
                    dj8 = dj_of(b, facts)
                    opt_locals = {l for l in range(len(b.locals)) if b.local_ty(l).replace("&", "").startswith("core::option::Option<") and "NodeLocationPreference" in b.local_ty(l)}

                    def src_place(rv):
                        """the place a use / reborrow rvalue reads, or None"""
                        if rv[0] == "use" and rv[1][0] in ("c", "m"):
                            return rv[1][1]
                        if rv[0] == "ref":
                            return rv[2]
                        return None

                    def chase(l, hops=0):
                        """follow single-definition copies / reborrows"""
                        while hops < 6:
                            ds = [d for d in b.defs.get(l, []) if d[0] == "stmt"]
                            if len(ds) != 1 or len(b.defs.get(l, [])) != 1:
                                return l
                            pl = src_place(ds[0][3])
                            if pl is None or any(isinstance(e, list) and e[0] in ("f", "d") for e in pl[1]):
                                return l
                            l, hops = pl[0], hops + 1
                        return l

                    def payload_of_option(rv):
                        pl = src_place(rv)
                        if pl is None:
                            return False
                        if pl[0] in opt_locals and any(isinstance(e, list) and e[0] == "d" and e[1] == "Some" for e in pl[1]):
                            return True
                        if not any(isinstance(e, list) and e[0] in ("f", "d") for e in pl[1]):
                            ds = [d for d in b.defs.get(pl[0], []) if d[0] == "stmt"]
                            return len(ds) == 1 and len(b.defs.get(pl[0], [])) == 1 and payload_of_option(ds[0][3])
                        return False
                    l0 = chase(op[1][0]) if op[0] in ("c", "m") else None
                    defs = [d for d in b.defs.get(l0, []) if d[0] == "stmt"] if l0 is not None else []
                    keys = [("disc", (l, ())) for l in opt_locals]
                    judged, good, has_payload = False, True, False
                    for d in defs:
                        sts = dj8.states_at(d[1])
                        if payload_of_option(d[3]):
                            judged = has_payload = True
                        elif sts and all(any(in_set(st_.get(k), {0}) for k in keys) for st_ in sts):
                            judged = True      # the inherited value, only where the policy has none
                        elif len(defs) > 1:
                            good = False
                    if judged and len(defs) >= 2:
                        n += 1
                        r.instance("policy-preference-wins:" + fn_short(b.path), good and has_payload,
                            "the effective preference is chosen by a match on the policy's Option<preference>: its payload must be taken when it is Some, the inherited one only when it is None", b.stmt_span(st))
                    continue
                meths = sorted({(c.decl or c.name or "").split("::")[-1] for c in on_opt})
                if all(m in ("as_ref", "copied", "cloned", "clone", "as_deref") for m in meths):
                    continue          # the option is only handed on (to the constructor that resolves it): not the resolving site
                n += 1
                ok = all(m in ("unwrap_or", "unwrap_or_else", "as_ref", "copied", "cloned", "clone", "as_deref") for m in meths) and any(m.startswith("unwrap_or") for m in meths)
                r.instance("policy-preference-wins:" + fn_short(b.path), ok,
                           "the policy's Option<preference> is combined with the request's through %s: only `unwrap_or(inherited)` keeps an explicit `prefer no datacenter`; filter / and_then / or make the policy "
                           "follow the session's datacenter, and with failover off every other datacenter disappears from its plans" % meths, b.stmt_span(st))
    if n == 0:
        raise AnchorLost("no ProcessedRoutingInfo construction that resolves the effective preference found")


def r9(ctx, facts):
    r = ctx.rule("R9", "the node stages of pick() (local rack, local datacenter, everything) are tried whether or not the request has a token: a token only ADDS the replica stages in front", floor=2)
    from ..util import dj_of
    b = facts.one(r"DefaultPolicy as .*LoadBalancingPolicy>::pick$")
    dj = dj_of(b, facts)
    sites = [(bb, c) for bb, c in b.calls() if bb in b.live_blocks and (c.name or c.decl or "").endswith("DefaultPolicy::pick_node")]
    if len(sites) < 2:
        raise AnchorLost("pick(): expected at least two pick_node stages, found %d" % len(sites))
    for i, (bb, c) in enumerate(sorted(sites, key=lambda x: (x[1].span.line, x[1].span.col))):
        sts = dj.states_at(bb)
        with_token = without = False
        for st in sts:
            vals = [v for k, v in st.items() if k[0] == "disc" and k[1][1][-1:] == ("token_with_strategy",)]
            if not vals:
                with_token = without = True
                continue
            v = vals[0]
            if v[0] == "in":
                with_token |= 1 in v[1]
                without |= 0 in v[1]
            else:
                with_token = without = True
        r.instance("node-stage-%d-with-and-without-token" % i, with_token and without,
                   "this pick_node stage is reachable only %s: a request %s never gets a live node of this group as its first target although "
                   "the fallback plan ranks the group here (local rack before the rest of the datacenter, live before down)"
                   % (("without a token", "with a token whose replicas are all down or filtered") if not with_token else ("with a token", "without a token")),
                   c.span)


def r10(ctx, facts):
    """completeness of the fallback plan: the last-resort groups name every enabled node whether believed up or down. The
    local one is unconditional (with no preferred datacenter `local` is the whole cluster), the cluster-wide one exists
    where failover is possible. Without the local group an enabled node that is not connected is missing from every plan
    of a policy that cannot fail over (seed C05-j)."""
    r = ctx.rule("R10", "fallback() ends with every enabled node of the local set, live or not, on every path (plan completeness)", floor=1)
    cg = CallGraph(facts)
    cache = {}
    fb = method_bodies(facts, "fallback")[0]
    uq = fb.calls_to("Itertools::unique_by")
    if len(uq) != 1:
        raise AnchorLost("fallback(): expected one unique_by, found %d" % len(uq))
    local = [c for bb, c in fb.calls() if bb in fb.live_blocks and (c.name or c.decl or "").endswith("DefaultPolicy::preferred_node_set")]
    if len(local) != 1:
        raise AnchorLost("fallback(): expected one preferred_node_set call, found %d" % len(local))
    local_l = local[0].dest[0]
    chains = fb.calls_to("core::iter::traits::iterator::Iterator::chain")
    good = []
    for c in chains:
        for op in c.args[:2]:
            locs, _, _ = backward_slice(fb, op)
            if local_l not in locs:
                continue
            preds = []
            for l in locs:
                for d in fb.defs.get(l, []):
                    if d[0] == "stmt" and d[3][0] == "agg" and d[3][1][0] == "closure":
                        k = _pred_class(facts, cg, d[3][1][1], cache)
                        if k:
                            preds.append((k, d[1]))
            if preds and all(k == "down" for k, _ in preds) and all(fb.dominates(bb, uq[0].bb) for _, bb in preds):
                good.append(c)
    r.instance("every-enabled-local-node-is-named", bool(good),
               "no group of fallback() selects from the local node set by `is_enabled` alone, unconditionally: an enabled node the driver "
               "is not connected to is left out of the plan unless datacenter failover happens to be possible", uq[0].span)


def r11(ctx, facts):
    """where the verdict of the host filter becomes a property of the node: the policy trusts `Node::is_enabled()`, so every
    refresh must leave each node object agreeing with what the filter says NOW. calculate_new_topology may keep an old Node
    object only if its enabled flag equals the current verdict; otherwise it builds a new one (seed C05-k: a peer that was
    accepted once and is rejected later kept its enabled node and its pool)."""
    from ..util import field_slice
    r = ctx.rule("R11", "a refresh keeps an old Node object only if its enabled flag equals the host filter's current verdict", floor=2)
    b = facts.one(r"^scylla::cluster::state::ClusterState::calculate_new_topology$")
    dj = dj_of(b, facts)
    verdicts = [c for bb, c in b.calls() if bb in b.live_blocks and (c.name or c.decl or "").split("::")[-1] in ("is_none_or", "is_some_and", "map_or", "accept")
                and b.local_ty(c.dest[0]) == "bool"]
    if not verdicts:
        raise AnchorLost("calculate_new_topology: the host filter's verdict (a bool from is_none_or / accept) not found")
    vdest = {c.dest[0] for c in verdicts}
    vkeys = {("call", c.bb) for c in verdicts} | {("val", (l, ())) for l in vdest}
    for bb in b.live_blocks:
        for st in b.stmts(bb):
            if st[0] == "A" and not st[1][1] and st[2][0] == "agg" and st[2][1][0] == "tuple":
                for k, op in enumerate(st[2][2]):
                    if op[0] in ("c", "m") and (op[1][0] in vdest or vdest & backward_slice(b, op)[0]) and b.local_ty(op[1][0]) == "bool":
                        vkeys.add(("val", (st[1][0], (str(k),))))
    gets = {c.dest[0] for bb, c in b.calls() if bb in b.live_blocks and (c.name or c.decl or "").split("::")[-1] in ("get", "get_mut", "remove", "get_key_value") and "HashMap" in (c.name or c.decl or "")}
    enabled_calls = [c for bb, c in b.calls() if bb in b.live_blocks and (c.name or "").endswith("Node::is_enabled")]
    sites = []
    for bb, c in b.calls():
        if bb not in b.live_blocks or not c.args:
            continue
        nm = (c.name or c.decl or "")
        last = nm.split("::")[-1]
        if not ((last == "clone" and "Node" in b.local_ty(c.dest[0])) or last.startswith("inherit")):
            continue
        seen, calls, _ = field_slice(b, c.args[0])
        if any((x.name or x.decl or "").split("::")[-1] in ("clone", "new", "new_disabled") or (x.name or x.decl or "").split("::")[-1].startswith("inherit") for x in calls):
            continue     # a copy of the node chosen for this peer, not a reuse of the old object
        if not ({l for l, _ in seen} & gets):
            continue
        sites.append(c)
    if not sites:
        raise AnchorLost("calculate_new_topology: no reuse of an old Node object found")
    for k, c in enumerate(sorted(sites, key=lambda c: (c.span.line, c.bb))):
        bad = None
        for stt in dj.states_at(c.bb):
            v = None
            for key in vkeys:
                val = stt.get(key)
                if val is not None and val[0] == "in" and len(val[1]) == 1:
                    v = next(iter(val[1]))
            agree = v is not None and any(in_set(stt.get(("call", e.bb)), {v}) for e in enabled_calls)
            if not agree:
                bad = (v, stt)
        r.instance("reused-node-agrees-with-verdict#%d" % k, bad is None,
                   "an old Node object is kept for this peer in a state where the filter's verdict is %s but the node's own is_enabled() is not known to be the same: "
                   "a node the filter now rejects stays enabled (keeps its pool, is named in plans), or an accepted one stays disabled"
                   % ({0: "`rejected`", 1: "`accepted`", None: "unknown"}[bad[0]] if bad else ""), c.span)


def r12(ctx, facts):
    """the policy the builder hands out permits failover exactly if the user said so. Whether failover is POSSIBLE is decided per
    request against the effective preference (R6) - `no policy-level preference` means `inherit the session's`, which is only
    known then. A builder that folds the preference into the flag switches failover off for every policy that inherits its
    datacenter (seed C05-l)."""
    from ..util import field_slice
    r = ctx.rule("R12", "DefaultPolicyBuilder::build copies permit_dc_failover (and the other switches) from the builder, unconditioned", floor=1)
    n = 0
    for b in facts.bodies.mentioning('"permit_dc_failover"'):
        if b.crate != "scylla" or "::promoted[" in b.path or "::test" in b.path:
            continue
        for bb in sorted(b.live_blocks):
            for st in b.stmts(bb):
                if not (st[0] == "A" and st[2][0] == "agg" and st[2][1][0] == "adt" and st[2][1][1] == DP and "permit_dc_failover" in (st[2][1][4] or [])):
                    continue
                n += 1
                op = st[2][2][st[2][1][4].index("permit_dc_failover")]
                if op[0] == "k":
                    r.instance("failover-flag-is-the-users:" + fn_short(b.path), True, "constant (a default)", b.stmt_span(st), nontrivial=False)
                    continue
                seen, calls, bins = field_slice(b, op)
                fields = set()
                multi = False
                for l, _ in seen:
                    ds = b.defs.get(l, [])
                    if len(ds) > 1:
                        multi = True
                    for d in ds:
                        if d[0] == "stmt" and d[3][0] == "use" and d[3][1][0] in ("c", "m"):
                            for e in d[3][1][1][1]:
                                if isinstance(e, list) and e[0] == "f" and e[2]:
                                    fields.add(e[2])
                ok = not calls and not bins and not multi and fields <= {"permit_dc_failover"}
                r.instance("failover-flag-is-the-users:" + fn_short(b.path), ok,
                           "the policy's permit_dc_failover is computed from %s instead of being the builder's flag: whether failover is possible depends on the preference "
                           "in force for the REQUEST (inherited from the session when the policy has none), which is not known when the policy is built"
                           % (sorted(fields - {"permit_dc_failover"}) or sorted({(c.name or c.decl or "?").split("::")[-1] for c in calls}) or "several definitions"), b.stmt_span(st))
    if n == 0:
        raise AnchorLost("no DefaultPolicy construction with a permit_dc_failover field found")


def check(ctx):
    facts = inline_view(ctx.facts("default"))
    for fn in (r1, r2, r3, r4, r5, r6, r7, r8, r9, r10, r11, r12):
        try:
            fn(ctx, facts)
        except AnchorLost as ex:
            ctx.rule(fn.__name__.upper() + "x", "anchors of " + fn.__name__).fail("anchor-lost", str(ex))
