"""C16 — derived row/UDT mappings bind fields by name (wiring of the GENERATED code only).

A fixed family of structs (/verif/derive_family) derives the driver's four traits with every attribute the macros offer;
the crate is compiled under the mirfacts driver and the generated bodies are analysed:
 R1 name <-> field wiring: in every by-name serializer, deserializer and type-check, the arm selected by the string literal L
    (de)serializes exactly the struct field whose declared CQL name is L, with that field's declared type; every non-skipped
    field has an arm, skipped fields have none; the value decoded under L ends in that field of the constructed struct.
 R2 'done' accounting of by-name row serialization: FieldStatus::Done is reported only where remaining_count == 0, the counter
    is decremented once per field (guarded by that field's visited flag, which is then set), flattened children included.
 R3 ordered flavor: names are compared positionally in declaration order, unless skip_name_checks (then not at all).
Not decided: behaviour under all permutations / missing / extra patterns of the generated visited-flag logic - needs execution.
"""
import re
from ..mir import AnchorLost
from ..util import cmp_truth, norm_cmps, df_of, fn_short, in_set, backward_slice, operand_path, path_last
from .c09 import rpo_index

S = "alloc::string::String"
O64 = "core::option::Option<i64>"
# struct -> (kind, flavor, [(rust field, cql name or None if skipped/flattened, declared type)], derives)
FAMILY = {
    "RowPlain": ("row", "name", [("a", "a", "i32"), ("b", "b", S), ("c", "c", O64)], "sd"),
    "RowRenamed": ("row", "name", [("a", "x", "i32"), ("b", "a", S), ("c", "c", "f64")], "sd"),
    "RowSkip": ("row", "name", [("a", "a", "i32"), ("ignored", None, S), ("c", "c", "bool")], "sd"),
    "Innermost": ("row", "name", [("z", "z", "i32")], "s"),
    "Middle": ("row", "name", [("innermost", None, "flatten"), ("y", "y", S)], "s"),
    "Outer": ("row", "name", [("middle", None, "flatten"), ("x", "x", "i64"), ("w", "w", "bool")], "s"),
    "RowDefaults": ("row", "name", [("a", "a", "i32"), ("b", "b", S), ("c", "c", O64)], "d"),
    "RowOrdered": ("row", "order", [("a", "a", "i32"), ("b", "bb", S), ("c", "c", "i64")], "sd"),
    "RowOrderedNoNames": ("row", "order-nonames", [("a", "a", "i32"), ("b", "b", S)], "sd"),
    "UdtPlain": ("udt", "name", [("a", "a", "i32"), ("b", "b", S), ("c", "c", O64)], "sd"),
    "UdtRenamed": ("udt", "name", [("a", "x", "i32"), ("b", "a", S)], "sd"),
    "UdtStrict": ("udt", "name", [("a", "a", "i32"), ("ignored", None, S), ("b", "b", S), ("c", "c", O64)], "sd"),
    "UdtOrdered": ("udt", "order", [("a", "a", "i32"), ("b", "bb", S)], "sd"),
    "UdtOrderedNoNames": ("udt", "order-nonames", [("a", "a", "i32"), ("b", "b", S)], "sd"),
    "UdtAllowMissingFirst": ("udt", "name", [("a", "a", "i32"), ("b", "b", S), ("c", "c", O64), ("d", "d", "i64")], "sd"),
    "UdtOrderedDefaults": ("udt", "order", [("a", "a", "i32"), ("b", "b", "i64"), ("c", "c", "core::option::Option<i32>")], "sd"),
}


def eq_literals(b):
    """{bb: literal} for every `str == "literal"` call"""
    out = {}
    for bb, c in b.calls():
        if bb in b.live_blocks and c.decl == "core::cmp::PartialEq::eq" and len(c.args) == 2:
            for a in c.args:
                lit = str_literal(a)
                if lit is not None:
                    out[bb] = lit
    return out


def resolve_literal(facts, b, op, depth=0):
    """string literal an operand denotes, looking through reference temporaries and promoted constants"""
    lit = str_literal(op)
    if lit is not None:
        return lit
    if depth > 6:
        return None
    if op[0] == "k" and op[1] == "other" and "::promoted[" in str(op[3]):
        m = re.search(r"promoted\[(\d+)\]", op[3])
        pb = facts.body(b.path.split("::promoted[")[0] + "::promoted[%s]" % m.group(1)) if m else None
        if pb is not None:
            for bb in pb.live_blocks:
                for st in pb.stmts(bb):
                    if st[0] == "A" and st[2][0] == "use":
                        l2 = str_literal(st[2][1])
                        if l2 is not None:
                            return l2
        return None
    if op[0] in ("c", "m"):
        sd = b.single_def(op[1][0])
        if sd and sd[0] == "stmt":
            rv = sd[3]
            if rv[0] == "use":
                return resolve_literal(facts, b, rv[1], depth + 1)
            if rv[0] in ("ref", "cfd"):
                return resolve_literal(facts, b, ["c", rv[-1]], depth + 1)
    return None


def str_literal(a):
    if a[0] != "k":
        return None
    if a[1] == "str":
        return a[3]
    if a[1] == "other" and isinstance(a[3], str) and len(a[3]) >= 2 and a[3][0] == '"' and a[3][-1] == '"':
        return a[3][1:-1]
    return None


def literal_in_force(df, lits, st):
    hit = [lits[k[1]] for k, v in (st or {}).items() if k[0] == "call" and k[1] in lits and in_set(v, {1})]
    return hit[0] if len(hit) == 1 else (None if not hit else "AMBIGUOUS:" + ",".join(hit))


def self_field(df, b, op, selfl=1):
    p = operand_path(df, op)
    if p and p[0] == selfl and p[1]:
        return p[1][0]
    return None


def callee_self_ty(b, c):
    i = c.callee.get("self_ty")
    t = b.ty(i) if i is not None else None
    if t:
        t = re.sub(r"'\w+ ?,? ?", "", t).replace("<>", "")
    return t


def find_body(facts, pattern):
    m = facts.find(pattern)
    if len(m) != 1:
        raise AnchorLost("generated body not found (%d matches): %s" % (len(m), pattern))
    return m[0]


def check_serializer(r, facts, name, kind, fields):
    want = {cql: (f, ty) for f, cql, ty in fields if cql is not None}
    if kind == "row":
        b = find_body(facts, r"_%sScyllaSerPartial<'scylla_ser_partial> as scylla_cql_core::_macro_internal::PartialSerializeRowByName>::serialize_field$" % name)
        sites = [c for c in b.calls_to("_macro_internal::ser::row::serialize_column")]
    else:
        b = find_body(facts, r"^<derive_family::%s as scylla_cql_core::serialize::value::SerializeValue>::serialize$" % name)
        sites = [c for bb, c in b.calls() if bb in b.live_blocks and c.decl == "scylla_cql_core::serialize::value::SerializeValue::serialize"]
    df = df_of(b, facts)
    lits = eq_literals(b)
    got = {}
    for c in sites:
        f = self_field(df, b, c.args[0])
        L = literal_in_force(df, lits, df.state_in.get(c.bb))
        got.setdefault(L, []).append((f, callee_self_ty(b, c) if kind == "udt" else None, c))
    for cql, (f, ty) in sorted(want.items()):
        hits = got.get(cql, [])
        ok = len(hits) == 1 and hits[0][0] == f and (kind == "row" or hits[0][1] == ty)
        r.instance("ser:%s:%s" % (name, cql), ok, "the arm for column/field name %r must serialize self.%s%s; it serializes %s" % (cql, f, "" if kind == "row" else " as " + ty, [(h[0], h[1]) for h in hits]),
                   hits[0][2].span if hits else b.span)
    extra = sorted(str(k) for k in got if k not in want)
    r.instance("ser:%s:no-extra-arms" % name, not extra, "serializer has arms for names that are not declared (or skipped) fields: %s" % extra, b.span, nontrivial=False)
    return b


def check_deserializer(r, facts, name, kind, fields):
    tr = "scylla_cql_core::deserialize::row::DeserializeRow" if kind == "row" else "scylla_cql_core::deserialize::value::DeserializeValue"
    want = {cql: (f, ty) for f, cql, ty in fields if cql is not None}
    for meth in ("type_check", "deserialize"):
        b = find_body(facts, r"^<derive_family::%s as %s<'lifetime, 'lifetime_>>::%s$" % (name, re.escape(tr), meth))
        df = df_of(b, facts)
        lits = eq_literals(b)
        sites = [c for bb, c in b.calls() if bb in b.live_blocks and c.decl == "scylla_cql_core::deserialize::value::DeserializeValue::" + meth and "res" in c.callee or
                 (bb in b.live_blocks and c.decl == "scylla_cql_core::deserialize::value::DeserializeValue::" + meth)]
        got = {}
        for c in sites:
            L = literal_in_force(df, lits, df.state_in.get(c.bb))
            got.setdefault(L, []).append((callee_self_ty(b, c), c))
        for cql, (f, ty) in sorted(want.items()):
            hits = got.get(cql, [])
            ok = bool(hits) and all(h[0] in (ty, "core::option::Option<%s>" % ty) for h in hits)
            r.instance("de:%s:%s:%s" % (name, meth, cql), ok, "under name %r the generated %s must use the declared type %s of field %s; it uses %s" % (cql, meth, ty, f, [h[0] for h in hits]), hits[0][1].span if hits else b.span)
        extra = sorted(str(k) for k in got if k not in want and k is not None)
        r.instance("de:%s:%s:no-extra-arms" % (name, meth), not extra, "%s has arms for undeclared names %s" % (meth, extra), b.span, nontrivial=False)
        if meth == "deserialize":
            # value decoded under L lands in the struct field whose CQL name is L
            aggs = [s for bb in b.live_blocks for s in b.stmts(bb) if s[0] == "A" and s[2][0] == "agg" and s[2][1][0] == "adt" and s[2][1][1] == "derive_family::" + name]
            if len(aggs) != 1:
                r.fail("de:%s:construct" % name, "expected one construction of %s in deserialize, found %d" % (name, len(aggs)), b.span)
                continue
            s = aggs[0]
            by_dest = {}
            for L, hs in got.items():
                for ty, c in hs:
                    by_dest[c.dest[0]] = L
            for (f, cql, ty), op in zip(fields, s[2][2]):
                if cql is None:
                    continue
                locs, _, _ = backward_slice(b, op)
                # through the unwrap closure: captured slot locals
                srcs = {by_dest[l] for l in locs if l in by_dest} - {None}
                r.instance("de:%s:field-%s-filled-from-its-column" % (name, f), srcs == {cql}, "field %s (CQL name %r) is filled from the value decoded under name(s) %s" % (f, cql, sorted(map(str, srcs))), b.stmt_span(s))


def r1(ctx, facts):
    r = ctx.rule("R1", "generated by-name code binds each CQL name to the right field and type", floor=100)
    sers = {}
    for name, (kind, flavor, fields, der) in FAMILY.items():
        if flavor != "name":
            continue
        try:
            if "s" in der:
                sers[name] = check_serializer(r, facts, name, kind, fields)
            if "d" in der:
                check_deserializer(r, facts, name, kind, fields)
        except AnchorLost as ex:
            r.fail("anchor:%s" % name, str(ex))
    return sers


def r2(ctx, facts, sers):
    r = ctx.rule("R2", "by-name row serialization reports Done only when every field was written", floor=32)
    FS = "scylla_cql_core::serialize::row::FieldStatus"
    for name, b in sorted(sers.items()):
        if FAMILY[name][0] != "row":
            continue
        df = df_of(b, facts)
        dones = [(bb, j, s) for bb in sorted(b.live_blocks) for j, s in enumerate(b.stmts(bb)) if s[0] == "A" and s[2][0] == "agg" and s[2][1][0] == "adt" and s[2][1][1].endswith("row::FieldStatus") and s[2][1][2] == "Done"]
        if not dones:
            r.fail("done-sites:%s" % name, "serialize_field of %s never reports Done" % name, b.span)
        for i, (bb, j, s) in enumerate(dones):
            st = df.state_before_stmt(bb, j) or {}
            ok = any(o == "Eq" and y == ("const", 0) and t == 1 and "remaining_count" in df.fmt_expr(x) for o, x, y, t in norm_cmps(st))
            r.instance("done-only-if-nothing-remains:%s#%d" % (name, i), ok, "FieldStatus::Done must be reported only where self.remaining_count == 0 (a parent that flattens this struct stops expecting its columns); state: %s" % df.fmt_state(st)[:300], b.stmt_span(s))
        # each decrement: flag tested false, then set true
        decs = [(bb, s) for bb in sorted(b.live_blocks) for s in b.stmts(bb) if s[0] == "A" and s[2][0] == "bin" and s[2][1].startswith("Sub") and "remaining_count" in b.fmt_rv(s[2])]
        nfields = len([1 for f in FAMILY[name][2] if f[1] is not None or f[2] == "flatten"])
        r.instance("one-decrement-per-field:%s" % name, len(decs) == nfields, "%d decrements of remaining_count for %d fields" % (len(decs), nfields), b.span)
        for i, (bb, s) in enumerate(decs):
            st = df.state_in.get(bb) or {}
            flags = [k for k, v in st.items() if k[0] == "val" and k[1][1] and k[1][1][-1].startswith("__visited_flag_") and in_set(v, {0})]
            sets = [x for x in b.stmts(bb) if x[0] == "A" and x[1][1] and x[2][0] == "use" and x[2][1][0] == "k" and path_last(df.canon.path(x[1])) in [f[1][1][-1] for f in flags]]
            r.instance("decrement-guarded-by-visited-flag:%s#%d" % (name, i), len(flags) == 1 and bool(sets), "remaining_count -= 1 must happen only when this field's visited flag was false, and set it", b.stmt_span(s))
        # early Done/NotUsed returns: a flattened child's Done must fall through to the tail (checked above: no Done site without remaining==0)
    # initial counter = number of (non-skipped) fields
    for name in sorted(sers):
        if FAMILY[name][0] != "row":
            continue
        pb = facts.find(r"impl scylla_cql_core::_macro_internal::SerializeRowByName for derive_family::%s>::partial$" % name)
        if len(pb) != 1:
            continue
        p = pb[0]
        agg = [s for bb in p.live_blocks for s in p.stmts(bb) if s[0] == "A" and s[2][0] == "agg" and s[2][1][0] == "adt" and "ScyllaSerPartial" in s[2][1][1]]
        nfields = len([1 for f in FAMILY[name][2] if f[1] is not None or f[2] == "flatten"])
        ok = False
        if agg:
            fields = agg[0][2][1][4]
            op = agg[0][2][2][fields.index("remaining_count")]
            ok = op[0] == "k" and int(op[3]) == nfields
        r.instance("initial-count:%s" % name, ok, "remaining_count must start at the number of serialized fields (%d)" % nfields, p.span)


def r3(ctx, facts):
    r = ctx.rule("R3", "ordered flavor compares names positionally; skip_name_checks compares none", floor=18)
    for name, (kind, flavor, fields, der) in FAMILY.items():
        if not flavor.startswith("order"):
            continue
        want = [(f, cql) for f, cql, ty in fields if cql is not None]
        enforce = flavor == "order"
        if kind == "row":
            b = find_body(facts, r"SerializeRowInOrder for derive_family::%s>::serialize_in_order$" % name)
            df = df_of(b, facts)
            rpo = rpo_index(b)
            calls = sorted(b.calls_to("NextColumnSerializer::<'_, '_>::serialize"), key=lambda c: rpo.get(c.bb, 1 << 30))
            r.instance("%s:ser:one-call-per-field" % name, len(calls) == len(want), "%d positional serializations for %d fields" % (len(calls), len(want)), b.span)
            for i, (c, (f, cql)) in enumerate(zip(calls, want)):
                lit = resolve_literal(facts, b, c.args[1])
                fld = self_field(df, b, c.args[2])
                flag = "true" in (c.callee.get("args") or "").replace(" ", "").split(",")
                r.instance("%s:ser:position-%d" % (name, i), lit == cql and fld == f, "position %d must serialize self.%s under expected name %r; serializes self.%s under %r" % (i, f, cql, fld, lit), c.span)
                r.instance("%s:ser:position-%d:name-enforced" % (name, i), flag == enforce, "ENFORCE_NAME is %s, the struct %s skip_name_checks" % (flag, "does not have" if enforce else "has"), c.span, nontrivial=False)
        # name comparisons in the remaining generated bodies
        pats = []
        if kind == "udt":
            pats.append(("ser", r"^<derive_family::%s as scylla_cql_core::serialize::value::SerializeValue>::serialize$" % name))
            pats.append(("tc", r"^<derive_family::%s as scylla_cql_core::deserialize::value::DeserializeValue<'lifetime, 'lifetime_>>::type_check$" % name))
        else:
            pats.append(("tc", r"^<derive_family::%s as scylla_cql_core::deserialize::row::DeserializeRow<'lifetime, 'lifetime_>>::type_check$" % name))
        for tag, pat in pats:
            b = find_body(facts, pat)
            rpo = rpo_index(b)
            seq = []
            for bb, c in sorted(b.calls(), key=lambda x: rpo.get(x[0], 1 << 30)):
                if bb in b.live_blocks and c.decl in ("core::cmp::PartialEq::eq", "core::cmp::PartialEq::ne"):
                    for a in c.args:
                        lit = resolve_literal(facts, b, a)
                        if lit is not None:
                            seq.append(lit)
            names = [cql for f, cql in want]
            seq = [x for x in seq if x in names]
            if enforce:
                dedup = [x for i, x in enumerate(seq) if x not in seq[:i]]
                r.instance("%s:%s:names-in-declared-order" % (name, tag), dedup == names, "names are compared in order %s; declared order is %s" % (dedup, names), b.span)
            else:
                r.instance("%s:%s:no-name-checks" % (name, tag), not seq, "skip_name_checks: no name may be compared; compares %s" % seq, b.span)


def r4(ctx, facts):
    r = ctx.rule("R4", "ordered UDT deserialization inspects a CQL field's value only after its name matched the Rust field", floor=5)
    for name, (kind, flavor, fields, der) in FAMILY.items():
        if kind != "udt" or flavor != "order" or "d" not in der:
            continue
        b = find_body(facts, r"^<derive_family::%s as scylla_cql_core::deserialize::value::DeserializeValue<'lifetime, 'lifetime_>>::deserialize$" % name)
        df = df_of(b, facts)
        lits = {}
        for bb, c in b.calls():
            if bb in b.live_blocks and c.decl == "core::cmp::PartialEq::eq" and len(c.args) == 2:
                for a in c.args:
                    lit = resolve_literal(facts, b, a)
                    if lit is not None:
                        lits[bb] = lit
        names = {cql: ty for f, cql, ty in fields if cql is not None}
        rpo = rpo_index(b)
        flat_calls = sorted(b.calls_to("Option::<core::option::Option<T>>::flatten"), key=lambda c: rpo.get(c.bb, 1 << 30))
        flat = {c.dest[0] for c in flat_calls}
        order = [cql for f, cql, ty in fields if cql is not None]
        field_of_value = {c.dest[0]: order[i] for i, c in enumerate(flat_calls)} if len(flat_calls) == len(order) else {}
        if not flat or not lits or not field_of_value:
            raise AnchorLost("%s::deserialize: per-field value (flatten) / name comparisons not found (%d/%d)" % (name, len(flat), len(lits)))
        n = 0
        for bb, c in b.calls():
            if bb not in b.live_blocks:
                continue
            is_none = (c.name or "").endswith("Option::<T>::is_none")
            is_deser = c.decl == "scylla_cql_core::deserialize::value::DeserializeValue::deserialize" and "UdtIterator" not in (callee_self_ty(b, c) or "")
            if not (is_none or is_deser):
                continue
            locs = set()
            for a in c.args:
                locs |= backward_slice(b, a)[0]
            if not (locs & flat):
                continue
            n += 1
            # the most recent name comparison known to have succeeded (earlier fields' comparisons stay true)
            hits = [k[1] for k, v in (df.state_in.get(bb) or {}).items() if k[0] == "call" and k[1] in lits and in_set(v, {1})]
            latest = [h for h in hits if all(b.dominates(o, h) for o in hits)]
            lit = lits[latest[0]] if len(latest) == 1 else None
            what = "null test (default_when_null)" if is_none else "deserialization as %s" % callee_self_ty(b, c)
            mine = {field_of_value[l] for l in locs & flat}
            ok = lit is not None and mine == {lit}
            what += " for Rust field %s" % sorted(mine)
            if ok and is_deser:
                ok = (callee_self_ty(b, c) or "").replace(" ", "") == names[lit].replace(" ", "")
            r.instance("%s:value-used-after-name-check#%d" % (name, n), ok,
                       "%s of the current CQL field happens where the name comparison in force is %r: the value must only be consumed (deserialized, or replaced by Default because it is null) for the Rust field whose name it carries" % (what, lit), c.span)
        r.instance("%s:fields-covered" % name, n >= len(names), "%d value uses found for %d fields" % (n, len(names)), b.span, nontrivial=False)


# fields carrying #[scylla(allow_missing)] in the family (mirrors derive_family/src/lib.rs)
ALLOW_MISSING = {"UdtStrict": {"c"}, "UdtAllowMissingFirst": {"a", "c"}, "UdtOrderedDefaults": {"b"}, "RowDefaults": set()}


def _chase_bool(b, op, hops=6):
    """(defining statement, inverted?) of a bool operand, through copies and `!`"""
    inv = False
    l = op[1][0] if op[0] in ("c", "m") else None
    sd = None
    while l is not None and hops > 0:
        hops -= 1
        sd = b.single_def(l)
        if sd and sd[0] == "stmt" and sd[3][0] == "use" and sd[3][1][0] in ("c", "m") and not sd[3][1][1][1]:
            l = sd[3][1][1][0]
        elif sd and sd[0] == "stmt" and sd[3][0] == "un" and sd[3][1] == "Not" and sd[3][2][0] in ("c", "m") and not sd[3][2][1][1]:
            inv = not inv
            l = sd[3][2][1][0]
        else:
            break
    return sd, inv


def _missing_checks_gate(b, flag_of, _spans):
    """-> (ok, detail, site). E = blocks that build ValueMissingForUdtField; G = a switch that dominates all of them and has a
    successor from which none of them is reachable (the checks are skipped on that edge). No such switch: nothing is skipped.
    Otherwise the skipping edge must be `countdown == 0`, the countdown starting at the number of fields and being decremented
    only together with raising a visited flag that was false."""
    E = [bb for bb in sorted(b.live_blocks) for st in b.stmts(bb)
         if st[0] == "A" and st[2][0] == "agg" and st[2][1][0] == "adt" and st[2][1][2] == "ValueMissingForUdtField"]
    E = sorted(set(E))
    if not E:
        return True, "no missing-field error site (no required field)", None
    gates = []
    fin = {bb for bb, c in b.calls() if bb in b.live_blocks and (c.name or c.decl or "").split("::")[-1] == "finish"}
    if not fin:
        return False, "no `finish()` of the value builder found: cannot tell the success path", None
    for g in sorted(b.live_blocks):
        t = b.term(g)
        if t[0] != "switch" or not all(b.dominates(g, e) for e in E):
            continue
        succs = [tg for _, tg in t[2]] + [t[3]]
        # the edge skips the checks AND still completes the value (an early type error is not a skipped check)
        skip = [tg for tg in succs if not (b.reachable_from(tg) & set(E)) and tg not in E and ((b.reachable_from(tg) | {tg}) & fin)]
        keep = [tg for tg in succs if (b.reachable_from(tg) & set(E)) or tg in E]
        if skip and keep:
            gates.append((g, skip, keep))
    if not gates:
        return True, "the checks are not skipped on any path", None
    flags = set(flag_of)
    for g, skip, keep in gates:
        t = b.term(g)
        site = b.term_span(g)
        if t[1][0] not in ("c", "m"):
            return False, "the branch that skips the missing-field checks tests a constant", site
        sd, inverted = _chase_bool(b, t[1])
        # a gate on the visited flags themselves (`if !(a && b && c)`): the skip edge then knows every flag
        locs = backward_slice(b, t[1])[0]
        if not (sd and sd[0] == "stmt" and sd[3][0] == "bin" and sd[3][1] in ("Gt", "Ne", "Eq", "Lt", "Ge", "Le")):
            if locs & flags and not any(b.local_ty(l) == "usize" for l in locs):
                continue
            return False, "the branch that skips the missing-field checks is not a test of the countdown of unvisited fields", site
        ops = sd[3][2:4]
        ks = [o for o in ops if o[0] == "k" and o[1] == "int"]
        vs = [o for o in ops if o[0] in ("c", "m")]
        if len(ks) != 1 or int(ks[0][3]) != 0 or len(vs) != 1:
            return False, "the branch that skips the missing-field checks compares something with something other than 0 (%s): only `countdown == 0` proves that every field was visited" % sd[3][1], site
        # the counter local (through one copy)
        c = vs[0][1][0]
        cd = b.single_def(c)
        if cd and cd[0] == "stmt" and cd[3][0] == "use" and cd[3][1][0] in ("c", "m") and not cd[3][1][1][1]:
            c = cd[3][1][1][0]
        inits, decs, other = [], [], []
        for d in b.defs.get(c, []):
            if d[0] == "stmt" and d[3][0] == "use" and d[3][1][0] == "k":
                inits.append(int(d[3][1][3]))
            elif d[0] == "stmt" and d[3][0] == "use" and d[3][1][0] in ("c", "m"):
                src = b.single_def(d[3][1][1][0])
                if src and src[0] == "stmt" and src[3][0] in ("bin", "cbin") and src[3][1] in ("Sub", "SubWithOverflow") \
                        and src[3][2][0] in ("c", "m") and src[3][2][1][0] == c and src[3][3][0] == "k" and int(src[3][3][3]) == 1:
                    decs.append(src[1])
                else:
                    other.append(d)
            elif d[0] == "stmt" and d[3][0] in ("bin", "cbin") and d[3][1] in ("Sub", "SubWithOverflow") \
                    and d[3][2][0] in ("c", "m") and d[3][2][1][0] == c and d[3][3][0] == "k" and int(d[3][3][3]) == 1:
                decs.append(d[1])
            else:
                other.append(d)
        if len(inits) != 1 or other:
            return False, "the value tested by the branch that skips the missing-field checks is not a countdown (initialised once from a constant, then only decremented): e.g. a comparison of lengths says nothing about WHICH fields were visited", site
        if inits[0] != len(flags):
            return False, "the countdown starts at %d but the struct has %d fields" % (inits[0], len(flags)), site
        # which edge skips: value 0 of the comparison result for Gt/Ne, value 1 for Eq/Le
        op = sd[3][1]
        const_left = ops[0][0] == "k"
        if const_left:
            op = {"Gt": "Lt", "Lt": "Gt", "Le": "Ge", "Ge": "Le"}.get(op, op)
        edges = {int(v): tg for v, tg in t[2]}
        false_tg, true_tg = edges.get(0, t[3]), (t[3] if 0 in edges else edges.get(1, t[3]))
        if inverted:
            false_tg, true_tg = true_tg, false_tg
        zero_tg = {"Gt": false_tg, "Ne": false_tg, "Eq": true_tg, "Le": true_tg}.get(op)
        if zero_tg is None or zero_tg not in skip or len(skip) != 1:
            return False, "the missing-field checks are skipped on an edge that is not `countdown == 0` (comparison %s)" % op, site
        # every decrement happens where a flag that was false is raised
        seen_flags = set()
        for dbb in decs:
            # the flag is raised next to the decrement: in its block or in the straight-line blocks right after it (the overflow
            # assertion of `n -= 1` splits the block; the two statements may stand in either order)
            near, cur = [dbb], dbb
            for _ in range(3):
                nxt = [x for x in b.succ[cur] if x in b.live_blocks]
                if b.term(cur)[0] in ("assert", "goto") and len(nxt) >= 1:
                    cur = b.term(cur)[5] if b.term(cur)[0] == "assert" else b.term(cur)[1]
                    near.append(cur)
                else:
                    break
            raised = [st[1][0] for x in near for st in b.stmts(x) if st[0] == "A" and not st[1][1] and st[1][0] in flags and st[2][0] == "use" and st[2][1][0] == "k" and int(st[2][1][3]) == 1]
            raised = sorted(set(raised))
            guard = None
            for pb in b.pred.get(dbb, []) if isinstance(b.pred, dict) else b.pred[dbb]:
                pt = b.term(pb)
                if pt[0] == "switch" and pt[1][0] in ("c", "m"):
                    gl = (backward_slice(b, pt[1])[0] | {pt[1][1][0]}) & flags
                    pe = {int(v): tg for v, tg in pt[2]}
                    _sd, inv = _chase_bool(b, pt[1])
                    # entered where the flag WAS false: edge 0 of `flag`, or the non-zero edge of `!flag`
                    on_false = (pe.get(0) == dbb) if not inv else (pe.get(0) != dbb)
                    if len(gl) == 1 and on_false:
                        guard = next(iter(gl))
            if not raised and guard is not None:
                # `let first = !flag; flag = true; if first { n -= 1 }`: the flag was raised on the way to the test
                raised = [st[1][0] for x in sorted(b.live_blocks) if b.dominates(x, dbb) for st in b.stmts(x)
                          if st[0] == "A" and not st[1][1] and st[1][0] == guard and st[2][0] == "use" and st[2][1][0] == "k" and int(st[2][1][3]) == 1][:1]
            if len(raised) != 1 or guard != raised[0]:
                return False, "the countdown is decremented where no visited flag is raised from false to true (%s): a field visited twice, or an excess field, would count as a required one" % b.term_span(dbb), b.term_span(dbb)
            seen_flags.add(raised[0])
        if seen_flags != flags:
            return False, "not every field's first visit decrements the countdown (%d of %d)" % (len(seen_flags), len(flags)), site
    return True, "", None


def r5(ctx, facts):
    r = ctx.rule("R5", "by-name UDT serialization refuses a UDT that lacks a required field, for exactly the required fields", floor=12)
    for name, (kind, flavor, fields, der) in FAMILY.items():
        if kind != "udt" or flavor != "name" or "s" not in der:
            continue
        b = find_body(facts, r"^<derive_family::%s as scylla_cql_core::serialize::value::SerializeValue>::serialize$" % name)
        df = df_of(b, facts)
        required = {cql: f for f, cql, ty in fields if cql is not None and f not in ALLOW_MISSING.get(name, set())}
        optional = {cql for f, cql, ty in fields if cql is not None and f in ALLOW_MISSING.get(name, set())}
        flag_of = {}
        for l in range(len(b.locals)):
            nm = (b.local_name(l) or "").lstrip("_")
            if nm.startswith("visited_flag_"):
                flag_of[l] = nm[len("visited_flag_"):]
        sites = {}
        for bb in sorted(b.live_blocks):
            for j, st in enumerate(b.stmts(bb)):
                if not (st[0] == "A" and st[2][0] == "agg" and st[2][1][0] == "adt" and st[2][1][2] == "ValueMissingForUdtField"):
                    continue
                if bb not in df.state_in:
                    continue   # generated for every field, but guarded by `&& !true` for allow_missing ones: not feasible
                # the reported name: to_string() of a literal
                lit = None
                locs, calls, _ = backward_slice(b, st[2][2][0])
                for c in calls:
                    for a in c.args:
                        lit = lit or resolve_literal(facts, b, a)
                state = df.state_before_stmt(bb, j) or {}
                unvisited = sorted(flag_of[k[1][0]] for k, v in state.items() if k[0] == "val" and not k[1][1] and k[1][0] in flag_of and in_set(v, {0}))
                sites.setdefault(lit, []).append((unvisited, b.stmt_span(st)))
        for cql, f in sorted(required.items()):
            ss = sites.get(cql, [])
            r.instance("%s:required-field-checked:%s" % (name, cql), bool(ss) and all(f in unv for unv, _ in ss),
                       "a UDT lacking the required field %r must be refused with ValueMissingForUdtField{%r}, reported where the visited flag of `%s` is false; found %s"
                       % (cql, cql, f, [(u, str(sp)) for u, sp in ss] or "no such error site"), ss[0][1] if ss else b.span)
        for cql in sorted(optional):
            r.instance("%s:allow_missing-field-not-required:%s" % (name, cql), cql not in sites, "%r is allow_missing: its absence must not be an error" % cql, b.span, nontrivial=False)
        # round 10: the required-field checks may be SKIPPED only when every field was visited. The generated code skips
        # them under a countdown that starts at the number of fields and loses one per field on its first visit.
        gate_ok, gate_detail, gate_site = _missing_checks_gate(b, flag_of, [sp for ss_ in sites.values() for _, sp in ss_])
        r.instance("%s:missing-field-checks-skipped-only-when-all-visited" % name, gate_ok, gate_detail, gate_site or b.span)
        extra = sorted(str(k) for k in sites if k not in required and k not in optional)
        r.instance("%s:no-stray-missing-field-error" % name, not extra, "ValueMissingForUdtField is reported for %s, which is no field of the struct" % extra, b.span, nontrivial=False)


def r6(ctx, facts):
    r = ctx.rule("R6", "by-name UDT serialization: the nulls owed for skipped UDT fields are flushed exactly once (counter back to 0 before a field is written)", floor=6)
    for name, (kind, flavor, fields, der) in FAMILY.items():
        if kind != "udt" or flavor != "name" or "s" not in der:
            continue
        b = find_body(facts, r"^<derive_family::%s as scylla_cql_core::serialize::value::SerializeValue>::serialize$" % name)
        df = df_of(b, facts)
        sk = [l for l in range(len(b.locals)) if (b.local_name(l) or "").lstrip("_") == "skipped_fields"]
        if not sk:
            continue   # forbid_excess_udt_fields: nothing is ever skipped
        L = ("val", (sk[0], ()))
        n = 0
        for bb, c in b.calls():
            if bb not in b.live_blocks or bb not in df.state_in or c.decl != "scylla_cql_core::serialize::value::SerializeValue::serialize":
                continue
            n += 1
            st = df.state_in.get(bb) or {}
            zero = cmp_truth(st, "Gt", L, ("const", 0)) == 0 or cmp_truth(st, "Eq", L, ("const", 0)) == 1 or in_set(st.get(L), {0})
            r.instance("%s:no-stale-skipped-count#%d" % (name, n), zero,
                       "a field is serialized while `skipped_fields` may still be non-zero: the nulls written for earlier unknown UDT fields would be written again before the next field (every later field shifts)", c.span)
        r.instance("%s:field-writes-found" % name, n >= len([f for f in fields if f[1] is not None]), "%d field serializations found" % n, b.span, nontrivial=False)


def r7(ctx, facts):
    r = ctx.rule("R7", "by-name type_check looks at every field / column the database lists before it accepts", floor=5)
    from ..util import dj_of
    from .c10 import ok_sites
    for name, (kind, flavor, fields, der) in FAMILY.items():
        if flavor != "name" or "d" not in der:
            continue
        tr = "scylla_cql_core::deserialize::row::DeserializeRow" if kind == "row" else "scylla_cql_core::deserialize::value::DeserializeValue"
        b = find_body(facts, r"^<derive_family::%s as %s<'lifetime, 'lifetime_>>::type_check$" % (name, re.escape(tr)))
        dj = dj_of(b, facts)
        oks = {bb for bb, _ in ok_sites(b)}
        loops = [c for bb, c in b.calls() if bb in b.live_blocks and (c.decl or "").endswith("Iterator::next") and any(c.bb in b.reachable_from(x) for x in b.succ[c.bb])]
        if not loops or not oks:
            raise AnchorLost("%s::type_check: no loop over the listed fields (%d) or no Ok exit (%d)" % (name, len(loops), len(oks)))
        for i, c in enumerate(loops):
            root = dj.disc_root(dj.canon.path(c.dest))
            early = []
            for sw in sorted(b.live_blocks):
                t = b.term(sw)
                if t[0] != "switch":
                    continue
                e = dj.expr_of_operand(t[1])
                if e != ("disc", root):
                    continue
                vals, other = switch_edges_(b, sw)
                some_t = vals.get(1, other if 0 in vals else None)
                if some_t is None:
                    continue
                reach = dj.feasible_reach_edge(sw, some_t, removed_nodes={c.bb})
                if reach & oks:
                    early.append(str(b.term_span(sw)))
            r.instance("%s:accepts-only-after-the-last-listed-field#%d" % (name, i), not early,
                       "after looking at one listed field, type_check can return Ok without asking the iterator for the next one: what the database lists further on is never "
                       "checked (excess fields under forbid_excess_udt_fields, the type of a present allow_missing field, duplicates), so acceptance depends on the listing order", c.span)


def r8(ctx, facts):
    r = ctx.rule("R8", "ordered serialization consumes a database field only after its name matched the Rust field (a skipped allow_missing field leaves it for the next one)", floor=4)
    for name, (kind, flavor, fields, der) in FAMILY.items():
        if flavor != "order" or "s" not in der or kind != "udt":
            continue        # rows have no allow_missing: a mismatch is an error, nothing is skipped
        tr = "scylla_cql_core::serialize::value::SerializeValue"
        b = find_body(facts, r"^<derive_family::%s as %s>::serialize$" % (name, re.escape(tr)))
        df = df_of(b, facts)
        eqs = [c for bb, c in b.calls() if bb in b.live_blocks and c.decl == "core::cmp::PartialEq::eq"]
        nexts = [c for bb, c in b.calls() if bb in b.live_blocks and (c.decl or "").endswith("Iterator::next")]
        if not eqs or not nexts:
            raise AnchorLost("%s::serialize (ordered): name comparisons / iterator advances not found (%d/%d)" % (name, len(eqs), len(nexts)))
        for i, e in enumerate(eqs):
            names = set()
            for a in e.args:
                names |= {(x.decl or x.name or "") for x in backward_slice(b, a)[1]}
            looked = any(n.endswith("::peek") for n in names)
            consumed = any(n.endswith("Iterator::next") for n in names)
            r.instance("%s:name-checked-before-consuming#%d" % (name, i), looked and not consumed,
                       "the database field whose name is compared here was %s: if the names differ and the Rust field is allow_missing, that database field is gone and the next "
                       "Rust field is compared with the one after it" % ("already taken out of the iterator" if consumed else "not obtained by a non-consuming look (peek)"), e.span)
        for i, nx in enumerate(nexts):
            doms = [e for e in eqs if b.dominates(e.bb, nx.bb)]
            near = [e for e in doms if all(b.dominates(o.bb, e.bb) for o in doms)]
            st = df.state_in.get(nx.bb) or {}
            r.instance("%s:advance-only-on-match#%d" % (name, i), bool(near) and in_set(st.get(("call", near[0].bb)), {1}),
                       "the iterator over the database's fields is advanced where the name comparison of this Rust field has not come out equal", nx.span)


# attributes in force per family struct (CQL name -> set); everything not listed has none
NULL_DEFAULT = {
    "RowDefaults": {"b"},
    "UdtStrict": {"b"},
    "UdtOrderedDefaults": {"b"},
}


def r9(ctx, facts):
    r = ctx.rule("R9", "a NULL is turned into Default::default() only for fields marked default_when_null (allow_missing covers an absent field, not a null one)", floor=8)
    n = 0
    for name, (kind, flavor, fields, derives) in sorted(FAMILY.items()):
        if "d" not in derives or flavor != "name":
            continue
        tr = "scylla_cql_core::deserialize::row::DeserializeRow" if kind == "row" else "scylla_cql_core::deserialize::value::DeserializeValue"
        b = find_body(facts, r"^<derive_family::%s as %s<'lifetime, 'lifetime_>>::deserialize$" % (name, re.escape(tr)))
        df = df_of(b, facts)
        lits = eq_literals(b)
        in_arm = {}
        for bb, c in b.calls():
            if bb in b.live_blocks and (c.decl == "core::default::Default::default" or (c.name or "").endswith(("::unwrap_or_default", "::or_default"))):
                L = literal_in_force(df, lits, df.state_in.get(bb))
                if L is not None:
                    in_arm.setdefault(L, []).append(c)
        allowed = NULL_DEFAULT.get(name, set())
        for f, cql, ty in fields:
            if cql is None:
                continue
            n += 1
            has = cql in in_arm
            if cql in allowed:
                r.instance("null-default:%s:%s" % (name, cql), has, "field %s is default_when_null but the arm of its name has no Default::default() fallback" % f, b.span)
            else:
                r.instance("null-default:%s:%s" % (name, cql), not has,
                           "the arm of name %r falls back to Default::default() although field %s is not marked default_when_null: a NULL in the database silently becomes the default value "
                           "instead of being handed to the field's own deserializer (which rejects it for non-Option types)" % (cql, f), in_arm[cql][0].span if has else b.span)
    if n == 0:
        raise AnchorLost("no by-name deserializer of the family found")


ALLOW_MISSING = {
    "UdtStrict": {"c"},
    "UdtOrderedDefaults": {"b"},
    "UdtAllowMissingFirst": {"a", "c"},
}


def _lookahead_slots(b):
    out = set()
    for bb, c in b.calls():
        if bb in b.live_blocks and (c.name or c.decl or "").endswith("Option::<T>::take") and c.args and c.args[0][0] in ("c", "m"):
            l = c.args[0][1][0]
            d = b.single_def(l)
            if d and d[0] == "stmt" and d[3][0] == "ref" and not d[3][2][1]:
                out.add(d[3][2][0])
            elif b.local_ty(l).startswith("core::option::Option<"):
                out.add(l)
    return out or {l for l in range(len(b.locals)) if (b.local_name(l) or "") == "saved_cql_field"}


def _is_fetch(c):
    """`saved.take().or_else(|| iter.next())` or a bare `iter.next()` (declared or resolved name)"""
    return any((x or "").endswith(("Option::<T>::or_else", "Iterator::next")) for x in (c.name, c.decl))


def r10(ctx, facts):
    r = ctx.rule("R10", "ordered UDT type_check: when the UDT's field list ends at a REQUIRED field the type is refused (only allow_missing fields may be absent)", floor=5)
    from ..util import dj_of
    n = 0
    for name, (kind, flavor, fields, derives) in sorted(FAMILY.items()):
        if kind != "udt" or "d" not in derives or not flavor.startswith("order"):
            continue
        b = find_body(facts, r"^<derive_family::%s as scylla_cql_core::deserialize::value::DeserializeValue<'lifetime, 'lifetime_>>::type_check$" % name)
        dj = dj_of(b, facts)
        order = rpo_index(b)
        # one "fetch the next UDT field" per Rust field, in declaration order: `saved.take().or_else(|| iter.next())` or a bare next()
        fetch = sorted([c for bb, c in b.calls() if bb in b.live_blocks and _is_fetch(c)
                        and "Option" in b.local_ty(c.dest[0]) and not c.dest[1]], key=lambda c: order.get(c.bb, 1 << 30))
        # keep the outermost fetch per field: an or_else whose closure calls next() shows only the or_else here (the closure is a separate body)
        live_fields = [(f, cql) for f, cql, ty in fields if cql is not None]
        if len(fetch) != len(live_fields):
            raise AnchorLost("%s::type_check: %d field fetches for %d fields" % (name, len(fetch), len(live_fields)))
        oks = [bb for bb in b.live_blocks for st in b.stmts(bb) if st[0] == "A" and st[1][0] == 0 and not st[1][1] and st[2][0] == "agg" and st[2][1][0] == "adt" and st[2][1][2] == "Ok"]
        for (f, cql), c in zip(live_fields, fetch):
            n += 1
            none_edges = []
            for u in sorted(b.live_blocks):
                if b.term(u)[0] != "switch":
                    continue
                for v in b.succ[u]:
                    sts = dj.states_on_edge(u, v)
                    if sts and all(in_set(st.get(("disc", (c.dest[0], ()))), {0}) for st in sts):
                        before = dj.states_before_stmt(u, len(b.stmts(u)))
                        if not (before and all(in_set(st.get(("disc", (c.dest[0], ()))), {0}) for st in before)):
                            none_edges.append((u, v))
            if not none_edges:
                r.fail("end-of-udt:%s:%s" % (name, f), "the branch on `no more UDT fields` for field %s was not found" % f, c.span)
                continue
            reach_ok = any(x in dj.feasible_reach_edge(u, v) for (u, v) in none_edges for x in oks)
            if cql in ALLOW_MISSING.get(name, set()):
                r.instance("end-of-udt:%s:%s" % (name, f), True, "allow_missing field: may be absent", c.span, nontrivial=False)
            else:
                r.instance("end-of-udt:%s:%s" % (name, f), not reach_ok,
                           "type_check can answer Ok although the UDT has no field left for the required field %s (an earlier allow_missing field that IS present uses up the field count "
                           "pre-check): deserialize then hits its `type check should have prevented this` panic" % f, c.span)
    if n == 0:
        raise AnchorLost("no ordered UDT type_check in the family")


def r11(ctx, facts):
    r = ctx.rule("R11", "by-name type_check refuses a type that lists one of the struct's names twice (deserialize asserts it cannot happen)", floor=8)
    from ..util import dj_of, decided_edges
    n = 0
    for name, (kind, flavor, fields, der) in sorted(FAMILY.items()):
        if flavor != "name" or "d" not in der:
            continue
        tr = "scylla_cql_core::deserialize::row::DeserializeRow" if kind == "row" else "scylla_cql_core::deserialize::value::DeserializeValue"
        b = find_body(facts, r"^<derive_family::%s as %s<'lifetime, 'lifetime_>>::type_check$" % (name, re.escape(tr)))
        dj = dj_of(b, facts)
        df = df_of(b, facts)
        lits = eq_literals(b)
        loops = [c for bb, c in b.calls() if bb in b.live_blocks and (c.decl or "").endswith("Iterator::next") and any(c.bb in b.reachable_from(x) for x in b.succ[c.bb])]
        if not loops:
            raise AnchorLost("%s::type_check: no loop over the listed fields" % name)
        heads = [c.bb for c in loops]
        for f, cql, ty in fields:
            if cql is None:
                continue
            arm_bbs = [bb for bb, L in lits.items() if L == cql]
            if not arm_bbs:
                continue
            n += 1
            # first-occurrence path: the blocks that record "seen" for this name (a constant stored into a bool / Option slot while L is in force)
            marks = []
            for bb in sorted(b.live_blocks):
                for st in b.stmts(bb):
                    if st[0] == "A" and not st[1][1] and st[2][0] == "use" and st[2][1][0] == "k" and b.local_ty(st[1][0]) == "bool" and str(st[2][1][3]) in ("1", "true"):
                        if literal_in_force(df, lits, df.state_in.get(bb)) == cql:
                            marks.append(bb)
            if not marks:
                r.fail("duplicate-refused:%s:%s" % (name, cql), "no `seen` flag is recorded in the arm of name %r" % cql, b.span)
                continue
            again = False
            for ab in arm_bbs:
                for (u, v) in decided_edges(b, dj, ("call", ab), 1):
                    reach = dj.feasible_reach_edge(u, v, removed_nodes=marks)
                    if any(h in reach for h in heads):
                        again = True
            r.instance("duplicate-refused:%s:%s" % (name, cql), not again,
                       "when the database type lists the name %r a second time, type_check goes on to the next listed field instead of answering DuplicatedField: it accepts the type, and "
                       "deserialize then panics on its `duplicated field ... type check should have prevented this` assertion" % cql, b.span)
    if n == 0:
        raise AnchorLost("no by-name type_check arms found")


def r12(ctx, facts, sers):
    r = ctx.rule("R12", "by-name row serialization writes a cell for EVERY column the database lists under a field's name (also when the name is listed twice: one value per bind marker)", floor=8)
    from ..util import dj_of, decided_edges
    n = 0
    for name, b in sorted(sers.items()):
        if FAMILY[name][0] != "row":
            continue
        dj = dj_of(b, facts)
        lits = eq_literals(b)
        writes = [c.bb for bb, c in b.calls() if bb in b.live_blocks and (c.name or c.decl or "").endswith("serialize_column")]
        if not writes:
            raise AnchorLost("%s::serialize_field: no serialize_column call" % name)
        for f, cql, ty in FAMILY[name][2]:
            if cql is None:
                continue
            arms = [bb for bb, L in lits.items() if L == cql]
            if not arms:
                continue
            n += 1
            skipped = False
            for ab in arms:
                for (u, v) in decided_edges(b, dj, ("call", ab), 1):
                    reach = dj.feasible_reach_edge(u, v, removed_nodes=writes)
                    if any(e in reach for e in b.exits):
                        skipped = True
            r.instance("every-occurrence-is-written:%s:%s" % (name, cql), not skipped,
                       "serialize_field can leave the arm of column name %r without calling serialize_column (e.g. the call sits under the `not visited yet` guard): when the statement lists that name twice, "
                       "the second cell is not written, every later value shifts left and the row is sent short - without an error" % cql, b.span)
    if n == 0:
        raise AnchorLost("no by-name row serializer arms found")


def r13(ctx, facts):
    r = ctx.rule("R13", "ordered UDT type_check: a UDT field that is matched to a Rust field always has its type checked, also when it arrives through the look-ahead slot of a preceding allow_missing field", floor=5)
    from ..util import dj_of
    n = 0
    for name, (kind, flavor, fields, derives) in sorted(FAMILY.items()):
        if kind != "udt" or "d" not in derives or not flavor.startswith("order"):
            continue
        b = find_body(facts, r"^<derive_family::%s as scylla_cql_core::deserialize::value::DeserializeValue<'lifetime, 'lifetime_>>::type_check$" % name)
        dj = dj_of(b, facts)
        order = rpo_index(b)
        fetch = sorted([c for bb, c in b.calls() if bb in b.live_blocks and _is_fetch(c)
                        and "Option" in b.local_ty(c.dest[0]) and not c.dest[1]], key=lambda c: order.get(c.bb, 1 << 30))
        tcs = sorted([c for bb, c in b.calls() if bb in b.live_blocks and c.decl == "scylla_cql_core::deserialize::value::DeserializeValue::type_check"], key=lambda c: order.get(c.bb, 1 << 30))
        live_fields = [(f, cql) for f, cql, ty in fields if cql is not None]
        if len(fetch) != len(live_fields) or len(tcs) != len(live_fields):
            raise AnchorLost("%s::type_check: %d fetches / %d type checks for %d fields" % (name, len(fetch), len(tcs), len(live_fields)))
        # parking a field for the next Rust field (the allow_missing name-mismatch path): a Some(..) stored into the look-ahead slot.
        # The slot is found by role: the Option local that `Option::take` is called on (whatever it is named)
        slots = _lookahead_slots(b)
        parks = []
        for bb in sorted(b.live_blocks):
            for st in b.stmts(bb):
                if st[0] == "A" and not st[1][1] and st[1][0] in slots and not (st[2][0] == "agg" and st[2][1][0] == "adt" and st[2][1][2] == "None"):
                    parks.append(bb)
        oks = [bb for bb in b.live_blocks for st in b.stmts(bb) if st[0] == "A" and st[1][0] == 0 and not st[1][1] and st[2][0] == "agg" and st[2][1][0] == "adt" and st[2][1][2] == "Ok"]
        for k, ((f, cql), c, tc) in enumerate(zip(live_fields, fetch, tcs)):
            n += 1
            nxt = [fetch[k + 1].bb] if k + 1 < len(fetch) else []
            key = ("disc", (c.dest[0], ()))
            some_edges = []
            for u in sorted(b.live_blocks):
                if b.term(u)[0] != "switch":
                    continue
                before = dj.states_before_stmt(u, len(b.stmts(u)))
                for v in b.succ[u]:
                    sts = dj.states_on_edge(u, v)
                    if sts and all(in_set(st.get(key), {1}) for st in sts) and not (before and all(in_set(st.get(key), {1}) for st in before)):
                        some_edges.append((u, v))
            if not some_edges:
                r.fail("matched-field-is-type-checked:%s:%s" % (name, f), "the branch on `a UDT field was obtained` for field %s was not found" % f, c.span)
                continue
            skipped = False
            for (u, v) in some_edges:
                reach = dj.feasible_reach_edge(u, v, removed_nodes=[tc.bb] + parks)
                if any(x in reach for x in nxt + oks):
                    skipped = True
            r.instance("matched-field-is-type-checked:%s:%s" % (name, f), not skipped,
                       "after a UDT field was obtained for Rust field %s, type_check can go on to the next field (or accept) without checking the field's CQL type and without parking it for the next "
                       "Rust field: a mismatched type is accepted and its bytes are reinterpreted by deserialize" % f, tc.span)
    if n == 0:
        raise AnchorLost("no ordered UDT type_check in the family")


def r14(ctx, facts):
    r = ctx.rule("R14", "ordered UDT deserialize consumes a UDT field from the iterator only when no field is waiting in the look-ahead slot (a parked field and a freshly fetched one are never both taken for one Rust field)", floor=3)
    from ..util import dj_of
    n = 0
    for name, (kind, flavor, fields, derives) in sorted(FAMILY.items()):
        if kind != "udt" or "d" not in derives or not flavor.startswith("order"):
            continue
        b = find_body(facts, r"^<derive_family::%s as scylla_cql_core::deserialize::value::DeserializeValue<'lifetime, 'lifetime_>>::deserialize$" % name)
        dj = dj_of(b, facts)
        takes = [c for bb, c in b.calls() if bb in b.live_blocks and (c.name or "").endswith("Option::<T>::take")]
        direct = [c for bb, c in b.calls() if bb in b.live_blocks and (c.decl or "").endswith("Iterator::next") and "UdtIterator" in b.local_ty(c.args[0][1][0]) ] if True else []
        n += 1
        if not takes:
            r.instance("lazy-fetch:%s" % name, True, "no look-ahead slot in this deserializer", b.span, nontrivial=False)
            continue
        bad = None
        for c in direct:
            # a fetch in the body itself (not inside the `or_else` fallback closure): allowed only where a `take()` of the slot is known to have come out None
            sts = dj.states_at(c.bb)
            if not (sts and all(any(in_set(st.get(("disc", (t.dest[0], ()))), {0}) for t in takes) for st in sts)):
                bad = c
        r.instance("lazy-fetch:%s" % name, bad is None,
                   "the deserializer fetches the next UDT field from the iterator although a field may be waiting in the look-ahead slot (e.g. `saved.take().or(fetched)` with the fetch done eagerly): "
                   "the fetched field is then thrown away, and the Rust field it belonged to gets its default or the deserializer panics with `Too few CQL UDT fields`", bad.span if bad else b.span)
    if n == 0:
        raise AnchorLost("no ordered UDT deserializer in the family")


def switch_edges_(b, sw):
    t = b.term(sw)
    return {int(v): tg for v, tg in t[2]}, t[3]


def r16(ctx, facts):
    """`default_when_null` covers a field that is absent from the serialized UDT AND one that is present but NULL: the generated
    by-name deserializer first flattens `Option<Option<slice>>` and then chooses between deserialize and Default::default(). A test
    on the UNFLATTENED option sends an explicit NULL to deserialize, which refuses it (seed C16-l)."""
    r = ctx.rule("R16", "by-name UDT deserialize: the choice of Default::default() for a default_when_null field is made on the flattened value (absent and NULL alike)", floor=1)
    n = 0
    for name, (kind, flavor, fields, derives) in sorted(FAMILY.items()):
        if kind != "udt" or flavor != "name" or "d" not in derives:
            continue
        b = find_body(facts, r"^<derive_family::%s as scylla_cql_core::deserialize::value::DeserializeValue<'lifetime, 'lifetime_>>::deserialize$" % name)
        df = df_of(b, facts)
        defaults = [c for bb, c in b.calls() if bb in b.live_blocks and (c.decl or "") == "core::default::Default::default"]
        for k, dcall in enumerate(defaults):
            # nearest branch that decides between this default and something else
            guard = None
            for sw in sorted(b.live_blocks, reverse=True):
                t = b.term(sw)
                if t[0] != "switch" or not b.dominates(sw, dcall.bb) or sw == dcall.bb:
                    continue
                succs = [tg for _, tg in t[2]] + [t[3]]
                if any(dcall.bb not in (b.reachable_from(tg, removed_nodes=[sw]) | {tg}) for tg in succs):
                    if guard is None or b.dominates(guard, sw):
                        guard = sw
            if guard is None:
                continue
            t = b.term(guard)
            e = df.expr_of_operand(t[1])
            tested = None
            if e[0] == "disc":
                tested = b.local_ty(e[1][0]) if not e[1][1] else None
            elif e[0] == "call":
                ct = b.term(e[1])
                if (ct[1].get("def") or "").split("::")[-1] in ("is_some", "is_none") and ct[2] and ct[2][0][0] in ("c", "m"):
                    l = ct[2][0][1][0]
                    d = b.single_def(l)
                    if d and d[0] == "stmt" and d[3][0] == "ref":
                        l = d[3][2][0]
                    tested = b.local_ty(l)
            if tested is None or "Option<" not in tested:
                continue
            n += 1
            nested = tested.replace("&", "").startswith("core::option::Option<core::option::Option<")
            r.instance("default-chosen-on-flattened-value:%s#%d" % (name, k), not nested,
                       "Default::default() is chosen by a test on `%s`: a field that is present but NULL (`Some(None)`) goes to deserialize, which refuses the null, "
                       "instead of being default-initialised as `default_when_null` documents" % tested, dcall.span)
    if n == 0:
        r.note("no default_when_null choice found in the by-name UDT deserializers of the family")
        r.instance("family-has-default-when-null", False, "the family has no by-name UDT deserializer with a default_when_null field (the rule has nothing to judge)", None)


CASE_FOLDING = ("eq_ignore_ascii_case", "to_lowercase", "to_uppercase", "to_ascii_lowercase", "to_ascii_uppercase", "make_ascii_lowercase",
                "make_ascii_uppercase", "eq_ignore_case", "unicase")


def r15(ctx, facts):
    """a CQL name that reaches the driver is already in its exact form (a quoted `"V"` and `v` are two different columns): the
    generated code and the runtime helpers it calls compare names exactly. A case-folding comparison makes the ordered flavour
    accept another column in the declared position and swap two values silently (seed C16-k)."""
    r = ctx.rule("R15", "column / field names are compared exactly: no case folding in the generated (de)serializers nor in the _macro_internal helpers they call", floor=1)
    n = 0
    bad = []
    core = ctx.facts("default")
    helpers = [hb for hb in core.bodies.mentioning("_macro_internal") if "scylla_cql_core::_macro_internal::" in hb.path and "::promoted[" not in hb.path]
    if len(helpers) < 10:
        raise AnchorLost("only %d bodies under scylla_cql_core::_macro_internal found" % len(helpers))
    for b in list(facts.bodies.values()) + helpers:
        if "::promoted[" in b.path:
            continue
        if not (b.path.startswith(("derive_family::", "<derive_family::")) or "_macro_internal::" in b.path):
            continue
        n += 1
        for bb, c in b.calls():
            if bb in b.live_blocks and (c.decl or c.name or "").split("::")[-1] in CASE_FOLDING:
                bad.append((fn_short(b.path), (c.decl or c.name).split("::")[-1], c.span))
    r.instance("exact-name-comparison", not bad,
               "%s compares a column / field name through `%s`: two columns whose names differ only in case are taken for one another"
               % (bad[0][0] if bad else "", bad[0][1] if bad else ""), bad[0][2] if bad else None)
    r.instance("population", n >= 50, "only %d generated / helper bodies scanned" % n, None, nontrivial=False)
    r.note("%d generated / _macro_internal bodies scanned" % n)


def check(ctx):
    facts = ctx.facts("family")
    sers = {}
    try:
        sers = r1(ctx, facts)
    except AnchorLost as ex:
        ctx.rule("R1x", "anchors").fail("anchor-lost", str(ex))
    for fn in ((lambda c, f: r2(c, f, sers)), (lambda c, f: r12(c, f, sers)), r3, r4, r5, r6, r7, r8, r9, r10, r11, r13, r14, r15, r16):
        try:
            fn(ctx, facts)
        except AnchorLost as ex:
            ctx.rule("ANCHOR%d" % len(ctx.rules), "anchors").fail("anchor-lost", str(ex))
    ctx.assumptions += ["the family in /verif/derive_family is a fixed sample of attribute combinations; the sidecar table in c16.py mirrors its declarations"]
