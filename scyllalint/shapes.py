"""Accept-set extraction over ColumnType shapes for SerializeValue::serialize and DeserializeValue::type_check bodies."""
from .dataflow import Dataflow
from .util import df_of
from .mir import AnchorLost

CT = "scylla_cql_core::frame::response::result::ColumnType"
NT = "scylla_cql_core::frame::response::result::NativeType"
COLL = "scylla_cql_core::frame::response::result::CollectionType"
SV = "scylla_cql_core::serialize::value::SerializeValue"
DV = "scylla_cql_core::deserialize::value::DeserializeValue"
CELLWRITER = "scylla_cql_core::serialize::writers::CellWriter"
PRIMS = ("CellWriter::<'buf>::set_value", "CellWriter::<'buf>::set_null", "CellWriter::<'buf>::set_unset",
         "CellWriter::<'buf>::into_value_builder")


def all_shapes(facts):
    out = set()
    for v in facts.variants(CT):
        if v == "Native":
            out |= {"Native:" + n for n in facts.variants(NT)}
        elif v == "Collection":
            out |= {"Collection:" + n for n in facts.variants(COLL)}
        else:
            out.add(v)
    return out


def shapes_of_state(df, st, tpath):
    """set of shapes of the ColumnType at canonical path `tpath` possible in dataflow state st"""
    facts = df.facts
    if st is None:
        return set()
    kct = ("disc", tpath)
    v = st.get(kct)
    cts = set(facts.variants(CT)) if v is None else df.variant_names(tpath, v, CT)
    out = set()
    for c in cts:
        if c == "Native":
            p = (tpath[0], tpath[1] + ("@Native", "0"))
            vv = st.get(("disc", p))
            ns = set(facts.variants(NT)) if vv is None else df.variant_names(p, vv, NT)
            out |= {"Native:" + n for n in ns}
        elif c == "Collection":
            p = (tpath[0], tpath[1] + ("@Collection", "typ"))
            vv = st.get(("disc", p))
            ns = set(facts.variants(COLL)) if vv is None else df.variant_names(p, vv, COLL)
            out |= {"Collection:" + n for n in ns}
        else:
            out.add(c)
    return out


class ShapeFlow:
    """forward dataflow whose abstract value is the SET of ColumnType shapes the tracked `typ` may have (powerset domain:
    exact for the disjunctions that nested `match typ { Collection { typ: List(_) | Set(_), .. } => .., _ => .. }` create)."""

    def __init__(self, b, df, facts, tpath, universe):
        self.b, self.df, self.facts, self.tpath, self.universe = b, df, facts, tpath, universe
        self.p_nat = (tpath[0], tpath[1] + ("@Native", "0"))
        self.p_coll = (tpath[0], tpath[1] + ("@Collection", "typ"))
        self.state_in = {}
        self.run()

    def _restrict(self, shapes, level, names):
        if level == "ct":
            def keep(sh):
                v = sh.split(":")[0]
                return v in names
        elif level == "nat":
            def keep(sh):
                return not sh.startswith("Native:") or sh[7:] in names
        else:
            def keep(sh):
                return not sh.startswith("Collection:") or sh[11:] in names
        return frozenset(x for x in shapes if keep(x))

    # The abstract value is a set of (shape, benv) pairs: benv records the constants last stored into multiply-assigned boolean
    # locals, so `let ok = matches!(typ, A | B); if !ok { return Err }` is as exact as the `match typ { A | B => {}, _ => return Err }`
    # it replaces (the boolean is the only carrier of the shape test across the join).
    def _bool_locals(self):
        b = self.b
        out = set()
        for l in range(len(b.locals)):
            if b.local_ty(l) == "bool" and (l > b.argc or l == 0) and b.single_def(l) is None and len(b.defs.get(l, ())) > 1:
                out.add(l)
        return out

    @staticmethod
    def _set_env(elems, l, v):
        out = set()
        for sh, env in elems:
            e2 = frozenset(x for x in env if x[0] != l)
            if v is not None:
                e2 = e2 | {(l, v)}
            out.add((sh, e2))
        return frozenset(out)

    def run(self):
        from collections import deque
        b = self.b
        bools = self._bool_locals()
        self.state_in = {0: frozenset((sh, frozenset()) for sh in self.universe)}
        wl = deque([0])
        while wl:
            bb = wl.popleft()
            cur = self.state_in[bb]
            for st in b.stmts(bb):
                if st[0] == "A" and not st[1][1] and st[1][0] in bools:
                    rv = st[2]
                    v = int(rv[1][3]) if rv[0] == "use" and rv[1][0] == "k" and rv[1][1] == "int" else None
                    cur = self._set_env(cur, st[1][0], v)
            t = b.term(bb)
            outs = []
            handled = False
            if t[0] == "call" and not t[3][1] and t[3][0] in bools:
                cur = self._set_env(cur, t[3][0], None)
            if t[0] == "switch":
                e = self.df.expr_of_operand(t[1])
                flip = False
                while e[0] == "not":
                    e, flip = e[1], not flip
                level = None
                if e[0] == "disc" and not flip:
                    if e[1] == self.tpath:
                        level, adt = "ct", CT
                    elif e[1] == self.p_nat:
                        level, adt = "nat", NT
                    elif e[1] == self.p_coll:
                        level, adt = "coll", COLL
                if level:
                    handled = True
                    allv = {int(v["discr"]): v["name"] for v in self.facts.adt(adt)["variants"]}
                    listed = set()

                    def restr(names):
                        keep = self._restrict(frozenset(sh for sh, _ in cur), level, names)
                        return frozenset(x for x in cur if x[0] in keep)
                    for v, tg in t[2]:
                        nm = allv.get(int(v))
                        listed.add(nm)
                        outs.append((tg, restr({nm})))
                    rest = set(allv.values()) - listed
                    outs.append((t[3], restr(rest)))
                elif e[0] == "val" and e[1][1] == () and e[1][0] in bools:
                    handled = True
                    l = e[1][0]
                    listed = set()

                    def with_val(vals):
                        out = set()
                        for sh, env in cur:
                            known = [x[1] for x in env if x[0] == l]
                            if not known or known[0] in vals:
                                out.add((sh, env))
                        return frozenset(out)
                    for v, tg in t[2]:
                        val = int(v)
                        val = (1 - val) if flip and val in (0, 1) else val
                        listed.add(val)
                        outs.append((tg, with_val({val})))
                    outs.append((t[3], with_val({0, 1} - listed)))
            if not handled:
                outs = [(s_, cur) for s_ in b.succ[bb]]
            for tg, sh in outs:
                if not sh:
                    continue
                old = self.state_in.get(tg)
                new = sh if old is None else (old | sh)
                if new != old:
                    self.state_in[tg] = new
                    wl.append(tg)

    def at(self, bb):
        return {sh for sh, _ in self.state_in.get(bb, frozenset())}


_sf_cache = {}


def shapeflow(facts, b, tl, universe):
    k = (id(facts), b.path, tl)
    if k not in _sf_cache:
        _sf_cache[k] = ShapeFlow(b, df_of(b, facts), facts, (tl, ()), universe)
    return _sf_cache[k]


def param_of_type(b, prefix, ref=None):
    for l in range(1, b.argc + 1):
        t = b.local_ty(l)
        if ref is not None and not t.startswith(ref):
            continue
        core = t.lstrip("&").replace("mut ", "")
        while core.startswith("'"):
            core = core.split(" ", 1)[1] if " " in core else core
        if core.startswith(prefix):
            return l
    return None


class Accept:
    """memoised accept sets"""

    def gate_restrict(self, b, df, st, tl, depth):
        """shapes allowed by helper calls `g(typ)?` whose success is known in state st (the `?` took the Continue edge)."""
        from .util import backward_slice
        allowed = set(self.universe)
        if st is None:
            return allowed
        for k, v in st.items():
            if k[0] != "disc" or k[1][1] != () or not (v[0] == "in" and v[1] == frozenset([0])):
                continue
            L = k[1][0]
            sd = b.single_def(L)
            if not sd or sd[0] != "call":
                continue
            c = sd[2]
            if c.is_("core::ops::try_trait::Try::branch"):
                _, calls, _ = backward_slice(b, c.args[0])
            elif "core::result::Result" in b.local_ty(L):
                # matched directly on the Result of the gate (Ok = 0)
                calls = [c]
            else:
                continue
            for g in calls:
                nm = g.name
                if nm is None or self.facts.body(nm) is None:
                    continue
                if not any(a[0] in ("c", "m") and df.canon.path(a[1]) == (tl, ()) for a in g.args):
                    continue
                if not self.facts.body(nm).local_ty(0).startswith("core::result::Result"):
                    continue
                sub, _ = self.tc(nm, depth + 1)
                allowed &= sub
        return allowed

    def __init__(self, facts):
        self.facts = facts
        self.memo = {}
        self.universe = all_shapes(facts)
        self.details = {}

    # ---- serializers -------------------------------------------------------------------
    def ser(self, path, depth=0):
        """(accepted shapes, set of delegation markers) for a function taking (typ: &ColumnType, writer: CellWriter)"""
        key = ("ser", path)
        if key in self.memo:
            return self.memo[key]
        self.memo[key] = (set(), set())  # recursion guard
        b = self.facts.body(path)
        if b is None or depth > 6:
            self.memo[key] = (set(self.universe), {"?no-mir:" + path})
            return self.memo[key]
        tl = param_of_type(b, CT)
        wl = param_of_type(b, CELLWRITER)
        if tl is None or wl is None:
            self.memo[key] = (set(self.universe), {"?no-typ-or-writer:" + path})
            return self.memo[key]
        df = df_of(b, self.facts)
        acc, marks = set(), set()
        sites = []
        for bb, c in b.calls():
            if bb not in b.live_blocks or not df.feasible(bb):
                continue
            wargs = [i for i, a in enumerate(c.args) if a[0] in ("c", "m") and df.canon.path(a[1]) == (wl, ())]
            if not wargs:
                continue
            st = df.out_state(bb)
            sh = shapeflow(self.facts, b, tl, self.universe).at(bb) & self.gate_restrict(b, df, st, tl, depth)
            if c.is_(*PRIMS):
                acc |= sh
                sites.append((bb, "prim:" + c.name.split("::")[-1], sh))
                continue
            # delegation: is typ forwarded unchanged?
            targs = [a for a in c.args if a[0] in ("c", "m") and df.canon.path(a[1]) == (tl, ())]
            name = c.name
            resolved = name is not None and self.facts.body(name) is not None
            if targs and resolved:
                sub, submarks = self.ser(name, depth + 1)
                acc |= (sh & sub)
                marks |= submarks
                sites.append((bb, "delegate:" + name, sh & sub))
            elif targs:
                acc |= sh
                marks.add("generic:" + (c.decl or "?").split("::")[-1] + ":" + str(self.facts_short(c)))
                sites.append((bb, "generic-delegate:" + str(c.decl), sh))
            else:
                # writer handed on with a different / projected type (element writers are sub-writers, not this writer)
                acc |= sh
                marks.add("writer-forwarded-with-other-type:" + str(name or c.decl))
                sites.append((bb, "forward-other-type:" + str(name or c.decl), sh))
        self.details[key] = sites
        self.memo[key] = (acc, marks)
        return self.memo[key]

    @staticmethod
    def facts_short(c):
        st = c.callee.get("self_ty")
        return st

    # ---- may-return-Ok analysis (type_check, gates, serialize) ---------------------------
    OK_PRESERVING = ("Result::<T, E>::map_err", "Result::<T, E>::map", "Result::<T, E>::and_then", "Result::<T, E>::inspect_err",
                     "Result::<T, E>::inspect", "Result::<T, E>::or_else")

    def tc(self, path, depth=0):
        """(shapes of the ColumnType parameter under which the function may return Ok, markers)"""
        key = ("tc", path)
        if key in self.memo:
            return self.memo[key]
        self.memo[key] = (set(), set())
        b = self.facts.body(path)
        if b is None or depth > 8:
            self.memo[key] = (set(self.universe), {"?no-mir:" + path})
            return self.memo[key]
        tl = param_of_type(b, CT)
        if tl is None:
            self.memo[key] = (set(self.universe), {"?no-typ:" + path})
            return self.memo[key]
        df = df_of(b, self.facts)
        marks, sites = set(), []
        memo = {}

        def shapes_at(bb, j=None):
            st = df.state_before_stmt(bb, j) if j is not None else df.out_state(bb)
            if st is None:
                return set()
            return shapeflow(self.facts, b, tl, self.universe).at(bb) & gates(st)

        def gates(st):
            allowed = set(self.universe)
            for k, v in st.items():
                if k[0] != "disc" or k[1][1] != () or not (v[0] == "in" and v[1] == frozenset([0])):
                    continue
                L = k[1][0]
                if L == 0:
                    continue
                sd = b.single_def(L)
                if sd and sd[0] == "call" and sd[2].is_("core::ops::try_trait::Try::branch"):
                    a = sd[2].args[0]
                    if a[0] in ("c", "m") and not a[1][1]:
                        allowed &= ok_local(a[1][0])
                elif "core::result::Result<" in b.local_ty(L)[:40]:
                    allowed &= ok_local(L)
            return allowed

        def ok_local(L):
            if L in memo:
                return memo[L]
            memo[L] = set()  # cycle guard (least fixpoint from below is fine: defs are acyclic in practice)
            out = set()
            for d in b.defs.get(L, []):
                if d[0] == "stmt":
                    bb, j, rv = d[1], d[2], d[3]
                    if not df.feasible(bb):
                        continue
                    if rv[0] == "agg" and rv[1][0] == "adt" and rv[1][1] == "core::result::Result":
                        if rv[1][2] == "Ok":
                            sh = shapes_at(bb, j)
                            out |= sh
                            sites.append((bb, "Ok", sh))
                    elif rv[0] == "use" and rv[1][0] in ("c", "m") and not rv[1][1][1]:
                        out |= ok_local(rv[1][1][0]) & shapes_at(bb, j)
                    else:
                        out |= shapes_at(bb, j)
                elif d[0] == "call":
                    bb, c = d[1], d[2]
                    if not df.feasible(bb):
                        continue
                    sh = shapes_at(bb)
                    nm, decl = c.name or "", c.decl or ""
                    if c.is_("core::ops::try_trait::FromResidual::from_residual"):
                        continue
                    if c.is_(*self.OK_PRESERVING) and c.args and c.args[0][0] in ("c", "m") and not c.args[0][1][1]:
                        out |= ok_local(c.args[0][1][0]) & sh
                        continue
                    targs = [a for a in c.args if a[0] in ("c", "m") and df.canon.path(a[1]) == (tl, ())]
                    callee = self.facts.body(nm)
                    is_tc_like = nm.endswith("::type_check") or decl.endswith("::type_check") or decl.endswith("SerializeValue::serialize")
                    if callee is not None and param_of_type(callee, CT) is not None and callee.local_ty(0).startswith("core::result::Result"):
                        if targs:
                            sub, sm = self.tc(nm, depth + 1)
                            out |= sh & sub
                            marks.update(sm)
                            sites.append((bb, "delegate:" + nm, sh & sub))
                        else:
                            out |= sh
                            marks.add("element")
                            sites.append((bb, "element:" + nm, sh))
                    elif is_tc_like:
                        out |= sh
                        marks.add("generic" if targs else "element")
                        sites.append((bb, ("generic-delegate:" if targs else "element:") + decl, sh))
                    else:
                        out |= sh
                        sites.append((bb, "lib:" + (nm or decl), sh))
                elif d[0] == "part":
                    out |= set(self.universe)
            memo[L] = out
            return out

        acc = ok_local(0)
        self.details[key] = sites
        self.memo[key] = (acc, marks)
        return self.memo[key]


def impl_method(facts, im, name):
    m = [it for it in im["items"] if it[0] == name]
    return m[0][1] if m else None
