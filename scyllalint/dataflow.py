"""Abstract-state dataflow over a Body: which values of tracked scrutinees can reach each block.

Scrutinee expressions (hashable tuples):
  ("disc", path)         discriminant of the place with canonical access path `path`
  ("val",  path)         value read from a place (bool / integer)
  ("call", bb)           value returned by the call terminating block bb
  ("bin", op, e1, e2)    comparison / arithmetic of two expressions
  ("not", e)
  ("const", int)
path = (root_local, (elem, ...)); elems are field names, "@Variant" downcasts, "[]" indexes.
Derefs are transparent; single-assignment reference / copy temporaries are substituted away.

Value sets: ("in", frozenset(ints)) or ("notin", frozenset(ints)); a missing key is top.
"""
from collections import deque

TOP = ("notin", frozenset())


_SIGNED_BITS = {"i8": 8, "i16": 16, "i32": 32, "i64": 64, "i128": 128, "isize": 64}


def signed_value(v, ty):
    """SwitchInt values are emitted as unsigned bit patterns; give signed scrutinees their signed value"""
    n = _SIGNED_BITS.get(ty)
    if n and v >= (1 << (n - 1)):
        return v - (1 << n)
    return v


def vs_join(a, b):
    if a[0] == "in" and b[0] == "in":
        return ("in", a[1] | b[1])
    if a[0] == "notin" and b[0] == "notin":
        return ("notin", a[1] & b[1])
    if a[0] == "in":
        a, b = b, a
    # a notin, b in
    return ("notin", a[1] - b[1])


def vs_meet(a, b):
    if a[0] == "in" and b[0] == "in":
        return ("in", a[1] & b[1])
    if a[0] == "notin" and b[0] == "notin":
        return ("notin", a[1] | b[1])
    if a[0] == "notin":
        a, b = b, a
    return ("in", a[1] - b[1])


def vs_empty(a):
    return a[0] == "in" and not a[1]


def adt_of_type(ts):
    """'&mut a::B<'x, T>' -> 'a::B'"""
    s = ts
    while True:
        s = s.strip()
        if s.startswith("&"):
            s = s[1:].lstrip()
            if s.startswith("'"):
                s = s.split(" ", 1)[1] if " " in s else s
            if s.startswith("mut "):
                s = s[4:]
            continue
        break
    depth = 0
    out = []
    for ch in s:
        if ch == "<":
            if depth == 0 and out and not "".join(out).startswith("<"):
                break
            depth += 1
        out.append(ch)
    return "".join(out).strip()


class Canon:
    """canonical access paths for a body"""

    def __init__(self, body):
        self.b = body
        self._alias = {}

    def _alias_of(self, l, depth=0):
        """if local l is a single-assignment alias (ref / copy / move / deref-copy of a place), return that place."""
        if l in self._alias:
            return self._alias[l]
        self._alias[l] = None  # cycle guard
        res = None
        if l > self.b.argc or l == 0:
            sd = self.b.single_def(l)
            if sd and sd[0] == "stmt":
                rv = sd[3]
                if rv[0] == "ref":
                    res = rv[2]
                elif rv[0] == "cfd":
                    res = rv[1]
                elif rv[0] == "use" and rv[1][0] in ("c", "m"):
                    # only treat as alias if the source is a reference-typed or projection place
                    res = rv[1][1]
                elif rv[0] == "cast" and rv[1].startswith("PointerCoercion") and rv[2][0] in ("c", "m"):
                    res = rv[2][1]
        self._alias[l] = res
        return res

    def path(self, place, depth=0):
        root, proj = place[0], place[1]
        elems = []
        for e in proj:
            if e == "*":
                continue
            if isinstance(e, list):
                if e[0] == "f":
                    elems.append(e[2] if e[2] else str(e[1]))
                elif e[0] == "d":
                    elems.append("@" + e[1])
                elif e[0] in ("i", "c", "s"):
                    elems.append("[]")
            # opaque casts ignored
        if depth < 24:
            al = self._alias_of(root)
            if al is not None:
                r, pre = self.path(al, depth + 1)
                return (r, pre + tuple(elems))
        return (root, tuple(elems))

    def fmt(self, path):
        root, elems = path
        nm = self.b.local_name(root) or ("_%d" % root)
        return nm + "".join(("." + e) if not e.startswith(("@", "[")) else e for e in elems)


def paths_overlap(p, q):
    if p[0] != q[0]:
        return False
    a, b = p[1], q[1]
    n = min(len(a), len(b))
    return a[:n] == b[:n]


def expr_paths(e, acc=None):
    if acc is None:
        acc = []
    k = e[0]
    if k in ("disc", "val"):
        acc.append(e[1])
    elif k == "bin":
        expr_paths(e[2], acc)
        expr_paths(e[3], acc)
    elif k == "not":
        expr_paths(e[1], acc)
    return acc


def expr_calls(e, acc=None):
    if acc is None:
        acc = []
    k = e[0]
    if k == "call":
        acc.append(e[1])
    elif k == "bin":
        expr_calls(e[2], acc)
        expr_calls(e[3], acc)
    elif k == "not":
        expr_calls(e[1], acc)
    return acc


class Dataflow:
    def __init__(self, body, facts=None, track=None):
        self.b = body
        self.facts = facts
        self.canon = Canon(body)
        self.disc_ty = {}   # path -> type string of the place whose discriminant is read
        self.state_in = {}
        self.track = track
        self._expr_cache = {}
        self.run()

    # ---- expressions ---------------------------------------------------------------------
    def expr_of_local(self, l, depth=0):
        if l in self._expr_cache:
            return self._expr_cache[l]
        self._expr_cache[l] = ("val", (l, ()))
        e = ("val", self.canon.path([l, []]))
        sd = self.b.single_def(l) if (l > self.b.argc or l == 0) else None
        if sd and depth < 16:
            if sd[0] == "call":
                e = ("call", sd[1])
            elif sd[0] == "stmt":
                e = self.expr_of_rvalue(sd[3], depth + 1) or e
        self._expr_cache[l] = e
        return e

    def expr_of_rvalue(self, rv, depth=0):
        k = rv[0]
        if k == "use":
            return self.expr_of_operand(rv[1], depth)
        if k == "disc":
            p = self.disc_root(self.canon.path(rv[1]))
            self.disc_ty.setdefault(p, self.b.ty(rv[2]))
            return ("disc", p)
        if k == "bin":
            a = self.expr_of_operand(rv[2], depth)
            c = self.expr_of_operand(rv[3], depth)
            return ("bin", rv[1], a, c)
        if k == "un" and rv[1] == "Not":
            return ("not", self.expr_of_operand(rv[2], depth))
        if k == "cast" and rv[1].startswith("IntToInt"):
            return self.expr_of_operand(rv[2], depth)
        if k == "cfd":
            return ("val", self.canon.path(rv[1]))
        return None

    # calls whose result has the same variant as their receiver: `x.as_ref()`, `x.copied()`, `x.map(f)`, `x.clone()` ...
    DISC_PRESERVING = (
        "core::option::Option::<T>::as_ref", "core::option::Option::<T>::as_mut", "core::option::Option::<T>::as_deref",
        "core::option::Option::<T>::as_deref_mut", "core::option::Option::<&T>::copied", "core::option::Option::<&T>::cloned",
        "core::option::Option::<&mut T>::copied", "core::option::Option::<&mut T>::cloned", "core::option::Option::<T>::map",
        "core::option::Option::<T>::inspect", "core::result::Result::<T, E>::as_ref", "core::result::Result::<T, E>::as_mut",
        "core::result::Result::<T, E>::map", "core::result::Result::<T, E>::map_err", "core::result::Result::<T, E>::inspect",
        "core::result::Result::<T, E>::inspect_err", "core::result::Result::<&T, E>::copied", "core::result::Result::<&T, E>::cloned",
    )

    # predicate -> discriminant value of the receiver when the predicate is true (Option: None=0 Some=1; Result: Ok=0 Err=1)
    VARIANT_PREDICATES = {
        "core::option::Option::<T>::is_some": 1, "core::option::Option::<T>::is_none": 0,
        "core::result::Result::<T, E>::is_ok": 0, "core::result::Result::<T, E>::is_err": 1,
    }

    def disc_root(self, path, depth=0):
        """the place whose discriminant equals that of `path` (looking through variant-preserving adapter calls)"""
        if path[1] or depth > 6:
            return path
        l = path[0]
        if not (l > self.b.argc or l == 0):
            return path
        sd = self.b.single_def(l)
        if sd and sd[0] == "call":
            c = sd[2]
            nm = c.callee.get("def", "")
            ok = nm in self.DISC_PRESERVING
            if not ok and nm == "core::clone::Clone::clone":
                st = c.callee.get("self_ty")
                ty = self.b.ty(st) if st is not None else ""
                ok = ty.startswith(("core::option::Option<", "core::result::Result<"))
            if ok and c.args and c.args[0][0] in ("c", "m"):
                return self.disc_root(self.canon.path(c.args[0][1]), depth + 1)
        return path

    def expr_of_operand(self, op, depth=0):
        k = op[0]
        if k == "k":
            if op[1] == "int":
                return ("const", int(op[3]))
            return ("val", (-1, (str(op[3]),)))
        pl = op[1]
        if not pl[1]:
            return self.expr_of_local(pl[0], depth)
        return ("val", self.canon.path(pl))

    # ---- state ops -----------------------------------------------------------------------
    def _is_noise_call(self, bb):
        cache = self.__dict__.setdefault("_noise", {})
        if bb not in cache:
            t = self.b.term(bb)
            noisy = False
            if t[0] == "call":
                cal = t[1]
                if (cal.get("krate") or "").split("_")[0] in ("tracing", "log"):
                    noisy = True
                else:
                    sti = cal.get("self_ty")
                    ty = self.b.ty(sti) if sti is not None else ""
                    noisy = ty.startswith(("tracing_core::", "tracing::", "log::"))
            cache[bb] = noisy
        return cache[bb]

    def restrict(self, st, e, vs):
        """returns new state or None if infeasible"""
        k = e[0]
        if k == "const":
            ok = (e[1] in vs[1]) if vs[0] == "in" else (e[1] not in vs[1])
            return st if ok else None
        if k == "not":
            # boolean negation
            flip = lambda s: frozenset(1 - x for x in s if x in (0, 1))
            return self.restrict(st, e[1], (vs[0], flip(vs[1])))
        if k == "call" and self._is_noise_call(e[1]):
            return st       # outcomes of log-level checks (tracing / log) never matter to a rule and only multiply the disjuncts
        cur = st.get(e, TOP)
        new = vs_meet(cur, vs)
        if new[0] == "notin" and k == "disc" and self.facts is not None:
            adt = self.facts.adts.get(adt_of_type(self.disc_ty.get(e[1], "")))
            if adt is not None and adt["adt_kind"] == "enum":
                new = ("in", frozenset(int(v["discr"]) for v in adt["variants"]) - new[1])
        if vs_empty(new):
            return None
        st = dict(st)
        st[e] = new
        # `x?`: ControlFlow::Continue (0) iff x is Some / Ok, Break (1) iff None / Err
        if k == "disc" and not e[1][1] and new[0] == "in" and len(new[1]) == 1:
            l = e[1][0]
            sd = self.b.single_def(l) if (l > self.b.argc or l == 0) else None
            if sd and sd[0] == "call" and sd[2].callee.get("def") == "core::ops::try_trait::Try::branch" and sd[2].args and sd[2].args[0][0] in ("c", "m"):
                sti = sd[2].callee.get("self_ty")
                sty = self.b.ty(sti) if sti is not None else ""
                cf = next(iter(new[1]))
                want = None
                if sty.startswith("core::option::Option<"):
                    want = 1 if cf == 0 else 0
                elif sty.startswith("core::result::Result<"):
                    want = 0 if cf == 0 else 1
                if want is not None and cf in (0, 1):
                    target = self.disc_root(self.canon.path(sd[2].args[0][1]))
                    if ("disc", target) != e:
                        return self.restrict(st, ("disc", target), ("in", frozenset([want])))
        # the result of x.is_some() / is_none() / is_ok() / is_err() says which variant x is
        if k == "call" and new[0] == "in" and len(new[1]) == 1:
            t = self.b.term(e[1])
            pv = self.VARIANT_PREDICATES.get(t[1].get("def", "")) if t[0] == "call" else None
            if pv is not None and t[2] and t[2][0][0] in ("c", "m"):
                truth = next(iter(new[1]))
                target = self.disc_root(self.canon.path(t[2][0][1]))
                want = pv if truth == 1 else 1 - pv
                return self.restrict(st, ("disc", target), ("in", frozenset([want])))
        # comparisons against constants refine the inner expression
        if k == "bin" and e[1] in ("Eq", "Ne") and new[0] == "in" and len(new[1]) == 1:
            truth = next(iter(new[1]))
            a, c = e[2], e[3]
            if a[0] == "const":
                a, c = c, a
            if c[0] == "const":
                is_eq = (e[1] == "Eq") == (truth == 1)
                inner = ("in", frozenset([c[1]])) if is_eq else ("notin", frozenset([c[1]]))
                return self.restrict(st, a, inner)
        # an inequality against a constant excludes one value (sound weakening for every integer type):
        # x < c, x > c exclude c;  x <= c excludes c + 1;  x >= c excludes c - 1
        if k == "bin" and e[1] in ("Lt", "Gt", "Le", "Ge") and new[0] == "in" and len(new[1]) == 1:
            truth = next(iter(new[1]))
            a, c = e[2], e[3]
            rel = e[1]
            if a[0] == "const":
                a, c = c, a
                rel = {"Lt": "Gt", "Gt": "Lt", "Le": "Ge", "Ge": "Le"}[rel]
            if truth != 1:
                rel = {"Lt": "Ge", "Ge": "Lt", "Gt": "Le", "Le": "Gt"}[rel]
            if c[0] == "const" and a[0] != "const" and isinstance(c[1], int):
                excluded = {"Lt": c[1], "Gt": c[1], "Le": c[1] + 1, "Ge": c[1] - 1}[rel]
                return self.restrict(st, a, ("notin", frozenset([excluded])))
        return st

    def kill_path(self, st, path):
        root, elems = path
        dead = None
        for k in st:
            kind = k[0]
            if kind == "call" or kind == "const":
                continue
            if kind == "disc" or kind == "val":
                q = k[1]
                if q[0] != root:
                    continue
                a, b = q[1], elems
                n = len(a) if len(a) < len(b) else len(b)
                if a[:n] != b[:n]:
                    continue
            elif not any(paths_overlap(p, path) for p in expr_paths(k)):
                continue
            if dead is None:
                dead = []
            dead.append(k)
        if dead:
            st = dict(st)
            for k in dead:
                del st[k]
        return st

    def kill_call(self, st, bb):
        dead = [k for k in st if bb in expr_calls(k)]
        if dead:
            st = dict(st)
            for k in dead:
                del st[k]
        return st

    def transfer_stmt(self, st, s):
        if s[0] == "A":
            pl, rv = s[1], s[2]
            p = self.canon.path(pl)
            st0_ = st          # the state before this statement kills anything (operands are read first)
            # a single-assignment alias temp never appears as a root; skip kill for speed if no key
            carried = None
            if rv[0] == "use" and rv[1][0] in ("c", "m") and st:
                # `x = move y`: what is known about y (its variant, its constant fields) is now known about x
                sp = self.canon.path(rv[1][1])
                dp = p if pl[1] else (pl[0], ())
                if sp != dp:
                    n = len(sp[1])
                    carried = [((k[0], (dp[0], dp[1] + k[1][1][n:])), v) for k, v in st.items()
                               if k[0] in ("disc", "val") and k[1][0] == sp[0] and k[1][1][:n] == sp[1]]
            st = self.kill_path(st, p if pl[1] else (pl[0], ()))
            if carried:
                st = dict(st)
                for k, v in carried:
                    st[k] = v
                    if k[0] == "disc":
                        ty = self.disc_ty.get((sp[0], sp[1] + k[1][1][len(dp[1]):]))
                        if ty is not None:
                            self.disc_ty.setdefault(k[1], ty)
            if rv[0] == "ref" and rv[1] == "m":
                st = self.kill_path(st, self.canon.path(rv[2]))
            if rv[0] == "use" and rv[1][0] == "k" and rv[1][1] == "int" and pl[1]:
                st = dict(st)
                st[("val", p)] = ("in", frozenset([int(rv[1][3])]))
            if rv[0] == "agg" and rv[1][0] in ("tuple", "adt") and len(rv) > 2 and rv[2]:
                # `x = (a, true)` / `S { f: 3, g: y }`: constants and what is known about moved-in places become facts about x's fields
                names = [str(i) for i in range(len(rv[2]))] if rv[1][0] == "tuple" else list(rv[1][4] or [])
                is_enum = False
                if rv[1][0] == "adt":
                    a_ = self.facts.adts.get(rv[1][1]) if self.facts else None
                    is_enum = bool(a_) and a_["adt_kind"] == "enum"
                if len(names) == len(rv[2]) and not is_enum:
                    dp = p if pl[1] else (pl[0], ())
                    new_facts = []
                    for nm_, op_ in zip(names, rv[2]):
                        if op_[0] == "k" and op_[1] == "int":
                            new_facts.append((("val", (dp[0], dp[1] + (nm_,))), ("in", frozenset([int(op_[3])]))))
                        elif op_[0] in ("c", "m") and st0_:
                            sp_ = self.canon.path(op_[1])
                            n_ = len(sp_[1])
                            for k_, v_ in st0_.items():
                                if k_[0] in ("disc", "val") and k_[1][0] == sp_[0] and k_[1][1][:n_] == sp_[1]:
                                    new_facts.append(((k_[0], (dp[0], dp[1] + (nm_,) + k_[1][1][n_:])), v_))
                    if new_facts:
                        st = dict(st)
                        for k_, v_ in new_facts:
                            st[k_] = v_
            if rv[0] == "agg" and rv[1][0] == "adt":
                adt = self.facts.adts.get(rv[1][1]) if self.facts else None
                if adt and adt["adt_kind"] == "enum":
                    for v in adt["variants"]:
                        if v["idx"] == rv[1][3]:
                            st = dict(st)
                            st[("disc", p)] = ("in", frozenset([int(v["discr"])]))
                            self.disc_ty.setdefault(p, rv[1][1])
        elif s[0] == "D":
            st = self.kill_path(st, self.canon.path(s[1]))
        return st

    def out_state(self, bb):
        """state after the statements of bb (before its terminator)"""
        st = self.state_in.get(bb)
        if st is None:
            return None
        for s in self.b.stmts(bb):
            st = self.transfer_stmt(st, s)
        return st

    def state_before_stmt(self, bb, idx):
        st = self.state_in.get(bb)
        if st is None:
            return None
        for s in self.b.stmts(bb)[:idx]:
            st = self.transfer_stmt(st, s)
        return st

    def edge_states(self, bb, st):
        """yield (succ, state) for feasible normal-flow edges"""
        t = self.b.term(bb)
        k = t[0]
        if k == "switch":
            e = self.expr_of_operand(t[1])
            ty = self.b.ty(t[4])
            vals = [signed_value(int(v), ty) for v, _ in t[2]]
            for v, tg in t[2]:
                ns = self.restrict(st, e, ("in", frozenset([signed_value(int(v), ty)])))
                if ns is not None:
                    yield tg, ns
            if ty == "bool":
                rest = ("in", frozenset({0, 1} - set(vals)))
            else:
                rest = ("notin", frozenset(vals))
            ns = self.restrict(st, e, rest)
            if ns is not None:
                yield t[3], ns
        elif k == "call":
            if t[4] is not None:
                ns = self.kill_call(st, bb)
                dest = t[3]
                ns = self.kill_path(ns, self.canon.path(dest) if dest[1] else (dest[0], ()))
                if t[1].get("def") == "core::ops::try_trait::FromResidual::from_residual":
                    # the early return of `?`: always the None / Err variant of the function's return type
                    dty = self.b.local_ty(dest[0]) if not dest[1] else ""
                    v = 0 if dty.startswith("core::option::Option<") else 1 if dty.startswith("core::result::Result<") else None
                    if v is not None:
                        ns = dict(ns)
                        ns[("disc", (dest[0], ()))] = ("in", frozenset([v]))
                yield t[4], ns
        elif k == "yield":
            ns = self.kill_path(st, (t[3][0], ()))
            yield t[2], ns
        elif k == "assert":
            e = self.expr_of_operand(t[1])
            ns = self.restrict(st, e, ("in", frozenset([1 if t[2] else 0])))
            if ns is not None:
                yield t[5], ns
        else:
            for s in self.b.succ[bb]:
                yield s, st

    def run(self):
        self.state_in = {0: {}}
        wl = deque([0])
        inq = {0}
        iters = 0
        while wl:
            bb = wl.popleft()
            inq.discard(bb)
            iters += 1
            if iters > 200000:
                raise RuntimeError("dataflow did not converge in " + self.b.path)
            st = self.out_state(bb)
            for s, ns in self.edge_states(bb, st):
                old = self.state_in.get(s)
                if old is None:
                    new = ns
                else:
                    new = {}
                    for key, v in old.items():
                        if key in ns:
                            j = vs_join(v, ns[key])
                            if j != TOP:
                                new[key] = j
                    if new == old:
                        continue
                self.state_in[s] = new
                if s not in inq:
                    inq.add(s)
                    wl.append(s)

    # ---- queries -------------------------------------------------------------------------
    def feasible(self, bb):
        return bb in self.state_in

    def values(self, bb, expr, at_end=True):
        st = self.out_state(bb) if at_end else self.state_in.get(bb)
        if st is None:
            return None
        return st.get(expr, TOP)

    def find_keys(self, st, kind, pred):
        return [k for k in st if k[0] == kind and pred(k)]

    def variant_names(self, path, vs, adt_path=None):
        """map a value set on ("disc", path) to variant names (needs facts)."""
        adt_path = adt_path or adt_of_type(self.disc_ty.get(path, ""))
        adt = self.facts.adts.get(adt_path) if self.facts else None
        if adt is None:
            return None
        allv = {int(v["discr"]): v["name"] for v in adt["variants"]}
        if vs[0] == "in":
            return {allv.get(x, "?%d" % x) for x in vs[1]}
        return {n for d, n in allv.items() if d not in vs[1]}

    def fmt_expr(self, e):
        k = e[0]
        if k in ("disc", "val"):
            if e[1][0] == -1:
                return "const " + e[1][1][0]
            s = self.canon.fmt(e[1])
            return "discr(%s)" % s if k == "disc" else s
        if k == "call":
            t = self.b.term(e[1])
            c = t[1]
            return "%s(..)@bb%d" % ((c.get("res") or c.get("def") or "indirect").split("::")[-1], e[1])
        if k == "bin":
            return "%s(%s, %s)" % (e[1], self.fmt_expr(e[2]), self.fmt_expr(e[3]))
        if k == "not":
            return "!" + self.fmt_expr(e[1])
        if k == "const":
            return str(e[1])
        return str(e)

    def fmt_state(self, st):
        out = []
        for k, v in sorted(st.items(), key=lambda kv: str(kv[0])):
            s = self.fmt_expr(k)
            vals = v[1]
            if k[0] == "disc":
                names = self.variant_names(k[1], v)
                if names is not None:
                    out.append("%s in {%s}" % (s, ",".join(sorted(names))))
                    continue
            out.append("%s %s {%s}" % (s, "in" if v[0] == "in" else "not in", ",".join(str(x) for x in sorted(vals))))
        return "; ".join(out)


class DisjFlow(Dataflow):
    """Disjunctive (trace-partitioned) variant: every block keeps a SET of abstract states instead of their join, so the
    correlation between a guard and a boolean temporary that was assigned on two branches is not lost
    (`let gate = match x { Some(k) => a != k, None => false }; if gate {..}` is analysed like the `if let .. &&` form).
    Assignments of an unknown boolean to a multiply-assigned local split the state on that boolean. Sets larger than CAP
    collapse to their join (sound, less precise). `edge_sets[(u, v)]` holds the states flowing along each CFG edge."""
    CAP = 48

    def __init__(self, body, facts=None, removed_nodes=(), removed_edges=()):
        self.removed_nodes = set(removed_nodes)
        self.removed_edges = set(removed_edges)
        self.states = {}
        self.edge_sets = {}
        self.collapsed = set()
        super().__init__(body, facts)

    @staticmethod
    def _join_all(states):
        it = iter(states)
        acc = dict(next(it))
        for fs in it:
            d = dict(fs)
            new = {}
            for k, v in acc.items():
                if k in d:
                    j = vs_join(v, d[k])
                    if j != TOP:
                        new[k] = j
            acc = new
        return acc

    def _collapse(self, states, block=None):
        """too many states: join them, but only within groups that agree on the boolean temporaries (multiply-assigned bool
        locals) - those carry the outcome of a guard to a later branch, and joining across them is what loses it"""
        groups = {}
        for fs in states:
            sig = frozenset((k, v) for k, v in fs if k[0] == "val" and not k[1][1] and self._is_bool_temp(k[1][0]))
            groups.setdefault(sig, []).append(fs)
        cnt = self.__dict__.setdefault("_collapse_count", {})
        cnt[block] = cnt.get(block, 0) + 1
        if len(groups) > 8 or (block is not None and cnt[block] > 12):
            return {frozenset(self._join_all(states).items())}
        # within a group, keep apart what the decided outcomes of (non-logging) predicate calls keep apart, as long as that stays small
        fine = {}
        for sig, g in groups.items():
            for fs in g:
                sig2 = (sig, frozenset((k, v) for k, v in fs if k[0] == "call" and v[0] == "in" and len(v[1]) == 1))
                fine.setdefault(sig2, []).append(fs)
        if len(fine) <= 16:
            groups = fine
        return {frozenset(self._join_all(g).items()) for g in groups.values()}

    def _is_bool_temp(self, l):
        c = self.__dict__.setdefault("_bool_temp_cache", {})
        if l not in c:
            c[l] = self.b.local_ty(l) == "bool" and self._is_multi_def(l)
        return c[l]

    def _is_multi_def(self, l):
        return (l > self.b.argc or l == 0) and self.b.single_def(l) is None and len(self.b.defs.get(l, ())) > 1

    _FOLD = {"BitOr": lambda a, b: a | b, "BitAnd": lambda a, b: a & b, "BitXor": lambda a, b: a ^ b,
             "Add": lambda a, b: a + b, "AddUnchecked": lambda a, b: a + b, "Sub": lambda a, b: a - b, "Mul": lambda a, b: a * b}

    def eval_in(self, st, e, depth=0):
        """constant value of expression e in abstract state st, or None (folds | & ^ + - * over known singletons)"""
        if e is None or depth > 12:
            return None
        if e[0] == "const":
            return e[1]
        v = st.get(e)
        if v is not None and v[0] == "in" and len(v[1]) == 1:
            return next(iter(v[1]))
        if e[0] == "bin" and e[1] in self._FOLD:
            a, b = self.eval_in(st, e[2], depth + 1), self.eval_in(st, e[3], depth + 1)
            if a is not None and b is not None:
                return self._FOLD[e[1]](a, b)
        if e[0] == "not" and len(e) == 2:
            a = self.eval_in(st, e[1], depth + 1)
            if a in (0, 1):
                return 1 - a
        return None

    def states_before_stmt(self, bb, idx):
        """disjunctive states just before statement idx of block bb"""
        out = []
        for fs in self.states.get(bb, ()):
            sts = [dict(fs)]
            for s in self.b.stmts(bb)[:idx]:
                sts = [n for st in sts for n in self.split_stmt(st, s)]
            out += sts
        return out

    def split_stmt(self, st, s):
        base = self.transfer_stmt(st, s)
        if s[0] == "A" and not s[1][1] and self._is_multi_def(s[1][0]) and s[2][0] == "bin":
            # `flags = flags | C`: the new value is computed from the state BEFORE the assignment
            e0 = self.expr_of_rvalue(s[2])
            v0 = self.eval_in(st, e0) if e0 is not None else None
            if v0 is not None:
                ns = dict(base)
                ns[("val", (s[1][0], ()))] = ("in", frozenset([v0]))
                return [ns]
        if s[0] == "A" and not s[1][1] and self._is_multi_def(s[1][0]):
            l, rv = s[1][0], s[2]
            key = ("val", (l, ()))
            e = self.expr_of_rvalue(rv)
            if e is not None and key not in expr_paths_keys(e):
                if e[0] == "const":
                    ns = dict(base)
                    ns[key] = ("in", frozenset([e[1]]))
                    return [ns]
                cur = base.get(e)
                if cur is not None and cur[0] == "in" and len(cur[1]) == 1:
                    ns = dict(base)
                    ns[key] = cur
                    return [ns]
                if self.b.local_ty(l) == "bool":
                    out = []
                    for v in (0, 1):
                        ns = self.restrict(base, e, ("in", frozenset([v])))
                        if ns is not None:
                            ns = dict(ns)
                            ns[key] = ("in", frozenset([v]))
                            out.append(ns)
                    if out:
                        return out
                if cur is not None:
                    ns = dict(base)
                    ns[key] = cur
                    return [ns]
        return [base]

    def edge_states(self, bb, st):
        t = self.b.term(bb)
        if t[0] == "call" and t[4] is not None and not t[3][1] and self._is_multi_def(t[3][0]) and self.b.local_ty(t[3][0]) == "bool":
            # the call writes a multiply-assigned boolean: remember that it equals this call's result
            key = ("val", (t[3][0], ()))
            for succ, ns in super().edge_states(bb, st):
                for v in (0, 1):
                    n2 = dict(ns)
                    n2[key] = ("in", frozenset([v]))
                    n2[("call", bb)] = ("in", frozenset([v]))
                    yield succ, n2
            return
        yield from super().edge_states(bb, st)

    def run(self):
        b = self.b
        empty = frozenset()
        self.states = {0: {empty}}
        pending = {0: {empty}}          # states of a block that have not been pushed through it yet (delta propagation)
        wl = deque([0])
        inq = {0}
        iters = 0
        while wl:
            bb = wl.popleft()
            inq.discard(bb)
            iters += 1
            if iters > 100000:
                raise RuntimeError("disjunctive dataflow did not converge in " + b.path)
            todo = pending.pop(bb, ())
            outs = {}
            stmts = b.stmts(bb)
            for fs in todo:
                sts = [dict(fs)]
                for s in stmts:
                    sts = [n for st in sts for n in self.split_stmt(st, s)]
                for st in sts:
                    for succ, ns in self.edge_states(bb, st):
                        if succ in self.removed_nodes or (bb, succ) in self.removed_edges:
                            continue
                        outs.setdefault(succ, set()).add(frozenset(ns.items()))
            for succ, new in outs.items():
                self.edge_sets.setdefault((bb, succ), set()).update(new)
                old = self.states.get(succ, set())
                fresh = new - old
                if not fresh:
                    continue
                merged = old | fresh
                if succ in self.collapsed or len(merged) > self.CAP:
                    self.collapsed.add(succ)
                    joined = self._collapse(merged, succ)
                    if joined == old:
                        continue
                    self.states[succ] = joined
                    pending[succ] = joined - old
                else:
                    self.states[succ] = merged
                    pending.setdefault(succ, set()).update(fresh)
                if succ not in inq:
                    inq.add(succ)
                    wl.append(succ)
        self.state_in = {bb: self._join_all(s) for bb, s in self.states.items()}

    def feasible_reach(self, start, states=None, removed_nodes=(), removed_edges=(), with_states=False, drop_state=None):
        """blocks reachable from block `start` when execution enters it in one of `states` (default: every state the global
        analysis saw there), following only edges the abstract state does not contradict. A subset of the syntactic
        reachability: `let done = matches!(x, Last); if done { return }` does not 'reach' the loop head on the Last edge."""
        b = self.b
        removed_nodes = set(removed_nodes)
        removed_edges = set(removed_edges)
        if start in removed_nodes:
            return set()
        if states is None:
            init = set(self.states.get(start, ()))
        else:
            init = {frozenset(st.items()) if isinstance(st, dict) else st for st in states}
        if not init:
            return set()
        table = {start: init}
        collapsed = set()
        wl = deque([start])
        inq = {start}
        iters = 0
        while wl:
            bb = wl.popleft()
            inq.discard(bb)
            iters += 1
            if iters > 50000:
                return set(b.reachable_from(start, removed_nodes, removed_edges))   # give up: syntactic answer (sound)
            outs = {}
            for fs in table[bb]:
                sts = [dict(fs)]
                for s in b.stmts(bb):
                    sts = [n for st in sts for n in self.split_stmt(st, s)]
                for st in sts:
                    for succ, ns in self.edge_states(bb, st):
                        if succ in removed_nodes or (bb, succ) in removed_edges:
                            continue
                        if drop_state is not None and drop_state(ns):
                            continue     # executions in which the guarding condition came out true are not followed
                        outs.setdefault(succ, set()).add(frozenset(ns.items()))
            for succ, new in outs.items():
                old = table.get(succ, set())
                if new <= old:
                    continue
                merged = old | new
                if succ in collapsed or len(merged) > self.CAP:
                    collapsed.add(succ)
                    merged = self._collapse(merged, ('fr', succ))
                    if merged == old:
                        continue
                table[succ] = merged
                if succ not in inq:
                    inq.add(succ)
                    wl.append(succ)
        if with_states:
            return {bb: [dict(fs) for fs in sts] for bb, sts in table.items()}
        return set(table.keys())

    def feasible_reach_edge(self, u, v, removed_nodes=(), removed_edges=()):
        """blocks feasibly reachable after taking the CFG edge u -> v"""
        return self.feasible_reach(v, self.edge_sets.get((u, v), set()), removed_nodes, removed_edges)

    def states_at(self, bb):
        return [dict(fs) for fs in self.states.get(bb, ())]

    def states_on_edge(self, u, v):
        return [dict(fs) for fs in self.edge_sets.get((u, v), ())]


def expr_paths_keys(e):
    """the ("val", path) keys an expression reads (to refuse `x = f(x)` self-references)"""
    out = set()
    for p in expr_paths(e):
        out.add(("val", p))
    return out
