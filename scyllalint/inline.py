"""MIR inliner over the fact records: splices the bodies of NEW same-crate helper functions into their callers, so that a
rule written against one function keeps seeing the same operations after a maintainer extracts a few lines into a private
helper. "New" = not in the frozen list of functions of the reference tree (known_fns.json): calls to functions that existed
when the rules were written stay calls (the rules reason about them by name), so the view of the reference tree is unchanged.

The result is a synthetic Body (same path, same crate tables) whose blocks are the caller's blocks followed by renumbered
copies of the callees' blocks:
  call site     `dest = f(a1..an) -> T`   becomes   `p1' = a1; ..; pn' = an; goto entry'`
  callee return `return`                  becomes   `dest = move _0'; goto T`
Unwind edges of the callee are kept (renumbered); a callee with a tail call, a yield or inline asm is not inlined.
"""
import os
import re

from .mir import Body

_KNOWN = None
INLINED_LOG = set()   # (caller path, helper path) pairs spliced during this run - reported in the evidence


def known_functions():
    """functions that exist on the reference tree (frozen by tools/gen_known_fns.py). Rules were written against these and
    reason about calls to them by name; any OTHER function is a helper introduced later and is analysed inside its callers."""
    global _KNOWN
    if _KNOWN is None:
        import json
        with open(os.path.join(os.path.dirname(__file__), "known_fns.json")) as fh:
            _KNOWN = set(json.load(fh))
    return _KNOWN


def is_new_function(path):
    return path not in known_functions()


class _Ren:
    def __init__(self, loff, boff):
        self.loff = loff
        self.boff = boff

    def place(self, p):
        return [p[0] + self.loff, [(["i", e[1] + self.loff] if isinstance(e, list) and e and e[0] == "i" else e) for e in p[1]]]

    def op(self, o):
        if o and o[0] in ("c", "m"):
            return [o[0], self.place(o[1])]
        return o

    def rv(self, rv):
        k = rv[0]
        if k == "use":
            return ["use", self.op(rv[1])]
        if k == "rep":
            return ["rep", self.op(rv[1]), rv[2]]
        if k == "ref":
            return ["ref", rv[1], self.place(rv[2])]
        if k == "addr":
            return ["addr", self.place(rv[1])]
        if k == "cast":
            return ["cast", rv[1], self.op(rv[2]), rv[3], rv[4]]
        if k == "bin":
            return ["bin", rv[1], self.op(rv[2]), self.op(rv[3]), rv[4]]
        if k == "un":
            return ["un", rv[1], self.op(rv[2])]
        if k == "disc":
            return ["disc", self.place(rv[1]), rv[2]]
        if k == "agg":
            return ["agg", rv[1], [self.op(o) for o in rv[2]]]
        if k == "cfd":
            return ["cfd", self.place(rv[1])]
        return rv

    def stmt(self, s):
        if s[0] == "A":
            return ["A", self.place(s[1]), self.rv(s[2]), s[3]]
        if s[0] == "D":
            return ["D", self.place(s[1]), s[2], s[3]]
        return s

    def bb(self, x):
        return None if x is None else x + self.boff

    def term(self, t):
        k = t[0]
        if k == "goto":
            return ["goto", self.bb(t[1])]
        if k == "switch":
            return ["switch", self.op(t[1]), [[v, self.bb(tg)] for v, tg in t[2]], self.bb(t[3]), t[4], t[5]]
        if k == "drop":
            return ["drop", self.place(t[1]), self.bb(t[2]), self.bb(t[3]), t[4]]
        if k == "call":
            return ["call", t[1], [self.op(a) for a in t[2]], self.place(t[3]), self.bb(t[4]), self.bb(t[5]), t[6]]
        if k == "assert":
            return ["assert", self.op(t[1]), t[2], t[3], [self.op(a) for a in t[4]], self.bb(t[5]), self.bb(t[6]), t[7]]
        if k == "falseedge":
            return ["falseedge", self.bb(t[1]), self.bb(t[2])]
        if k == "falseunwind":
            return ["falseunwind", self.bb(t[1])]
        return t   # resume / abort / unreachable / ret (handled by the caller)


def _inlinable(cal):
    if cal is None or cal.is_coroutine:
        return False
    for blk in cal.blocks:
        if blk["t"][0] in ("tailcall", "yield", "asm", "codrop"):
            return False
    return True


def inline(facts, body, depth=2, max_blocks=120, keep=None, stack=()):
    """synthetic Body with unnamed same-crate helpers spliced in (see module docstring)."""
    keep = known_functions() if keep is None else keep
    locals_ = [list(x) for x in body.locals]
    blocks = [{"s": list(b["s"]), "t": b["t"], **({"c": 1} if b.get("c") else {})} for b in body.blocks]
    origin = {}
    changed = False
    n0 = len(blocks)
    for i in range(n0):
        t = blocks[i]["t"]
        if t[0] != "call" or t[4] is None or blocks[i].get("c"):
            continue
        c = t[1]
        tgt = c.get("res") or c.get("def")
        if not tgt or tgt == body.path or tgt in stack:
            continue
        if c.get("rk") == "virtual":
            continue
        if tgt not in facts.bodies:
            continue
        if tgt in keep or "{closure" in tgt.split("::")[-1]:
            continue   # functions of the reference tree stay calls; closure calls pass their arguments as one tuple
        cal = facts.body(tgt)
        if cal.crate != body.crate or not _inlinable(cal) or len(cal.blocks) > max_blocks:
            continue
        if cal.argc != len(t[2]):
            continue   # closure-style calls pass a tuple
        if depth > 1:
            cal = inline(facts, cal, depth - 1, max_blocks, keep, stack + (body.path,))
        loff, boff = len(locals_), len(blocks)
        ren = _Ren(loff, boff)
        locals_ += [list(x) for x in cal.locals]
        span = t[6]
        # parameters
        for k, a in enumerate(t[2]):
            blocks[i]["s"].append(["A", [loff + 1 + k, []], ["use", a], span])
        blocks[i]["t"] = ["goto", boff]
        dest, target = t[3], t[4]
        for j, cb in enumerate(cal.blocks):
            nb = {"s": [ren.stmt(s) for s in cb["s"]]}
            ct = cb["t"]
            if ct[0] == "ret":
                nb["s"].append(["A", dest, ["use", ["m", [loff, []]]], ct[1]])
                nb["t"] = ["goto", target]
            else:
                nb["t"] = ren.term(ct)
            if cb.get("c"):
                nb["c"] = 1
            blocks.append(nb)
            origin[boff + j] = getattr(cal, "inlined_origin", {}).get(j, (tgt, j))
        changed = True
        INLINED_LOG.add((body.path, tgt))
    if not changed:
        return body
    raw = dict(body.raw)
    raw["locals"] = locals_
    raw["blocks"] = blocks
    nb = Body(raw, body.types, body.files, body.crate)
    nb.inlined_origin = origin
    nb.inlined = True
    return nb


def inl(facts, body, **kw):
    """cached inlined view of a body"""
    cache = facts.__dict__.setdefault("_inline_cache", {})
    key = (body.path, tuple(sorted(kw.items())))
    if key not in cache:
        cache[key] = inline(facts, body, **kw)
    return cache[key]


class _IBodies:
    """LazyBodies view whose bodies have unnamed helpers inlined; unnamed helpers themselves are hidden from whole-program
    scans (`mentioning`) because their statements are seen inside their callers."""

    def __init__(self, ifacts):
        self.f = ifacts.f
        self.i = ifacts

    def get(self, path, default=None):
        b = self.f.bodies.get(path)
        return default if b is None else inl(self.f, b)

    def __getitem__(self, path):
        return inl(self.f, self.f.bodies[path])

    def __contains__(self, path):
        return path in self.f.bodies

    def __len__(self):
        return len(self.f.bodies)

    def keys(self):
        return self.f.bodies.keys()

    @property
    def raw(self):
        return self.f.bodies.raw

    def values(self):
        return [self.get(p) for p in self.keys()]

    def items(self):
        return [(p, self.get(p)) for p in self.keys()]

    def mentioning(self, *needles):
        base = self.f.bodies.mentioning(*needles)
        seen = {b.path for b in base}
        out = []
        work = list(base)
        level = 0
        while work and level < 3:
            nxt = []
            for b in work:
                if self.i.is_hidden_helper(b):
                    for cb, _ in self.f.callers_of(b.path):
                        if cb.path not in seen and cb.crate == b.crate:
                            seen.add(cb.path)
                            nxt.append(cb)
                else:
                    out.append(b)
            work = nxt
            level += 1
        out += [b for b in work if not self.i.is_hidden_helper(b)]
        return [inl(self.f, b) for b in out]


class IFacts:
    """proxy over Facts: one/find/body/bodies return the inlined views"""

    def __init__(self, facts):
        self.f = facts
        self.bodies = _IBodies(self)
        self._hidden = {}

    def __getattr__(self, name):
        return getattr(self.f, name)

    def is_hidden_helper(self, b):
        """an unnamed, inlinable function with at least one same-crate direct caller: its code is analysed inside its callers"""
        if b.path in self._hidden:
            return self._hidden[b.path]
        res = False
        last = b.path.split("::")[-1]
        if "{closure" not in last and "::promoted[" not in b.path and is_new_function(b.path) and _inlinable(b) and len(b.blocks) <= 120:
            res = any(cb.crate == b.crate and cb.path != b.path for cb, _ in self.f.callers_of(b.path))
        self._hidden[b.path] = res
        return res

    def body(self, path):
        b = self.f.body(path)
        return None if b is None else inl(self.f, b)

    def find(self, pattern, include_promoted=False):
        return [inl(self.f, b) for b in self.f.find(pattern, include_promoted)]

    def one(self, pattern):
        return inl(self.f, self.f.one(pattern))

    def callers_of(self, path, _depth=0):
        """call sites of `path`, with sites inside hidden helpers re-attributed to the helpers' callers (inlined views)"""
        out = []
        for b, bb in self.f.callers_of(path):
            if self.is_hidden_helper(b) and _depth < 3:
                for cb, _ in self.callers_of(b.path, _depth + 1):
                    org = getattr(cb, "inlined_origin", {})
                    for nbb, (op, obb) in org.items():
                        if op == b.path and obb == bb:
                            out.append((cb, nbb))
            else:
                ib = inl(self.f, b)
                out.append((ib, bb))
        seen, res = set(), []
        for b, bb in out:
            if (b.path, bb) not in seen:
                seen.add((b.path, bb))
                res.append((b, bb))
        return res


def inline_view(facts):
    v = facts.__dict__.get("_inline_view")
    if v is None:
        v = IFacts(facts)
        facts.__dict__["_inline_view"] = v
    return v
