"""helpers shared by rule modules"""
from .dataflow import Dataflow, Canon
from .mir import AnchorLost

_df_cache = {}


def df_of(body, facts):
    k = (id(facts), body.path, id(body) if getattr(body, "inlined", False) else 0)
    if k not in _df_cache:
        # the disjunctive engine; its `state_in` is the join over the per-path states, which is at least as precise as the
        # plain join-at-merge fixpoint and keeps guard/boolean correlations that the latter loses
        _df_cache[k] = dj_of(body, facts)
    return _df_cache[k]


_dj_cache = {}


def dj_of(body, facts):
    """cached disjunctive dataflow of a body"""
    from .dataflow import DisjFlow
    k = (id(facts), body.path, id(body) if getattr(body, "inlined", False) else 0)
    if k not in _dj_cache:
        _dj_cache[k] = DisjFlow(body, facts)
    return _dj_cache[k]


_LT = None


def _strip_paths(t):
    """`a::b::C<d::E>` -> `C<E>` (module prefixes removed everywhere)"""
    import re
    return re.sub(r"(?:[A-Za-z_][A-Za-z0-9_]*::)+(?=[A-Za-z_<\[(&])", "", t)


def fn_short(path):
    """stable, readable, line-free key of a function path: `Type::method[Trait]`, `module::function`, closures as {closure}"""
    import re
    s = re.sub(r"'[A-Za-z_][A-Za-z0-9_]*(?:, )?", "", path).replace("<>", "").replace("::<>", "")
    ncl = s.count("::{closure")
    s = re.sub(r"::\{closure#\d+\}", "", s)
    tail = "{closure}" * ncl
    m = re.match(r"^<(.+) as ([^>]+(?:<.*>)?)>::(\w+)(.*)$", s)
    if m:
        ty, tr, meth, rest = m.groups()
        return "%s::%s[%s]%s%s" % (_strip_paths(ty), meth, _strip_paths(tr).split("<")[0], _strip_paths(rest), tail)
    # inherent / free
    segs = []
    depth = 0
    cur = ""
    for ch in s:
        if ch == "<":
            depth += 1
        elif ch == ">":
            depth -= 1
        if ch == ":" and depth == 0:
            if cur:
                segs.append(cur)
            cur = ""
        else:
            cur += ch
    if cur:
        segs.append(cur)
    segs = [x for x in segs if x and not x.startswith("<")]
    keep = segs[-2:] if len(segs) >= 2 else segs
    return "::".join(_strip_paths(x) for x in keep) + tail


def enum_variant_of_operand(body, op, depth=0):
    """operand -> variant name when it is a unit-like enum value built by an aggregate or a named constant."""
    if op[0] == "k":
        if op[1] == "other":
            txt = op[3]
            return txt.split("::")[-1] if "::" in txt else txt
        return None
    pl = op[1]
    if pl[1] or depth > 6:
        return None
    sd = body.single_def(pl[0])
    if sd and sd[0] == "stmt":
        rv = sd[3]
        if rv[0] == "agg" and rv[1][0] == "adt":
            return rv[1][2]
        if rv[0] == "use":
            return enum_variant_of_operand(body, rv[1], depth + 1)
    return None


def operand_path(df, op):
    """canonical access path of a place operand (None for constants)."""
    if op[0] in ("c", "m"):
        return df.canon.path(op[1])
    return None


def path_last(p):
    return p[1][-1] if p and p[1] else None


def path_has(p, name):
    return bool(p) and name in p[1]


def one_call(body, *names, what=None):
    cs = body.calls_to(*names)
    if len(cs) != 1:
        raise AnchorLost("expected exactly one call to %s in %s, found %d" % (what or names[0], body.path, len(cs)))
    return cs[0]


def yields(body):
    return [bb for bb in body.live_blocks if body.term(bb)[0] == "yield"]


def switch_on(body, df, expr):
    """blocks whose SwitchInt scrutinee is `expr`"""
    out = []
    if expr[0] == "disc" and hasattr(df, "disc_root"):
        expr = ("disc", df.disc_root(expr[1]))
    for bb in body.live_blocks:
        t = body.term(bb)
        if t[0] == "switch" and df.expr_of_operand(t[1]) == expr:
            out.append(bb)
    return out


def switch_edges(body, bb):
    t = body.term(bb)
    return {int(v): tg for v, tg in t[2]}, t[3]


def in_set(vs, allowed):
    """value-set vs is known and within `allowed`"""
    return vs is not None and vs[0] == "in" and len(vs[1]) > 0 and vs[1] <= frozenset(allowed)


def local_types(body, needle):
    return [l for l in range(len(body.locals)) if needle in body.local_ty(l)]


def uses_of_local(body, l):
    """(bb, kind, detail) for every operand use of local l (whole-local, as copy/move) in live blocks"""
    out = []

    def scan_op(op, bb, where):
        if op[0] in ("c", "m") and op[1][0] == l:
            out.append((bb, where, op))

    for bb in body.live_blocks:
        for st in body.stmts(bb):
            if st[0] != "A":
                continue
            rv = st[2]
            k = rv[0]
            if k in ("use", "rep"):
                scan_op(rv[1], bb, ("stmt", st))
            elif k == "cast":
                scan_op(rv[2], bb, ("stmt", st))
            elif k == "bin":
                scan_op(rv[2], bb, ("stmt", st)); scan_op(rv[3], bb, ("stmt", st))
            elif k == "un":
                scan_op(rv[2], bb, ("stmt", st))
            elif k == "agg":
                for o in rv[2]:
                    scan_op(o, bb, ("stmt", st))
            elif k in ("ref", "addr") and rv[-1][0] == l:
                out.append((bb, ("ref", st), None))
            elif k in ("disc", "cfd", "len") and rv[1][0] == l:
                out.append((bb, ("read", st), None))
        t = body.term(bb)
        if t[0] == "call":
            for i, a in enumerate(t[2]):
                if a[0] in ("c", "m") and a[1][0] == l:
                    out.append((bb, ("arg", i), a))
        elif t[0] == "switch":
            scan_op(t[1], bb, ("switch", None))
    return out


RECEIVER_ONLY = ("core::iter::traits::iterator::Iterator::", "core::iter::traits::collect::IntoIterator::", "core::option::Option::<",
                 "core::result::Result::<", "core::slice::<impl [T]>::iter", "core::iter::traits::double_ended::DoubleEndedIterator::")


def backward_slice(body, operand, max_steps=400, data_only=False, pointer_only=False):
    """locals and calls an operand's value may derive from (intraprocedural, through all defs, projections ignored).
    returns (set(locals), [Call...], [cast statements]). With data_only, iterator / Option / Result adapters are followed
    through their receiver only: the elements of `xs.iter().find(|x| x.id == wanted)` come from `xs`, not from `wanted`."""
    seen, calls, casts = set(), [], []
    work = []
    if operand[0] in ("c", "m"):
        work.append(operand[1][0])
    steps = 0
    while work and steps < max_steps:
        steps += 1
        l = work.pop()
        if l in seen:
            continue
        seen.add(l)
        for d in body.defs.get(l, []):
            if d[0] == "call":
                calls.append(d[2])
                args = d[2].args
                if data_only and args and (d[2].callee.get("def") or "").startswith(RECEIVER_ONLY):
                    args = args[:1]
                for a in args:
                    if a[0] in ("c", "m"):
                        work.append(a[1][0])
            elif d[0] in ("stmt", "part", "dpart"):
                if pointer_only and d[0] == "dpart":
                    continue            # where a pointer comes from, not what is stored behind it
                rv = d[3] if d[0] == "stmt" else d[4]
                if rv and rv[0] == "cast":
                    casts.append(rv)
                for x in _rv_locals(rv):
                    work.append(x)
    return seen, calls, casts


def _rv_locals(rv):
    out = []

    def walk(x):
        if isinstance(x, list):
            if len(x) == 2 and isinstance(x[0], int) and isinstance(x[1], list) and not isinstance(x[0], bool):
                out.append(x[0])
                for e in x[1]:
                    if isinstance(e, list) and e and e[0] == "i":
                        out.append(e[1])
                return
            for y in x:
                walk(y)
    walk(rv)
    return out


def field_writers(facts, adt_path, fields):
    """{(function key, field, how)} for every body that assigns, mutably borrows or moves out a field of the ADT, or builds the ADT."""
    from .dataflow import adt_of_type
    out = set()
    needles = ['"%s"' % f for f in fields] + ['"%s"' % adt_path]
    for body in facts.bodies.mentioning(*needles):
        for bb in body.live_blocks:
            for st in body.stmts(bb):
                if st[0] != "A":
                    continue
                if st[1][1]:
                    flds = [e for e in st[1][1] if isinstance(e, list) and e[0] == "f"]
                    if flds and flds[0][2] in fields and adt_of_type(body.local_ty(st[1][0])) == adt_path:
                        out.add((fn_short(body.path), flds[0][2], "assign"))
                rv = st[2]
                if rv[0] == "ref" and rv[1] == "m":
                    flds = [e for e in rv[2][1] if isinstance(e, list) and e[0] == "f"]
                    if flds and flds[0][2] in fields and adt_of_type(body.local_ty(rv[2][0])) == adt_path:
                        out.add((fn_short(body.path), flds[0][2], "&mut"))
                if rv[0] == "use" and rv[1][0] == "m":
                    flds = [e for e in rv[1][1][1] if isinstance(e, list) and e[0] == "f"]
                    if flds and flds[0][2] in fields and adt_of_type(body.local_ty(rv[1][1][0])) == adt_path:
                        out.add((fn_short(body.path), flds[0][2], "move-out"))
                if rv[0] == "agg" and rv[1][0] == "adt" and rv[1][1] == adt_path:
                    out.add((fn_short(body.path), "*", "construct"))
    return out


def callers_keys(facts, callee_path, crate_prefix="scylla"):
    return sorted({fn_short(b.path) for b, bb in facts.callers_of(callee_path) if bb in b.live_blocks and b.crate.startswith(crate_prefix)})


def guard_across_yield(body, type_needle="MutexGuard"):
    """[(local, def_bb, yield_bb)] where a local whose type contains `type_needle` may still be held at a Yield"""
    out = []
    ys = set(yields(body))
    if not ys:
        return out
    for l in range(len(body.locals)):
        ty = body.local_ty(l)
        if type_needle not in ty or ty.startswith("&") or ty.startswith("*"):
            continue
        drops = [bb for bb in body.live_blocks if body.term(bb)[0] == "drop" and body.term(bb)[1][0] == l and not body.term(bb)[1][1]]
        # moved out also ends the hold
        moves = [bb for bb, kind, op in uses_of_local(body, l) if op is not None and op[0] == "m"]
        for d in body.defs.get(l, []):
            if d[0] not in ("call", "stmt"):
                continue
            dbb = d[1]
            reach = body.reachable_after(dbb, removed_nodes=set(drops) | set(moves))
            for y in ys & reach:
                out.append((l, dbb, y))
    return out


def _new_fn_items(body):
    """paths of functions that do not exist on the reference tree and are mentioned as function items (not called directly)"""
    from .inline import is_new_function
    out = []

    def walk(x):
        if isinstance(x, list):
            if len(x) >= 3 and x[0] == "k" and x[1] == "fn" and isinstance(x[2], str):
                if is_new_function(x[2]) and "{closure" not in x[2].split("::")[-1]:
                    out.append(x[2])
                return
            for y in x:
                walk(y)
    for bb in body.live_blocks:
        for st in body.stmts(bb):
            if st[0] == "A":
                walk(st[2])
        t = body.term(bb)
        if t[0] == "call":
            for a in t[2]:
                walk(a)
    return out


def closure_family(facts, b, depth=3):
    """b plus every closure / coroutine body created (transitively) by its statements - found through the aggregate
    statements, so closures of helper functions inlined into b are included and the closure's path prefix does not matter;
    closures that are only *named* under b's path (never built by an aggregate we can see) are added by prefix."""
    out, seen = [b], {b.path}
    work = [b]
    for _ in range(depth):
        nxt = []
        for x in work:
            for bb in x.live_blocks:
                for st in x.stmts(bb):
                    if st[0] == "A" and st[2][0] == "agg" and st[2][1][0] in ("closure", "coroutine", "coroutine_closure"):
                        cp = st[2][1][1]
                        if cp not in seen and cp in facts.bodies:
                            seen.add(cp)
                            cb = facts.body(cp)
                            out.append(cb)
                            nxt.append(cb)
            # a closure turned into a named function and passed as a function item (`.map(helper)`): same role
            for fp in _new_fn_items(x):
                if fp not in seen and fp in facts.bodies:
                    seen.add(fp)
                    cb = facts.body(fp)
                    out.append(cb)
                    nxt.append(cb)
        work = nxt
    for q in facts.bodies.keys():
        if q not in seen and q.startswith(b.path + "::{closure") and "::promoted[" not in q:
            seen.add(q)
            out.append(facts.body(q))
    return out


def norm_cmps(st):
    """comparison facts of an abstract state in canonical form: [(op, a, b, truth)] with op in {"Lt", "Eq"}:
    `a < b` is truth / `a == b` is truth. Gt/Ge/Le/Ne keys and swapped operands are folded in, so a rule does not depend on
    whether the source says `len < 0`, `0 > len` or `!(len >= 0)`. For Eq the operands are ordered (constants last)."""
    out = []
    for k, v in (st or {}).items():
        if k[0] != "bin" or v[0] != "in" or len(v[1]) != 1:
            continue
        t = next(iter(v[1]))
        if t not in (0, 1):
            continue
        op, a, b = k[1], k[2], k[3]
        if op == "Lt":
            out.append(("Lt", a, b, t))
        elif op == "Gt":
            out.append(("Lt", b, a, t))
        elif op == "Ge":
            out.append(("Lt", a, b, 1 - t))
        elif op == "Le":
            out.append(("Lt", b, a, 1 - t))
        elif op in ("Eq", "Ne"):
            if a[0] == "const" and b[0] != "const":
                a, b = b, a
            out.append(("Eq", a, b, t if op == "Eq" else 1 - t))
    return out


def cmp_truth(st, op, a, b):
    """1 / 0 / None: is `a op b` known in state st (op in Lt Le Gt Ge Eq Ne), whatever form the source used"""
    neg = False
    if op == "Gt":
        op, a, b = "Lt", b, a
    elif op == "Ge":
        op, neg = "Lt", True
    elif op == "Le":
        op, a, b, neg = "Lt", b, a, True
    elif op == "Ne":
        op, neg = "Eq", True
    for o, x, y, t in norm_cmps(st):
        if o != op:
            continue
        if (x, y) == (a, b) or (op == "Eq" and (x, y) == (b, a)):
            return (1 - t) if neg else t
    return None


def bool_edges(body, sw):
    """(true_target, false_target) of a SwitchInt on a boolean, whichever value the terminator lists explicitly"""
    edges, other = switch_edges(body, sw)
    if 0 in edges:
        return edges.get(1, other), edges[0]
    if 1 in edges:
        return edges[1], other
    return other, other


def creation_site(facts, child):
    """(parent body, bb, stmt index, aggregate stmt) where the closure / coroutine `child` is built, or None"""
    par = facts.body(child.parent) if child.parent else None
    if par is None:
        return None
    for bb in sorted(par.live_blocks):
        for j, st in enumerate(par.stmts(bb)):
            if st[0] == "A" and st[2][0] == "agg" and st[2][1][0] in ("closure", "coroutine", "coroutine_closure") and st[2][1][1] == child.path:
                return par, bb, j, st
    return None


def captured_context(facts, child, st_child):
    """Abstract states of the PARENT at the point where the closure/coroutine `child` is created, restricted to those that are
    consistent with what `st_child` knows about the captured variables. Lets a rule combine a guard evaluated in the parent
    (`let gate = if self.flag { Some(..) } else { None }`) with the use inside the child (`match gate { Some(..) => .. }`).
    Returns None when the creation site cannot be found."""
    from .dataflow import vs_meet, vs_empty
    site = creation_site(facts, child)
    if site is None:
        return None
    par, pbb, pj, stmt = site
    ops = stmt[2][2]
    dj = dj_of(par, facts)
    # child constraints on upvars: keys rooted at the environment local _1 whose first element is the upvar index
    cons = []
    for k, v in (st_child or {}).items():
        if k[0] in ("disc", "val") and k[1][0] == 1 and k[1][1]:
            first = k[1][1][0]
            if first.isdigit() and int(first) < len(ops) and ops[int(first)][0] in ("c", "m"):
                pp = dj.canon.path(ops[int(first)][1])
                pkey = (k[0], (pp[0], pp[1] + tuple(k[1][1][1:])))
                if k[0] == "disc":
                    pkey = ("disc", dj.disc_root(pkey[1]))
                cons.append((pkey, v))
    out = []
    for fs in dj.states.get(pbb, ()):
        sts = [dict(fs)]
        for s in par.stmts(pbb)[:pj]:
            sts = [n for st in sts for n in dj.split_stmt(st, s)]
        for st in sts:
            ok = True
            for pkey, v in cons:
                cur = st.get(pkey)
                if cur is not None and vs_empty(vs_meet(cur, v)):
                    ok = False
                    break
            if ok:
                out.append(st)
    return out


def truth_edges(body, df, expr):
    """[(switch block, target when `expr` is true, target when false)] for every SwitchInt that branches on the boolean `expr`
    or on its negation (`let alive = !flag.load(..); if alive {..}`), polarity already folded in"""
    out = []
    for bb in body.live_blocks:
        t = body.term(bb)
        if t[0] != "switch":
            continue
        e = df.expr_of_operand(t[1])
        flip = False
        while e[0] == "not":
            e, flip = e[1], not flip
        if e != expr:
            continue
        tt, ff = bool_edges(body, bb)
        out.append((bb, ff, tt) if flip else (bb, tt, ff))
    return out


def must_pass(body, facts, through, target, start=0):
    """every FEASIBLE path from `start` to block `target` passes through one of the blocks `through` (path-sensitive version of
    'through dominates target': a merge point after an early `None` return does not break it, because the abstract state on
    the bypassing path contradicts the later `Some` edge)"""
    through = [t for t in through]
    if target in through:
        return True
    return target not in dj_of(body, facts).feasible_reach(start, removed_nodes=through)


def upvar_names(facts, child, _depth=0):
    """{upvar index: last field name of what the closure/coroutine `child` captured at that index} (through `&` / `&mut`)"""
    site = creation_site(facts, child)
    if site is None:
        return {}
    par, pbb, pj, stmt = site
    d = dj_of(par, facts)
    out = {}
    parent_names = None
    for i, op in enumerate(stmt[2][2]):
        if op[0] in ("c", "m"):
            pth = d.canon.path(op[1])
            if pth[1]:
                nm = pth[1][-1]
                # re-captured from the creator's own environment (`_1.k`): resolve one level further out
                if pth[0] == 1 and len(pth[1]) == 1 and nm.isdigit() and par.kind == "Closure" and _depth < 4:
                    if parent_names is None:
                        parent_names = upvar_names(facts, par, _depth + 1)
                    nm = parent_names.get(int(nm), nm)
                out[i] = nm
            else:
                out[i] = par.local_name(pth[0]) or ""
    return out


def new_async_helpers(facts, b):
    """[(future body of a NEW async fn awaited in b, operands it was created with)] - an `async fn` split out of b is not spliced by
    the inliner (its body is a coroutine of its own), so rules about a loop that may move there look here as well"""
    from .inline import is_new_function
    out = []
    for bb0, c0 in b.calls():
        res = c0.callee.get("res") or ""
        if bb0 in b.live_blocks and res.endswith("::{closure#0}") and is_new_function(res[:-len("::{closure#0}")]) and facts.body(res) is not None:
            ops = [st[2][2] for bbx in b.live_blocks for st in b.stmts(bbx)
                   if st[0] == "A" and st[2][0] == "agg" and st[2][1][0] == "coroutine" and st[2][1][1] == res]
            out.append((facts.body(res), ops[0] if ops else list(c0.args)))
    return out


def zero_count_targets(b, call):
    """[(switch block, successor taken when the count is 0)] for every branch that separates a zero count from every positive one,
    where the tested value derives from `call`'s result (a counting read): `n == 0`, `n != 0`, `n > 0`, `n < 1`, `n <= 0`, `n >= 1`,
    operands in either order, or a `match n { 0 => .. }`"""
    out = []
    for sw in sorted(b.live_blocks):
        t = b.term(sw)
        if t[0] != "switch" or t[1][0] not in ("c", "m"):
            continue
        locs, _calls, _ = backward_slice(b, t[1])
        if call.dest[0] not in locs:
            continue
        sd = b.single_def(t[1][1][0])
        if sd and sd[0] == "stmt" and sd[3][0] == "bin" and sd[3][1] in ("Eq", "Ne", "Gt", "Lt", "Le", "Ge"):
            ops = sd[3][2:4]
            ks = [o for o in ops if o[0] == "k" and o[1] == "int"]
            if len(ks) != 1:
                continue
            kv, const_left = int(ks[0][3]), ops[0][0] == "k"
            tt, ff = bool_edges(b, sw)
            op = sd[3][1]
            if const_left:
                op = {"Gt": "Lt", "Lt": "Gt", "Le": "Ge", "Ge": "Le"}.get(op, op)
            holds = {"Eq": 0 == kv, "Ne": 0 != kv, "Gt": 0 > kv, "Lt": 0 < kv, "Le": 0 <= kv, "Ge": 0 >= kv}[op]
            if (op, kv) in (("Eq", 0), ("Ne", 0), ("Gt", 0), ("Lt", 1), ("Le", 0), ("Ge", 1)):
                out.append((sw, tt if holds else ff))
        else:
            vals, other = switch_edges(b, sw)
            if 0 in vals and b.local_ty(t[1][1][0]) in ("usize", "u64", "u32"):
                out.append((sw, vals[0]))
    return out


def decided_edges(b, dj, key, value):
    """CFG edges (u, v) leaving a branch on which the abstract fact `key == value` (e.g. ("call", bb) == 1: that call returned
    true) becomes known: every disjunctive state on the edge has it, and not every state at the end of u had it already.
    Independent of how the outcome travelled to the branch (directly, negated, through a boolean local assigned on several paths)."""
    out = []
    for u in sorted(b.live_blocks):
        if b.term(u)[0] != "switch":
            continue
        before = dj.states_before_stmt(u, len(b.stmts(u)))
        if before and all(in_set(st.get(key), {value}) for st in before):
            continue
        for v in b.succ[u]:
            sts = dj.states_on_edge(u, v)
            if sts and all(in_set(st.get(key), {value}) for st in sts):
                out.append((u, v))
    return out


def field_slice(body, operand, max_steps=600, receiver_only=(), stop_at=()):
    """Field-sensitive backward slice: like backward_slice, but a read of field i of a tuple / struct local that was built by
    an aggregate follows only operand i (so `let (a, b) = (x.start(), x.end())` keeps a and b apart), and a tuple rebuilt in
    the arms of a match (`(Some(a), Some(b)) => (a, b)`) is followed component by component. Downcasts and dereferences do
    not select anything. For calls whose last path segment is in `receiver_only` only the first argument is followed.
    -> (set of (local, field-path), [Call], [binary-op rvalues])"""
    seen, calls, bins = set(), [], []
    work = []

    def fields_of(proj):
        return tuple(e[1] for e in proj if isinstance(e, list) and e[0] == "f")

    def push_place(pl, want=()):
        work.append((pl[0], fields_of(pl[1]) + tuple(want)))
        for e in pl[1]:
            if isinstance(e, list) and e and e[0] == "i":
                work.append((e[1], ()))

    def push_rv(rv, want):
        k = rv[0]
        if k == "agg" and want and rv[1][0] in ("tuple", "adt", "closure", "array"):
            i = want[0]
            if i < len(rv[2]):
                op = rv[2][i]
                if op[0] in ("c", "m"):
                    push_place(op[1], want[1:])
                return
        if k == "bin":
            bins.append(rv)
        for x in _rv_places(rv):
            push_place(x, want if k in ("use", "ref", "addr", "cfd", "cast") else ())

    if operand[0] in ("c", "m"):
        push_place(operand[1])
    steps = 0
    while work and steps < max_steps:
        steps += 1
        l, want = work.pop()
        if (l, want) in seen:
            continue
        seen.add((l, want))
        for d in body.defs.get(l, []):
            if d[0] == "call":
                calls.append(d[2])
                args = d[2].args
                nm = (d[2].decl or d[2].name or "").split("::")[-1]
                if nm in receiver_only:
                    args = args[:1]
                if nm in stop_at:
                    args = []            # the value is this call's result; where its inputs come from is not asked
                for a in args:
                    if a[0] in ("c", "m"):
                        push_place(a[1])
            elif d[0] == "stmt":
                push_rv(d[3], want)
            elif d[0] in ("part", "dpart"):
                pf = fields_of(d[3][1])
                rv = d[4]
                n = min(len(pf), len(want))
                if pf[:n] != want[:n]:
                    continue                      # a write to a different component
                if rv and rv[0] != "call" and rv[0] != "setdisc":
                    push_rv(rv, want[len(pf):] if len(want) > len(pf) else ())
    return seen, calls, bins


def _rv_places(rv):
    out = []

    def walk(x):
        if isinstance(x, list):
            if len(x) == 2 and isinstance(x[0], int) and not isinstance(x[0], bool) and isinstance(x[1], list):
                out.append(x)
                return
            for y in x:
                walk(y)
    walk(rv)
    return out


def variant_edges(b, dj, type_needle, variant):
    """CFG edges (u, v) on which some place whose enum type contains `type_needle` becomes known to hold exactly `variant`
    (every disjunctive state on the edge says so, and not every state before the branch did)"""
    def is_v(st, k):
        vs = st.get(k)
        return vs is not None and dj.variant_names(k[1], vs) == {variant}
    out = []
    for u in sorted(b.live_blocks):
        if b.term(u)[0] != "switch":
            continue
        before = dj.states_before_stmt(u, len(b.stmts(u)))
        for v in b.succ[u]:
            sts = dj.states_on_edge(u, v)
            if not sts:
                continue
            keys = [k for k in sts[0] if k[0] == "disc" and type_needle in (dj.disc_ty.get(k[1], "") or "")]
            if any(all(is_v(st, k) for st in sts) and not (before and all(is_v(st, k) for st in before)) for k in keys):
                out.append((u, v))
    return out


def const_int_of(facts, b, op, depth=0):
    """integer constant an operand denotes, looking through references, copies and promoted constants (`&-1`); None if unknown"""
    import re as _re
    if depth > 8 or not op:
        return None
    if op[0] == "k":
        if op[1] == "int":
            try:
                return int(op[3])
            except Exception:
                return None
        if op[1] == "other" and "::promoted[" in str(op[3]):
            m = _re.search(r"promoted\[(\d+)\]", str(op[3]))
            base = b.path.split("::promoted[")[0]
            pb = facts.body(base + "::promoted[%s]" % m.group(1)) if m else None
            if pb is None and m:
                cands = facts.find(_re.escape(base) + r"::promoted\[%s\]$" % m.group(1), include_promoted=True)
                pb = cands[0] if cands else None
            if pb is not None:
                for bb in pb.live_blocks:
                    for st in pb.stmts(bb):
                        if st[0] == "A" and st[2][0] == "use" and st[2][1][0] == "k" and st[2][1][1] == "int":
                            return int(st[2][1][3])
        return None
    sd = b.single_def(op[1][0])
    if sd and sd[0] == "stmt":
        rv = sd[3]
        if rv[0] == "use":
            return const_int_of(facts, b, rv[1], depth + 1)
        if rv[0] in ("ref", "cfd", "addr"):
            return const_int_of(facts, b, ["c", rv[-1]], depth + 1)
    return None


def bool_returns(facts, body, assume, depth=0, drop_state=None):
    """Set of values ({0}, {1} or {0, 1}) a bool-returning function / closure can return when every call `c` for which
    `assume(c)` is not None returns that value. Follows calls of workspace closures / functions (their own possible results,
    under the same assumption) and the Option combinators `is_some_and` / `is_none_or` / `map_or(default, f)` whose result is
    the predicate's or a constant. Evaluation is per disjunctive state of the dataflow; anything unknown yields {0, 1}."""
    if depth > 5 or body is None:
        return {0, 1}
    dj = dj_of(body, facts)

    def closure_of(op):
        if op[0] not in ("c", "m"):
            return None
        sd = body.single_def(op[1][0])
        for _ in range(4):
            if sd and sd[0] == "stmt" and sd[3][0] in ("use",) and sd[3][1][0] in ("c", "m"):
                sd = body.single_def(sd[3][1][1][0])
            elif sd and sd[0] == "stmt" and sd[3][0] in ("ref",):
                sd = body.single_def(sd[3][-1][0])
        if sd and sd[0] == "stmt" and sd[3][0] == "agg" and sd[3][1][0] == "closure":
            return facts.body(sd[3][1][1])
        return None

    forced = {}
    for bb, c in body.calls():
        if bb not in body.live_blocks or body.local_ty(c.dest[0]) != "bool":
            continue
        a = assume(c)
        vals = None
        if a in (0, 1):
            vals = {a}
        else:
            # a == "some" / "none": the receiver of an Option combinator is assumed to be Some / None
            nm = (c.decl or c.name or "").split("::")[-1]
            res = c.callee.get("res") or c.callee.get("def") or ""
            if nm in ("is_some_and", "is_none_or", "is_ok_and", "is_err_and") and len(c.args) == 2:
                cb = closure_of(c.args[1])
                inner = bool_returns(facts, cb, assume, depth + 1, drop_state) if cb is not None else {0, 1}
                absent = {1} if nm == "is_none_or" else {0}
                vals = inner if a == "some" else (absent if a == "none" else inner | absent)
            elif nm == "map_or" and len(c.args) == 3:
                cb = closure_of(c.args[2])
                inner = bool_returns(facts, cb, assume, depth + 1, drop_state) if cb is not None else {0, 1}
                d = const_int_of(facts, body, c.args[1])
                absent = {d} if d in (0, 1) else {0, 1}
                vals = inner if a == "some" else (absent if a == "none" else inner | absent)
            else:
                cb = facts.body(res) if res else None
                if cb is not None and cb.crate == body.crate and not cb.is_coroutine and cb.local_ty(0) == "bool":
                    vals = bool_returns(facts, cb, assume, depth + 1, drop_state)
        if vals is not None and len(vals) == 1:
            forced[("call", bb)] = ("in", frozenset(vals))
    out = set()
    found = False
    for bb in sorted(body.live_blocks):
        for j, st in enumerate(body.stmts(bb)):
            if st[0] == "A" and st[1][0] == 0 and not st[1][1]:
                found = True
                e = dj.expr_of_rvalue(st[2])
                for stt in dj.states_before_stmt(bb, j):
                    if drop_state is not None and drop_state(dj, stt):
                        continue
                    # a state that contradicts a forced call result is not an execution under the assumption
                    if any(stt.get(k) is not None and not in_set(stt.get(k), set(v[1])) and stt.get(k)[0] == "in" for k, v in forced.items()):
                        continue
                    hyp = dict(stt)
                    hyp.update({k: v for k, v in forced.items() if hyp.get(k) is None})
                    v = dj.eval_in(hyp, e)
                    out |= {v} if v in (0, 1) else {0, 1}
        t = body.term(bb)
        if t[0] == "call" and t[3][0] == 0 and not t[3][1]:
            found = True
            k = ("call", bb)
            # executions that reach this call under the assumption
            sts = [stt for stt in dj.states_before_stmt(bb, len(body.stmts(bb)))
                   if not (drop_state is not None and drop_state(dj, stt)) and not any(stt.get(q) is not None and stt.get(q)[0] == "in" and not in_set(stt.get(q), set(v[1])) for q, v in forced.items())]
            if not sts:
                continue
            if k in forced:
                out |= set(forced[k][1])
            else:
                out |= {0, 1}
    return out if found else {0, 1}
