"""E1 runner: obtains MIR fact files for /repo's current working tree (cached by tree hash)."""
import fcntl, hashlib, json, os, shutil, subprocess, sys, time

VERIF = os.path.dirname(os.path.dirname(os.path.abspath(__file__)))
REPO = os.environ.get("VERIF_REPO", "/repo")
WORK = os.environ.get("VERIF_WORK") or os.path.join(VERIF, ".work")   # VERIF_REPO / VERIF_WORK: development only (a second tree analysed in parallel)
DRIVER_DIR = os.path.join(VERIF, "mirfacts")
DRIVER_TARGET = os.path.join(WORK, "mirfacts-target")
DRIVER = os.path.join(DRIVER_TARGET, "release", "mirfacts")
MEMBERS = ["scylla", "scylla-cql", "scylla-cql-core", "scylla-macros"]
CRATES = ["scylla", "scylla_cql", "scylla_cql_core"]

CONFIGS = {
    # name: (cargo args, extra rustflags, working dir, crates expected)
    "default": (["-p", "scylla"], "", None, CRATES),
    "full": (["-p", "scylla", "--features", "scylla/full-serialization,scylla/metrics"], "", None, CRATES),
    "unstable": (["-p", "scylla", "--features", "scylla/unstable-testing"], "--cfg scylla_unstable", None, CRATES),
    # the derive family: a harness crate whose GENERATED impls are analysed (C16)
    "family": ([], "", os.path.join(VERIF, "derive_family"), ["derive_family"]),
}
FAMILY_DIR = os.path.join(VERIF, "derive_family")
if REPO != "/repo":
    # development only: the harness crate path-depends on /repo; analyse a copy that points at the scratch tree instead
    _fam = os.path.join(WORK, "derive_family")
    os.makedirs(os.path.join(_fam, "src"), exist_ok=True)
    shutil.copyfile(os.path.join(FAMILY_DIR, "src", "lib.rs"), os.path.join(_fam, "src", "lib.rs"))
    with open(os.path.join(FAMILY_DIR, "Cargo.toml")) as _fh:
        _toml = _fh.read().replace('"/repo/', '"%s/' % REPO)
    with open(os.path.join(_fam, "Cargo.toml"), "w") as _fh:
        _fh.write(_toml)
    FAMILY_DIR = _fam
    CONFIGS["family"] = ([], "", FAMILY_DIR, ["derive_family"])
FIXTURES_DIR = os.path.join(VERIF, "fixtures")
CONFIGS["fixtures"] = ([], "", FIXTURES_DIR, ["fixtures"])


class ToolFailure(Exception):
    pass


def sysroot():
    return subprocess.check_output(["rustc", "+nightly", "--print", "sysroot"], text=True).strip()


def env_base():
    e = dict(os.environ)
    e["CARGO_NET_OFFLINE"] = "true"
    e.pop("RUSTC_WRAPPER", None)
    return e


def build_driver():
    os.makedirs(WORK, exist_ok=True)
    e = env_base()
    e["CARGO_TARGET_DIR"] = DRIVER_TARGET
    r = subprocess.run(["cargo", "build", "--release", "--offline"], cwd=DRIVER_DIR, env=e,
                       stdout=subprocess.PIPE, stderr=subprocess.STDOUT, text=True)
    if r.returncode != 0 or not os.path.exists(DRIVER):
        raise ToolFailure("mirfacts driver does not build:\n" + r.stdout[-4000:])


def tree_hash(extra_dirs=()):
    h = hashlib.sha256()
    paths = []
    roots = [os.path.join(REPO, m) for m in MEMBERS] + list(extra_dirs)
    for root in roots:
        for dp, dn, fn in os.walk(root):
            dn[:] = sorted(d for d in dn if d not in ("target", ".git", "tests", "benches", "examples"))
            for f in sorted(fn):
                if f.endswith(".rs") or f in ("Cargo.toml", "build.rs"):
                    paths.append(os.path.join(dp, f))
    for f in ("Cargo.toml", "Cargo.lock"):
        p = os.path.join(REPO, f)
        if os.path.exists(p):
            paths.append(p)
    # the driver's own source is part of the key
    paths.append(os.path.join(DRIVER_DIR, "src", "main.rs"))
    for p in paths:
        h.update(p.encode())
        h.update(b"\0")
        with open(p, "rb") as fh:
            h.update(fh.read())
        h.update(b"\0")
    return h.hexdigest()[:20], len(paths)


def fixtures_hash():
    h = hashlib.sha256()
    n = 0
    for p in (os.path.join(FIXTURES_DIR, "src", "lib.rs"), os.path.join(FIXTURES_DIR, "Cargo.toml"), os.path.join(DRIVER_DIR, "src", "main.rs")):
        with open(p, "rb") as fh:
            h.update(fh.read())
        n += 1
    return h.hexdigest()[:20], n


def facts_dir(config):
    """Return directory with fresh fact files for `config`, extracting if the tree changed."""
    os.makedirs(WORK, exist_ok=True)
    lock = open(os.path.join(WORK, "extract.lock"), "w")
    fcntl.flock(lock, fcntl.LOCK_EX)
    try:
        if not os.path.exists(DRIVER) or os.path.getmtime(DRIVER) < os.path.getmtime(os.path.join(DRIVER_DIR, "src", "main.rs")):
            build_driver()
        if config == "fixtures":
            key, nfiles = fixtures_hash()
        else:
            key, nfiles = tree_hash([FAMILY_DIR] if config == "family" else ())
        out = os.path.join(WORK, "facts", config, key)
        stamp = os.path.join(out, "OK")
        if os.path.exists(stamp):
            os.utime(out, None)
            return out, {"cached": True, "tree_key": key, "source_files_hashed": nfiles}
        # prune older keys of this config (disk)
        cfgdir = os.path.join(WORK, "facts", config)
        if os.path.isdir(cfgdir):
            # keep the two most recently used keys (the reference tree is usually one of them), drop the rest
            old = sorted(os.listdir(cfgdir), key=lambda d: os.path.getmtime(os.path.join(cfgdir, d)), reverse=True)
            for d in old[2:]:
                shutil.rmtree(os.path.join(cfgdir, d), ignore_errors=True)
        os.makedirs(out, exist_ok=True)
        args, rflags, cwd, crates = CONFIGS[config]
        target = os.path.join(WORK, "target-" + config)
        # defeat cargo's freshness cache for the workspace members
        fp = os.path.join(target, "debug", ".fingerprint")
        if os.path.isdir(fp):
            for d in os.listdir(fp):
                if any(d.startswith(m + "-") for m in MEMBERS + ["derive_family", "fixtures"]):
                    shutil.rmtree(os.path.join(fp, d), ignore_errors=True)
        if config == "family":
            # the harness crate resolves its dependencies exactly like the repository does
            cargo_lock = os.path.join(REPO, "Cargo.lock")
            if os.path.exists(cargo_lock):
                shutil.copyfile(cargo_lock, os.path.join(FAMILY_DIR, "Cargo.lock"))
        run_id = "%s-%d" % (key, int(time.time() * 1000))
        e = env_base()
        e["LD_LIBRARY_PATH"] = sysroot() + "/lib" + (":" + e["LD_LIBRARY_PATH"] if e.get("LD_LIBRARY_PATH") else "")
        e["RUSTFLAGS"] = ("-Zmir-opt-level=0 -Awarnings " + rflags).strip()
        e["RUSTC_WORKSPACE_WRAPPER"] = DRIVER
        e["MIRFACTS_OUT"] = out
        e["MIRFACTS_CRATES"] = ",".join(crates)
        e["MIRFACTS_RUN_ID"] = run_id
        e["CARGO_TARGET_DIR"] = target
        t0 = time.time()
        if config == "family":
            # in the harness workspace only derive_family is a member: the driver must wrap it, the repo crates build plainly
            pass
        r = subprocess.run(["cargo", "+nightly", "check", "--offline", "--lib"] + args, cwd=cwd or REPO, env=e,
                           stdout=subprocess.PIPE, stderr=subprocess.STDOUT, text=True)
        if r.returncode != 0:
            raise ToolFailure("tree does not compile under config %s:\n%s" % (config, r.stdout[-6000:]))
        for c in crates:
            p = os.path.join(out, c + ".facts.jsonl")
            if not os.path.exists(p):
                raise ToolFailure("fact file missing after extraction: " + p)
            with open(p, "rb") as fh:
                fh.seek(max(0, os.path.getsize(p) - 4000))
                tail = fh.read().decode("utf8", "replace")
            if run_id not in tail:
                raise ToolFailure("fact file not rewritten in this run: " + p)
        with open(stamp, "w") as fh:
            json.dump({"run_id": run_id, "wall_s": time.time() - t0}, fh)
        return out, {"cached": False, "tree_key": key, "source_files_hashed": nfiles, "extract_wall_s": round(time.time() - t0, 1)}
    finally:
        fcntl.flock(lock, fcntl.LOCK_UN)
        lock.close()


if __name__ == "__main__":
    cfg = sys.argv[1] if len(sys.argv) > 1 else "default"
    try:
        print(facts_dir(cfg))
    except ToolFailure as ex:
        print("TOOL FAILURE:", ex)
        sys.exit(2)
