"""./check <ID> [--tier quick|thorough] | dump <regex> | list <regex>"""
import os, sys, time, json
from . import extract, mir


def load(config="default"):
    d, info = extract.facts_dir(config)
    crates = extract.CONFIGS[config][3]
    return mir.Facts(d, crates), info


def main(argv):
    if not argv:
        print(__doc__)
        return 2
    cmd = argv[0]
    try:
        if cmd == "dump":
            facts, _ = load(os.environ.get("VERIF_CONFIG", "default"))
            for b in facts.find(argv[1]):
                print(b.dump())
                print()
            return 0
        if cmd == "list":
            facts, _ = load(os.environ.get("VERIF_CONFIG", "default"))
            for b in facts.find(argv[1]):
                print(b.path, "|", b.kind, "|", len(b.blocks), "blocks |", b.span)
            return 0
        from . import runner
        return runner.main(argv)
    except extract.ToolFailure as ex:
        print("TOOL-FAILURE:", ex)
        return 2
