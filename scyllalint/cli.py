"""./check <ID> [--tier quick|thorough] | explain <replay.json> | dump <regex> | list <regex>"""
import os, sys, time, json
from . import extract, mir


def load(config="default"):
    d, info = extract.facts_dir(config)
    crates = extract.CONFIGS[config][3]
    return mir.Facts(d, crates), info


def main(argv):
    if not argv:
        print(__doc__)
        return 2
    cmd = argv[0]
    try:
        if cmd == "dump":
            facts, _ = load(os.environ.get("VERIF_CONFIG", "default"))
            for b in facts.find(argv[1]):
                print(b.dump())
                print()
            return 0
        if cmd == "list":
            facts, _ = load(os.environ.get("VERIF_CONFIG", "default"))
            for b in facts.find(argv[1]):
                print(b.path, "|", b.kind, "|", len(b.blocks), "blocks |", b.span)
            return 0
        if cmd == "explain":
            # ./check explain <replay.json>: print the recorded finding and re-run its property's check on the current tree
            rec = json.load(open(argv[1]))
            print("property %s rule %s (%s)" % (rec.get("property"), rec.get("rule"), rec.get("rule_desc")))
            print("finding  %s" % rec.get("key"))
            print("site     %s" % rec.get("site"))
            print("detail   %s" % rec.get("detail"))
            import io, contextlib
            from . import runner
            buf = io.StringIO()
            with contextlib.redirect_stdout(buf):
                rc = runner.main([rec["property"]])
            still = ("FINDING %s " % rec["key"]) in buf.getvalue()
            print("on the current tree: %s" % ("the finding is still reported" if still else "the finding is no longer reported (check exit code %d)" % rc))
            if still:
                print("VIOLATION property=%s replay=%s" % (rec["property"], argv[1]))
            return 1 if still else 0
        from . import runner
        return runner.main(argv)
    except extract.ToolFailure as ex:
        print("TOOL-FAILURE:", ex)
        return 2
