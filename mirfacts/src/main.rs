// mirfacts — rustc_private driver that dumps type-checked MIR facts (mir_promoted, i.e. before
// coroutine lowering and drop elaboration) of every body of a workspace crate as JSON lines.
//
// Invoked by cargo through RUSTC_WORKSPACE_WRAPPER:  mirfacts <rustc> <rustc args...>
// Output: $MIRFACTS_OUT/<crate_name>.facts.jsonl (one write per process).
#![feature(rustc_private)]
#![allow(clippy::all)]

extern crate rustc_abi;
extern crate rustc_driver;
extern crate rustc_hir;
extern crate rustc_interface;
extern crate rustc_middle;
extern crate rustc_span;

use rustc_driver::Compilation;
use rustc_hir::def::DefKind;
use rustc_hir::def_id::{DefId, LocalDefId};
use rustc_middle::mir::{
    self, AggregateKind, BasicBlock, BinOp, Body, Const, ConstValue, Operand, Place, PlaceElem,
    Rvalue, StatementKind, TerminatorKind, UnOp,
};
use rustc_middle::ty::{self, Instance, Ty, TyCtxt, TypingEnv};
use rustc_span::Span;
use std::collections::{BTreeMap, HashMap, HashSet};
use rustc_middle::ty::print::PrintTraitRefExt;
use std::fmt::Write as _;

/// canonical printing: full def paths, crate name always present, no re-export shortcuts
macro_rules! pp {
    ($e:expr) => {
        ty::print::with_resolve_crate_name!(ty::print::with_no_visible_paths!(
            ty::print::with_no_trimmed_paths!($e)
        ))
    };
}

// ---------------------------------------------------------------------------------------------
// tiny JSON writer

fn jstr(out: &mut String, s: &str) {
    out.push('"');
    for c in s.chars() {
        match c {
            '"' => out.push_str("\\\""),
            '\\' => out.push_str("\\\\"),
            '\n' => out.push_str("\\n"),
            '\r' => out.push_str("\\r"),
            '\t' => out.push_str("\\t"),
            c if (c as u32) < 0x20 => {
                let _ = write!(out, "\\u{:04x}", c as u32);
            }
            c => out.push(c),
        }
    }
    out.push('"');
}

fn js(s: &str) -> String {
    let mut o = String::new();
    jstr(&mut o, s);
    o
}

// ---------------------------------------------------------------------------------------------

struct Cx<'tcx> {
    tcx: TyCtxt<'tcx>,
    types: Vec<String>,
    type_ix: HashMap<Ty<'tcx>, usize>,
    adts: HashSet<DefId>,
    files: Vec<String>,
    file_ix: HashMap<String, usize>,
}

impl<'tcx> Cx<'tcx> {
    fn ty(&mut self, t: Ty<'tcx>) -> usize {
        if let Some(&i) = self.type_ix.get(&t) {
            return i;
        }
        let s = pp!(t.to_string());
        let i = self.types.len();
        self.types.push(s);
        self.type_ix.insert(t, i);
        // remember ADTs mentioned at the head of the type
        if let ty::Adt(def, _) = t.kind() {
            self.adts.insert(def.did());
        }
        i
    }

    fn file(&mut self, f: String) -> usize {
        if let Some(&i) = self.file_ix.get(&f) {
            return i;
        }
        let i = self.files.len();
        self.files.push(f.clone());
        self.file_ix.insert(f, i);
        i
    }

    fn path(&self, d: DefId) -> String {
        pp!(self.tcx.def_path_str(d))
    }

    /// span → [file_ix, line, col, macro_name|null, is_expansion_of_local_macro_site]
    fn span(&mut self, sp: Span) -> String {
        let sm = self.tcx.sess.source_map();
        let mut mac: Option<String> = None;
        let mut s = sp;
        // walk to the outermost call site, remember the outermost macro name
        let mut guard = 0;
        while s.from_expansion() && guard < 64 {
            let ed = s.ctxt().outer_expn_data();
            match ed.kind {
                rustc_span::ExpnKind::Macro(_, name) => mac = Some(name.to_string()),
                rustc_span::ExpnKind::Desugaring(k) => {
                    if mac.is_none() {
                        mac = Some(format!("desugar:{:?}", k));
                    }
                }
                _ => {}
            }
            s = ed.call_site;
            guard += 1;
        }
        let lo = sm.lookup_char_pos(s.lo());
        let fname = format!("{}", lo.file.name.prefer_local_unconditionally());
        let fi = self.file(fname);
        let mut o = String::new();
        let _ = write!(o, "[{},{},{}", fi, lo.line, lo.col.0 + 1);
        if let Some(m) = mac {
            o.push(',');
            jstr(&mut o, &m);
        }
        o.push(']');
        o
    }
}

fn place_json<'tcx>(cx: &mut Cx<'tcx>, body: &Body<'tcx>, p: &Place<'tcx>) -> String {
    let mut o = String::new();
    let _ = write!(o, "[{},[", p.local.as_u32());
    let mut pty = mir::PlaceTy::from_ty(body.local_decls[p.local].ty);
    let mut first = true;
    for elem in p.projection.iter() {
        if !first {
            o.push(',');
        }
        first = false;
        match elem {
            PlaceElem::Deref => o.push_str("\"*\""),
            PlaceElem::Field(f, fty) => {
                // field name if the base is an ADT
                let mut name = String::new();
                match pty.ty.kind() {
                    ty::Adt(def, _) => {
                        cx.adts.insert(def.did());
                        let vi = pty.variant_index.unwrap_or(rustc_abi::FIRST_VARIANT);
                        if def.variants().len() > vi.as_usize() {
                            let v = def.variant(vi);
                            if v.fields.len() > f.as_usize() {
                                name = v.fields[f].name.to_string();
                            }
                        }
                    }
                    _ => {}
                }
                let ti = cx.ty(fty);
                let _ = write!(o, "[\"f\",{},{},{}]", f.as_u32(), js(&name), ti);
            }
            PlaceElem::Downcast(name, vi) => {
                let n = name.map(|s| s.to_string()).unwrap_or_default();
                let _ = write!(o, "[\"d\",{},{}]", js(&n), vi.as_u32());
            }
            PlaceElem::Index(l) => {
                let _ = write!(o, "[\"i\",{}]", l.as_u32());
            }
            PlaceElem::ConstantIndex { offset, min_length, from_end } => {
                let _ = write!(o, "[\"c\",{},{},{}]", offset, min_length, from_end);
            }
            PlaceElem::Subslice { from, to, from_end } => {
                let _ = write!(o, "[\"s\",{},{},{}]", from, to, from_end);
            }
            PlaceElem::OpaqueCast(_) => o.push_str("\"oc\""),
            PlaceElem::UnwrapUnsafeBinder(_) => o.push_str("\"ub\""),
        }
        pty = pty.projection_ty(cx.tcx, elem);
    }
    o.push_str("]]");
    o
}

fn const_json<'tcx>(cx: &mut Cx<'tcx>, env: TypingEnv<'tcx>, c: &Const<'tcx>) -> String {
    let tcx = cx.tcx;
    let t = c.ty();
    // function items
    if let ty::FnDef(did, args) = t.kind() {
        let mut o = String::from("[\"k\",\"fn\",");
        jstr(&mut o, &cx.path(*did));
        o.push(',');
        let a = pp!(format!("{:?}", args));
        jstr(&mut o, &a);
        o.push(']');
        return o;
    }
    let ti = cx.ty(t);
    // scalar ints / bools / chars
    if t.is_integral() || t.is_bool() || t.is_char() {
        if let Some(si) = c.try_eval_scalar_int(tcx, env) {
            let size = si.size();
            let v: String = if t.is_signed() {
                format!("{}", si.to_int(size))
            } else {
                format!("{}", si.to_uint(size))
            };
            return format!("[\"k\",\"int\",{},{}]", ti, js(&v));
        }
    }
    // &str literals
    if let ty::Ref(_, inner, _) = t.kind() {
        if inner.is_str() {
            if let Const::Val(ConstValue::Slice { alloc_id, meta }, _) = c {
                let alloc = tcx.global_alloc(*alloc_id).unwrap_memory();
                let bytes = alloc
                    .inner()
                    .inspect_with_uninit_and_ptr_outside_interpreter(0..(*meta as usize));
                let s = String::from_utf8_lossy(bytes).to_string();
                return format!("[\"k\",\"str\",{},{}]", ti, js(&s));
            }
        }
    }
    // fieldless enum constants / unit structs and anything else: textual
    let txt = pp!(format!("{}", c));
    // try evaluating a named constant of ADT type to a scalar (fieldless enums)
    let mut extra = String::new();
    if let Const::Unevaluated(uv, _) = c {
        extra = cx.path(uv.def);
    }
    format!("[\"k\",\"other\",{},{},{}]", ti, js(&txt), js(&extra))
}

fn operand_json<'tcx>(
    cx: &mut Cx<'tcx>,
    env: TypingEnv<'tcx>,
    body: &Body<'tcx>,
    op: &Operand<'tcx>,
) -> String {
    match op {
        Operand::Copy(p) => format!("[\"c\",{}]", place_json(cx, body, p)),
        Operand::Move(p) => format!("[\"m\",{}]", place_json(cx, body, p)),
        Operand::Constant(c) => const_json(cx, env, &c.const_),
        #[allow(unreachable_patterns)]
        _ => "[\"k\",\"other\",0,\"?\",\"\"]".to_string(),
    }
}

fn binop_name(b: BinOp) -> &'static str {
    match b {
        BinOp::Add => "Add",
        BinOp::AddUnchecked => "AddUnchecked",
        BinOp::AddWithOverflow => "AddWithOverflow",
        BinOp::Sub => "Sub",
        BinOp::SubUnchecked => "SubUnchecked",
        BinOp::SubWithOverflow => "SubWithOverflow",
        BinOp::Mul => "Mul",
        BinOp::MulUnchecked => "MulUnchecked",
        BinOp::MulWithOverflow => "MulWithOverflow",
        BinOp::Div => "Div",
        BinOp::Rem => "Rem",
        BinOp::BitXor => "BitXor",
        BinOp::BitAnd => "BitAnd",
        BinOp::BitOr => "BitOr",
        BinOp::Shl => "Shl",
        BinOp::ShlUnchecked => "ShlUnchecked",
        BinOp::Shr => "Shr",
        BinOp::ShrUnchecked => "ShrUnchecked",
        BinOp::Eq => "Eq",
        BinOp::Lt => "Lt",
        BinOp::Le => "Le",
        BinOp::Ne => "Ne",
        BinOp::Ge => "Ge",
        BinOp::Gt => "Gt",
        BinOp::Cmp => "Cmp",
        BinOp::Offset => "Offset",
    }
}

fn rvalue_json<'tcx>(
    cx: &mut Cx<'tcx>,
    env: TypingEnv<'tcx>,
    body: &Body<'tcx>,
    rv: &Rvalue<'tcx>,
) -> String {
    match rv {
        Rvalue::Use(op, ..) => format!("[\"use\",{}]", operand_json(cx, env, body, op)),
        Rvalue::Repeat(op, n) => {
            let ns = match n.try_to_target_usize(cx.tcx) {
                Some(v) => format!("{}", v),
                None => "null".to_string(),
            };
            format!("[\"rep\",{},{}]", operand_json(cx, env, body, op), ns)
        }
        Rvalue::Ref(_, bk, p) => {
            let m = match bk {
                mir::BorrowKind::Shared => "s",
                mir::BorrowKind::Fake(_) => "f",
                mir::BorrowKind::Mut { .. } => "m",
            };
            format!("[\"ref\",\"{}\",{}]", m, place_json(cx, body, p))
        }
        Rvalue::ThreadLocalRef(d) => format!("[\"tls\",{}]", js(&cx.path(*d))),
        Rvalue::RawPtr(_, p) => format!("[\"addr\",{}]", place_json(cx, body, p)),
        Rvalue::Cast(kind, op, t) => {
            let k = format!("{:?}", kind);
            let from = op.ty(&body.local_decls, cx.tcx);
            let fi = cx.ty(from);
            let ti = cx.ty(*t);
            format!("[\"cast\",{},{},{},{}]", js(&k), operand_json(cx, env, body, op), fi, ti)
        }
        Rvalue::BinaryOp(b, ops) => {
            let (a, c) = &**ops;
            let at = a.ty(&body.local_decls, cx.tcx);
            let ati = cx.ty(at);
            format!(
                "[\"bin\",\"{}\",{},{},{}]",
                binop_name(*b),
                operand_json(cx, env, body, a),
                operand_json(cx, env, body, c),
                ati
            )
        }
        Rvalue::UnaryOp(u, op) => {
            let n = match u {
                UnOp::Not => "Not",
                UnOp::Neg => "Neg",
                UnOp::PtrMetadata => "PtrMetadata",
            };
            format!("[\"un\",\"{}\",{}]", n, operand_json(cx, env, body, op))
        }
        Rvalue::Discriminant(p) => {
            let pt = p.ty(&body.local_decls, cx.tcx).ty;
            let ti = cx.ty(pt);
            format!("[\"disc\",{},{}]", place_json(cx, body, p), ti)
        }
        Rvalue::Aggregate(kind, ops) => {
            let k = match &**kind {
                AggregateKind::Array(_) => "[\"array\"]".to_string(),
                AggregateKind::Tuple => "[\"tuple\"]".to_string(),
                AggregateKind::Adt(did, vi, _args, _, active) => {
                    cx.adts.insert(*did);
                    let def = cx.tcx.adt_def(*did);
                    let v = def.variant(*vi);
                    let mut fields = String::from("[");
                    for (i, f) in v.fields.iter().enumerate() {
                        if i > 0 {
                            fields.push(',');
                        }
                        jstr(&mut fields, &f.name.to_string());
                    }
                    fields.push(']');
                    let act = match active {
                        Some(f) => format!("{}", f.as_u32()),
                        None => "null".into(),
                    };
                    format!(
                        "[\"adt\",{},{},{},{},{}]",
                        js(&cx.path(*did)),
                        js(&v.name.to_string()),
                        vi.as_u32(),
                        fields,
                        act
                    )
                }
                AggregateKind::Closure(did, _) => format!("[\"closure\",{}]", js(&cx.path(*did))),
                AggregateKind::Coroutine(did, _) => {
                    format!("[\"coroutine\",{}]", js(&cx.path(*did)))
                }
                AggregateKind::CoroutineClosure(did, _) => {
                    format!("[\"coroutine_closure\",{}]", js(&cx.path(*did)))
                }
                AggregateKind::RawPtr(_, _) => "[\"rawptr\"]".to_string(),
            };
            let mut o = format!("[\"agg\",{},[", k);
            for (i, op) in ops.iter().enumerate() {
                if i > 0 {
                    o.push(',');
                }
                o.push_str(&operand_json(cx, env, body, op));
            }
            o.push_str("]]");
            o
        }
        Rvalue::CopyForDeref(p) => format!("[\"cfd\",{}]", place_json(cx, body, p)),
        Rvalue::WrapUnsafeBinder(op, _) => format!("[\"use\",{}]", operand_json(cx, env, body, op)),
        #[allow(unreachable_patterns)]
        other => format!("[\"other\",{}]", js(&format!("{:?}", other))),
    }
}

fn callee_json<'tcx>(
    cx: &mut Cx<'tcx>,
    env: TypingEnv<'tcx>,
    body: &Body<'tcx>,
    func: &Operand<'tcx>,
) -> String {
    let tcx = cx.tcx;
    let fty = func.ty(&body.local_decls, tcx);
    if let ty::FnDef(did, args) = fty.kind() {
        let mut o = String::from("{");
        let _ = write!(o, "\"def\":{}", js(&cx.path(*did)));
        let a = pp!(format!("{:?}", args));
        let _ = write!(o, ",\"args\":{}", js(&a));
        let _ = write!(o, ",\"krate\":{}", js(&tcx.crate_name(did.krate).to_string()));
        // self type (first generic arg) for trait methods
        if let Some(tr) = tcx.trait_of_assoc(*did) {
            let _ = write!(o, ",\"trait\":{}", js(&cx.path(tr)));
            if let Some(st) = args.types().next() {
                let sti = cx.ty(st);
                let _ = write!(o, ",\"self_ty\":{}", sti);
            }
        } else if let Some(im) = tcx.inherent_impl_of_assoc(*did) {
            let st = tcx.type_of(im).instantiate_identity().skip_norm_wip();
            let sti = cx.ty(st);
            let _ = write!(o, ",\"impl_self\":{}", sti);
        }
        // const generic args (e.g. ensure_exact_length::<_, SIZE>)
        let mut cg = String::new();
        for ga in args.iter() {
            if let Some(c) = ga.as_const() {
                if let Some(v) = c.try_to_target_usize(tcx) {
                    if !cg.is_empty() {
                        cg.push(',');
                    }
                    let _ = write!(cg, "{}", v);
                }
            }
        }
        if !cg.is_empty() {
            let _ = write!(o, ",\"cargs\":[{}]", cg);
        }
        // resolution
        let resolved = std::panic::catch_unwind(std::panic::AssertUnwindSafe(|| {
            Instance::try_resolve(tcx, env, *did, args)
        }));
        if let Ok(Ok(Some(inst))) = resolved {
            let rd = inst.def_id();
            if rd != *did {
                let _ = write!(o, ",\"res\":{}", js(&cx.path(rd)));
            }
            let kind = match inst.def {
                ty::InstanceKind::Item(_) => "item",
                ty::InstanceKind::Virtual(..) => "virtual",
                ty::InstanceKind::Intrinsic(_) => "intrinsic",
                ty::InstanceKind::ClosureOnceShim { .. } => "closure_once",
                ty::InstanceKind::FnPtrShim(..) => "fnptr_shim",
                ty::InstanceKind::ReifyShim(..) => "reify",
                ty::InstanceKind::CloneShim(..) => "clone_shim",
                ty::InstanceKind::DropGlue(..) => "drop_glue",
                _ => "other",
            };
            let _ = write!(o, ",\"rk\":\"{}\"", kind);
        }
        o.push('}');
        o
    } else {
        let ti = cx.ty(fty);
        format!("{{\"ind\":{},\"ty\":{}}}", operand_json(cx, env, body, func), ti)
    }
}

fn bb(b: BasicBlock) -> u32 {
    b.as_u32()
}

fn optbb(b: &Option<BasicBlock>) -> String {
    match b {
        Some(b) => format!("{}", b.as_u32()),
        None => "null".into(),
    }
}

fn unwind_json(u: &mir::UnwindAction) -> String {
    match u {
        mir::UnwindAction::Cleanup(b) => format!("{}", b.as_u32()),
        _ => "null".into(),
    }
}

fn body_json<'tcx>(
    cx: &mut Cx<'tcx>,
    def: LocalDefId,
    body: &Body<'tcx>,
    stage: &str,
    suffix: &str,
) -> String {
    let tcx = cx.tcx;
    let did = def.to_def_id();
    let env = TypingEnv::post_analysis(tcx, did);
    let mut o = String::with_capacity(4096);
    o.push_str("{\"k\":\"body\"");
    let _ = write!(o, ",\"stage\":{}", js(stage));
    let _ = write!(o, ",\"path\":{}", js(&format!("{}{}", cx.path(did), suffix)));
    let dk = tcx.def_kind(did);
    let _ = write!(o, ",\"kind\":{}", js(&format!("{:?}", dk)));
    if body.coroutine.is_some() {
        o.push_str(",\"coroutine\":true");
    }
    // parent item (for closures: the enclosing fn; for assoc fns: the impl)
    let parent = tcx.parent(did);
    let _ = write!(o, ",\"parent\":{}", js(&cx.path(parent)));
    // enclosing impl header
    let mut owner = did;
    while matches!(tcx.def_kind(owner), DefKind::Closure | DefKind::InlineConst | DefKind::AnonConst | DefKind::SyntheticCoroutineBody) {
        owner = tcx.parent(owner);
    }
    let _ = write!(o, ",\"owner\":{}", js(&cx.path(owner)));
    if matches!(tcx.def_kind(owner), DefKind::AssocFn | DefKind::AssocConst { .. }) {
        let imp = tcx.parent(owner);
        if let DefKind::Impl { of_trait } = tcx.def_kind(imp) {
            let st = tcx.type_of(imp).instantiate_identity().skip_norm_wip();
            let sts = pp!(st.to_string());
            let _ = write!(o, ",\"impl_self\":{}", js(&sts));
            if of_trait {
                let tr = tcx.impl_trait_ref(imp).instantiate_identity().skip_norm_wip();
                let trs = pp!(tr.print_only_trait_path().to_string());
                let _ = write!(o, ",\"impl_trait\":{}", js(&trs));
                let _ = write!(o, ",\"impl_trait_def\":{}", js(&cx.path(tr.def_id)));
            }
            let _ = write!(o, ",\"name\":{}", js(&tcx.item_name(owner).to_string()));
        } else if let DefKind::Trait = tcx.def_kind(imp) {
            let _ = write!(o, ",\"in_trait\":{}", js(&cx.path(imp)));
            let _ = write!(o, ",\"name\":{}", js(&tcx.item_name(owner).to_string()));
        }
    } else if matches!(tcx.def_kind(owner), DefKind::Fn) {
        let _ = write!(o, ",\"name\":{}", js(&tcx.item_name(owner).to_string()));
    }
    let _ = write!(o, ",\"span\":{}", cx.span(body.span));
    let _ = write!(o, ",\"argc\":{}", body.arg_count);
    // locals
    let mut names: BTreeMap<u32, String> = BTreeMap::new();
    let mut upvar_names: Vec<(String, String)> = Vec::new();
    for vdi in &body.var_debug_info {
        if let mir::VarDebugInfoContents::Place(p) = &vdi.value {
            if p.projection.is_empty() {
                names.entry(p.local.as_u32()).or_insert_with(|| vdi.name.to_string());
            } else {
                upvar_names.push((vdi.name.to_string(), place_json(cx, body, p)));
            }
        }
    }
    o.push_str(",\"locals\":[");
    for (i, (l, decl)) in body.local_decls.iter_enumerated().enumerate() {
        if i > 0 {
            o.push(',');
        }
        let ti = cx.ty(decl.ty);
        match names.get(&l.as_u32()) {
            Some(n) => {
                let _ = write!(o, "[{},{}]", ti, js(n));
            }
            None => {
                let _ = write!(o, "[{}]", ti);
            }
        }
    }
    o.push(']');
    if !upvar_names.is_empty() {
        o.push_str(",\"upvars\":[");
        for (i, (n, p)) in upvar_names.iter().enumerate() {
            if i > 0 {
                o.push(',');
            }
            let _ = write!(o, "[{},{}]", js(n), p);
        }
        o.push(']');
    }
    // blocks
    o.push_str(",\"blocks\":[");
    for (bi, (_b, data)) in body.basic_blocks.iter_enumerated().enumerate() {
        if bi > 0 {
            o.push(',');
        }
        o.push_str("{\"s\":[");
        let mut firsts = true;
        for st in &data.statements {
            let sj = match &st.kind {
                StatementKind::Assign(bx) => {
                    let (p, rv) = &**bx;
                    Some(format!(
                        "[\"A\",{},{},{}]",
                        place_json(cx, body, p),
                        rvalue_json(cx, env, body, rv),
                        cx.span(st.source_info.span)
                    ))
                }
                StatementKind::SetDiscriminant { place, variant_index } => Some(format!(
                    "[\"D\",{},{},{}]",
                    place_json(cx, body, place),
                    variant_index.as_u32(),
                    cx.span(st.source_info.span)
                )),
                StatementKind::Intrinsic(i) => Some(format!(
                    "[\"I\",{},{}]",
                    js(&format!("{:?}", i)),
                    cx.span(st.source_info.span)
                )),
                _ => None,
            };
            if let Some(sj) = sj {
                if !firsts {
                    o.push(',');
                }
                firsts = false;
                o.push_str(&sj);
            }
        }
        o.push_str("],\"t\":");
        let term = data.terminator();
        let tsp = cx.span(term.source_info.span);
        let tj = match &term.kind {
            TerminatorKind::Goto { target } => format!("[\"goto\",{}]", bb(*target)),
            TerminatorKind::SwitchInt { discr, targets } => {
                let mut s = format!("[\"switch\",{},[", operand_json(cx, env, body, discr));
                for (i, (v, t)) in targets.iter().enumerate() {
                    if i > 0 {
                        s.push(',');
                    }
                    // discriminant values of signed types are sign-extended by the reader
                    let _ = write!(s, "[{},{}]", js(&format!("{}", v)), bb(t));
                }
                let dt = discr.ty(&body.local_decls, tcx);
                let dti = cx.ty(dt);
                let _ = write!(s, "],{},{},{}]", bb(targets.otherwise()), dti, tsp);
                s
            }
            TerminatorKind::UnwindResume => "[\"resume\"]".into(),
            TerminatorKind::UnwindTerminate(_) => "[\"abort\"]".into(),
            TerminatorKind::Return => format!("[\"ret\",{}]", tsp),
            TerminatorKind::Unreachable => "[\"unreachable\"]".into(),
            TerminatorKind::Drop { place, target, unwind, .. } => format!(
                "[\"drop\",{},{},{},{}]",
                place_json(cx, body, place),
                bb(*target),
                unwind_json(unwind),
                tsp
            ),
            TerminatorKind::Call { func, args, destination, target, unwind, .. } => {
                let mut s = format!("[\"call\",{},[", callee_json(cx, env, body, func));
                for (i, a) in args.iter().enumerate() {
                    if i > 0 {
                        s.push(',');
                    }
                    s.push_str(&operand_json(cx, env, body, &a.node));
                }
                let _ = write!(
                    s,
                    "],{},{},{},{}]",
                    place_json(cx, body, destination),
                    optbb(target),
                    unwind_json(unwind),
                    tsp
                );
                s
            }
            TerminatorKind::TailCall { func, args, .. } => {
                let mut s = format!("[\"tailcall\",{},[", callee_json(cx, env, body, func));
                for (i, a) in args.iter().enumerate() {
                    if i > 0 {
                        s.push(',');
                    }
                    s.push_str(&operand_json(cx, env, body, &a.node));
                }
                let _ = write!(s, "],{}]", tsp);
                s
            }
            TerminatorKind::Assert { cond, expected, msg, target, unwind } => {
                let (kind, ops): (&str, Vec<&Operand<'tcx>>) = match &**msg {
                    mir::AssertKind::BoundsCheck { len, index } => ("BoundsCheck", vec![len, index]),
                    mir::AssertKind::Overflow(op, a, b) => (
                        match op {
                            BinOp::Add => "Overflow:Add",
                            BinOp::Sub => "Overflow:Sub",
                            BinOp::Mul => "Overflow:Mul",
                            BinOp::Shl => "Overflow:Shl",
                            BinOp::Shr => "Overflow:Shr",
                            _ => "Overflow:Other",
                        },
                        vec![a, b],
                    ),
                    mir::AssertKind::OverflowNeg(a) => ("OverflowNeg", vec![a]),
                    mir::AssertKind::DivisionByZero(a) => ("DivisionByZero", vec![a]),
                    mir::AssertKind::RemainderByZero(a) => ("RemainderByZero", vec![a]),
                    mir::AssertKind::ResumedAfterReturn(_) => ("ResumedAfterReturn", vec![]),
                    mir::AssertKind::ResumedAfterPanic(_) => ("ResumedAfterPanic", vec![]),
                    mir::AssertKind::ResumedAfterDrop(_) => ("ResumedAfterDrop", vec![]),
                    mir::AssertKind::MisalignedPointerDereference { .. } => ("Misaligned", vec![]),
                    mir::AssertKind::NullPointerDereference => ("NullDeref", vec![]),
                    mir::AssertKind::InvalidEnumConstruction(_) => ("InvalidEnum", vec![]),
                };
                let mut s = format!(
                    "[\"assert\",{},{},\"{}\",[",
                    operand_json(cx, env, body, cond),
                    expected,
                    kind
                );
                for (i, a) in ops.iter().enumerate() {
                    if i > 0 {
                        s.push(',');
                    }
                    s.push_str(&operand_json(cx, env, body, a));
                }
                let _ = write!(s, "],{},{},{}]", bb(*target), unwind_json(unwind), tsp);
                s
            }
            TerminatorKind::Yield { value, resume, resume_arg, drop } => format!(
                "[\"yield\",{},{},{},{},{}]",
                operand_json(cx, env, body, value),
                bb(*resume),
                place_json(cx, body, resume_arg),
                optbb(drop),
                tsp
            ),
            TerminatorKind::CoroutineDrop => "[\"codrop\"]".into(),
            TerminatorKind::FalseEdge { real_target, imaginary_target } => {
                format!("[\"falseedge\",{},{}]", bb(*real_target), bb(*imaginary_target))
            }
            TerminatorKind::FalseUnwind { real_target, .. } => {
                format!("[\"falseunwind\",{}]", bb(*real_target))
            }
            TerminatorKind::InlineAsm { .. } => "[\"asm\"]".into(),
        };
        o.push_str(&tj);
        if data.is_cleanup {
            o.push_str(",\"c\":1");
        }
        o.push('}');
    }
    o.push_str("]}");
    o
}

fn adt_json<'tcx>(cx: &mut Cx<'tcx>, did: DefId) -> String {
    let tcx = cx.tcx;
    let def = tcx.adt_def(did);
    let mut o = String::from("{\"k\":\"adt\"");
    let _ = write!(o, ",\"path\":{}", js(&cx.path(did)));
    let _ = write!(o, ",\"krate\":{}", js(&tcx.crate_name(did.krate).to_string()));
    let kind = if def.is_enum() {
        "enum"
    } else if def.is_union() {
        "union"
    } else {
        "struct"
    };
    let _ = write!(o, ",\"adt_kind\":\"{}\"", kind);
    o.push_str(",\"variants\":[");
    for (i, (vi, v)) in def.variants().iter_enumerated().enumerate() {
        if i > 0 {
            o.push(',');
        }
        let discr = if def.is_enum() {
            let d = def.discriminant_for_variant(tcx, vi);
            // interpret according to signedness
            let t = d.ty;
            if t.is_signed() {
                let bits = t.primitive_size(tcx).bits();
                let v = d.val as i128;
                let sh = 128 - bits;
                format!("{}", (v << sh) >> sh)
            } else {
                format!("{}", d.val)
            }
        } else {
            "0".to_string()
        };
        let _ = write!(o, "{{\"name\":{},\"idx\":{},\"discr\":{},\"fields\":[", js(&v.name.to_string()), vi.as_u32(), js(&discr));
        for (j, f) in v.fields.iter().enumerate() {
            if j > 0 {
                o.push(',');
            }
            let fty = tcx.type_of(f.did).instantiate_identity().skip_norm_wip();
            let fts = pp!(fty.to_string());
            let _ = write!(o, "[{},{}]", js(&f.name.to_string()), js(&fts));
        }
        o.push_str("]}");
    }
    o.push_str("]}");
    o
}

struct Cb;

impl rustc_driver::Callbacks for Cb {
    fn after_expansion<'tcx>(
        &mut self,
        _compiler: &rustc_interface::interface::Compiler,
        tcx: TyCtxt<'tcx>,
    ) -> Compilation {
        let out_dir = match std::env::var("MIRFACTS_OUT") {
            Ok(d) => d,
            Err(_) => return Compilation::Continue,
        };
        let crate_name = tcx.crate_name(rustc_hir::def_id::LOCAL_CRATE).to_string();
        let mut cx = Cx {
            tcx,
            types: Vec::new(),
            type_ix: HashMap::new(),
            adts: HashSet::new(),
            files: Vec::new(),
            file_ix: HashMap::new(),
        };
        let mut out = String::with_capacity(1 << 24);
        let mut nbodies = 0usize;
        let mut nstolen = 0usize;
        let only: Option<String> = std::env::var("MIRFACTS_ONLY").ok();
        for def in tcx.hir_body_owners() {
            let did = def.to_def_id();
            let dk = tcx.def_kind(did);
            if !matches!(
                dk,
                DefKind::Fn
                    | DefKind::AssocFn
                    | DefKind::Closure
                    | DefKind::SyntheticCoroutineBody
                    | DefKind::Const { .. }
                    | DefKind::AssocConst { .. }
            ) {
                continue;
            }
            if let Some(f) = &only {
                if !cx.path(did).contains(f.as_str()) {
                    continue;
                }
            }
            let (steal, promoted) = tcx.mir_promoted(def);
            if steal.is_stolen() {
                nstolen += 1;
                continue;
            }
            let body = steal.borrow();
            let line = body_json(&mut cx, def, &body, "promoted", "");
            out.push_str(&line);
            out.push('\n');
            nbodies += 1;
            // promoted constants of this body (e.g. `&"name"` operands of comparisons)
            if !promoted.is_stolen() {
                let proms = promoted.borrow();
                for (pi, pbody) in proms.iter_enumerated() {
                    let sfx = format!("::promoted[{}]", pi.as_u32());
                    let line = body_json(&mut cx, def, pbody, "promoted-const", &sfx);
                    out.push_str(&line);
                    out.push('\n');
                }
            }
        }
        // impl table
        for id in tcx.hir_free_items() {
            let did = id.owner_id.to_def_id();
            if let DefKind::Impl { of_trait } = tcx.def_kind(did) {
                let st = tcx.type_of(did).instantiate_identity().skip_norm_wip();
                let sts = pp!(st.to_string());
                let mut o = String::from("{\"k\":\"impl\"");
                let _ = write!(o, ",\"self\":{}", js(&sts));
                if let ty::Adt(ad, _) = st.kind() {
                    let _ = write!(o, ",\"self_adt\":{}", js(&cx.path(ad.did())));
                }
                if of_trait {
                    let tr = tcx.impl_trait_ref(did).instantiate_identity().skip_norm_wip();
                    let trs =
                        pp!(tr.print_only_trait_path().to_string());
                    let _ = write!(o, ",\"trait\":{}", js(&trs));
                    let _ = write!(o, ",\"trait_def\":{}", js(&cx.path(tr.def_id)));
                }
                let _ = write!(o, ",\"span\":{}", cx.span(tcx.def_span(did)));
                o.push_str(",\"items\":[");
                let mut first = true;
                for it in tcx.associated_items(did).in_definition_order() {
                    if !first {
                        o.push(',');
                    }
                    first = false;
                    let nm = it.opt_name().map(|n| n.to_string()).unwrap_or_default();
                    let _ = write!(o, "[{},{}", js(&nm), js(&cx.path(it.def_id)));
                    if let Some(t) = it.trait_item_def_id() {
                        let _ = write!(o, ",{}", js(&cx.path(t)));
                    }
                    o.push(']');
                }
                o.push_str("]}");
                out.push_str(&o);
                out.push('\n');
            }
        }
        // named constants with scalar values
        for def in tcx.hir_body_owners() {
            let did = def.to_def_id();
            let dk = tcx.def_kind(did);
            if !matches!(dk, DefKind::Const { .. } | DefKind::AssocConst { .. }) {
                continue;
            }
            // only monomorphic constants
            if tcx.generics_of(did).requires_monomorphization(tcx) {
                continue;
            }
            let t = tcx.type_of(did).instantiate_identity().skip_norm_wip();
            let fieldless_enum = match t.kind() {
                ty::Adt(ad, _) => ad.is_enum() && ad.is_payloadfree(),
                _ => false,
            };
            if !(t.is_integral() || t.is_bool() || fieldless_enum) {
                continue;
            }
            let r = std::panic::catch_unwind(std::panic::AssertUnwindSafe(|| {
                tcx.const_eval_poly(did)
            }));
            if let Ok(Ok(cv)) = r {
                if let Some(si) = cv.try_to_scalar_int() {
                    let size = si.size();
                    let v = if t.is_signed() {
                        format!("{}", si.to_int(size))
                    } else {
                        format!("{}", si.to_uint(size))
                    };
                    if let ty::Adt(ad, _) = t.kind() {
                        cx.adts.insert(ad.did());
                    }
                    let ts = pp!(t.to_string());
                    let _ = writeln!(
                        out,
                        "{{\"k\":\"const\",\"path\":{},\"ty\":{},\"value\":{}}}",
                        js(&cx.path(did)),
                        js(&ts),
                        js(&v)
                    );
                }
            }
        }
        // ADT table (grow to fixpoint is not needed: only head ADTs of seen types)
        let mut adts: Vec<DefId> = cx.adts.iter().copied().collect();
        adts.sort_by_key(|d| cx.path(*d));
        for did in adts {
            let l = adt_json(&mut cx, did);
            out.push_str(&l);
            out.push('\n');
        }
        // crate record (types + files tables) — last line
        let mut o = String::from("{\"k\":\"crate\"");
        let _ = write!(o, ",\"name\":{}", js(&crate_name));
        let _ = write!(o, ",\"bodies\":{},\"stolen\":{}", nbodies, nstolen);
        let _ = write!(o, ",\"run_id\":{}", js(&std::env::var("MIRFACTS_RUN_ID").unwrap_or_default()));
        o.push_str(",\"files\":[");
        for (i, f) in cx.files.iter().enumerate() {
            if i > 0 {
                o.push(',');
            }
            jstr(&mut o, f);
        }
        o.push_str("],\"types\":[");
        for (i, t) in cx.types.iter().enumerate() {
            if i > 0 {
                o.push(',');
            }
            jstr(&mut o, t);
        }
        o.push_str("]}\n");
        out.push_str(&o);
        let _ = writeln!(
            out,
            "{{\"k\":\"end\",\"run_id\":{}}}",
            js(&std::env::var("MIRFACTS_RUN_ID").unwrap_or_default())
        );
        let kind = if tcx.sess.opts.test { ".test" } else { "" };
        let path = format!("{}/{}{}.facts.jsonl", out_dir, crate_name, kind);
        let tmp = format!("{}.tmp.{}", path, std::process::id());
        std::fs::write(&tmp, out).expect("mirfacts: cannot write fact file");
        std::fs::rename(&tmp, &path).expect("mirfacts: cannot rename fact file");
        Compilation::Continue
    }
}

fn main() {
    let mut args: Vec<String> = std::env::args().collect();
    // RUSTC_WORKSPACE_WRAPPER: argv[1] is the real rustc path
    if args.len() > 1 && (args[1].ends_with("rustc") || args[1].contains("/rustc")) {
        args.remove(1);
    }
    let crate_name = args
        .iter()
        .position(|a| a == "--crate-name")
        .and_then(|i| args.get(i + 1))
        .cloned()
        .unwrap_or_default();
    let wanted = std::env::var("MIRFACTS_CRATES").unwrap_or_default();
    let is_wanted = !crate_name.is_empty()
        && crate_name != "___"
        && (wanted.is_empty() || wanted.split(',').any(|c| c == crate_name))
        && !args.iter().any(|a| a == "--print=file-names" || a.starts_with("--print"));
    struct Plain;
    impl rustc_driver::Callbacks for Plain {}
    if is_wanted {
        rustc_driver::run_compiler(&args, &mut Cb);
    } else {
        rustc_driver::run_compiler(&args, &mut Plain);
    }
}
