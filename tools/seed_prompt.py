#!/usr/bin/env python3
"""Print the prompt handed to an independent mutation-seeding sub-agent: property text + worktree path only."""
import json, sys
pid, wt = sys.argv[1], sys.argv[2]
extra = sys.argv[3] if len(sys.argv) > 3 else ""
for l in open('/verif/properties.jsonl'):
    p = json.loads(l)
    if p['id'] == pid:
        break
else:
    sys.exit('no such property')
print(f"""You are helping to evaluate verification tooling for the Rust crate workspace scylladb/scylla-rust-driver.
You have your own scratch git worktree of the repository at {wt} (detached HEAD, Cargo.lock present; there is NO network, always pass
--offline to cargo; the build starts cold there, so the first `cargo test --offline -p scylla --lib` takes a few minutes).
Work ONLY inside {wt}. Never touch /repo or /verif, and do not read anything under /verif or /root/.claude.

Here is one semantic property that the driver is supposed to satisfy:

ID: {p['id']}
TITLE: {p['title']}
STATEMENT: {p['statement']}
QUANTIFIED OVER: {p['quantifier']['text']}
WHY TESTS CANNOT SETTLE IT: {p.get('why_tests_cant','')}
CODE ANCHORS: {json.dumps(p['anchors'])}

YOUR TASK: produce ONE realistic change to the driver's source (not to its tests) that BREAKS this property while
 (a) the workspace still compiles (`cargo check --offline -p scylla -p scylla-cql -p scylla-cql-core -p scylla-macros --all-targets`), and
 (b) the existing unit tests still pass: at minimum `cargo test --offline -p scylla --lib`, `cargo test --offline -p scylla-cql --lib`,
     `cargo test --offline -p scylla-cql-core --lib`, `cargo test --offline -p scylla-macros` (integration tests under scylla/tests need a
     live cluster and already fail offline - ignore those; do not edit or delete any existing test).
The change should look like something a maintainer could plausibly write by mistake or as a misguided refactor/optimisation (a dropped guard,
a reordered pair of operations, an off-by-one in a comparison, a second caller added in the wrong place, a table cell changed, a wrong
ordering constant...), and it must need something SPECIFIC to manifest: a particular interleaving, a fault or crash at a particular point,
a multi-step sequence of operations, an unusual input, or two cooperating sites that each look fine alone. Do NOT produce a change that
ordinary use or the existing tests would expose at once. Keep the diff small (ideally < 30 changed lines) and confined to non-test source files. {extra}

Also produce a DEMONSTRATION: a new test (or small program) that FAILS with your change applied and PASSES on the unchanged tree.
Put the demonstration in a NEW file (e.g. a new `#[cfg(test)] mod` file wired in by one line, or a new file under the crate's tests/
directory) - it may use crate-private items if it is placed inside the crate. It must run offline without a database. Verify both
directions yourself: run it with the change (fails) and with the change reverted (passes).

DELIVERABLES, all inside {wt}/SEED/ :
  - patch.diff  : `git diff` of ONLY the breaking source change (no demo files), applicable with `git apply` at the root of the pristine tree
  - demo.diff   : patch adding ONLY the demonstration (new files + the one-line wiring if any; use `git add -N` so new files show up in
                  `git diff`), applicable on the pristine tree independently of patch.diff
  - README.md   : which clause of the property breaks, what it needs in order to manifest, the exact commands you ran (demo with / without
                  the change, and the unit-test commands) and their results.
In your final message, summarise the change in 5-10 lines (files/functions touched, what manifests it, test results).
""")
