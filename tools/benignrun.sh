#!/bin/sh
# benignrun.sh <name> <PID>...  — apply /verif/benign/<name>.diff to /repo, run the given checks (full FINDING text), undo
D="${BENIGN_DIR:-/verif/benign}"; P="$D/$1.diff"; shift
git -C /repo apply "$P" || exit 3
for pid in "$@"; do
  /verif/check "$pid" | grep -E "^(FINDING|TOOL|$pid tier)" | cut -c1-900
done
git -C /repo checkout -- .
git -C /repo clean -fdq
git -C /repo status --short | head -3
